#!/usr/bin/env python3
"""C20 generator: enum-to-enum conversion harnesses for the binding crate (ffi/dnp3-ffi).

Scans <repo>/ffi/dnp3-ffi/src/**/*.rs for `impl From<A> for B` blocks.

 * An impl whose `fn from` body is one `match <param> { ... }` over enum variants is an ENUM conversion. For each one
   the generator emits one loop-free Kani harness that, for EVERY source variant, asserts that the result is the
   LIKE-NAMED variant of the target (`matches!`).  The expected variant is derived from the *source variant's name*
   (normalised: case/underscore-insensitive), never from the right-hand side the real code happens to contain.
   A source variant without a namesake in the target must have a line in EXCEPTIONS (with a justification quoted from
   the schema docs in ffi/dnp3-schema) -- otherwise the generator stops with an error.
   Each harness contains a wildcard-free `match` over the source enum (`guard`), so a variant added later to the
   source enum makes the harness stop compiling (check exits 2) instead of being silently uncovered.
 * Every other `impl From` must be classified in OTHER_IMPLS: either `hand:<harness name>` (a hand-written harness in
   append/**/c20_structs.rs; its presence on disk is verified) or `skip:<reason>`.  An unclassified impl is an error.

Output: one fragment per source file: <out>/append/ffi/dnp3-ffi/src/<file>.rs/c20_gen.rs    (deterministic)
Modes:  (default) write fragments;  --check: exit 2 if an on-disk fragment differs from what the current repo would
        generate (or a stale c20_gen.rs exists, or a hand-written harness named in OTHER_IMPLS is missing);
        --report: print the coverage table.
"""
import argparse
import os
import re
import sys

HERE = os.path.dirname(os.path.abspath(__file__))
FRAG_NAME = "c20_gen.rs"

# ----------------------------------------------------------------------------------------------------------------
# Tables (the only hand-maintained knowledge)
# ----------------------------------------------------------------------------------------------------------------

# Source variant without a namesake in the target.  key: "<SrcTypeLastSegment>::<Variant>-><DstTypeLastSegment or *>"
# value: (expected target: variant name, or a literal pattern starting with '='), justification
_TASK = "dnp3-schema/src/master/mod.rs TASK_ERRORS: "
EXCEPTIONS = {
    # Option-valued targets: the binding enum spells the absent case as a variant
    "EventClass::None->Option<EventClass>": ("=None",
        "schema database.rs event_class 'none': \"Does not generate events\" == native Option::<EventClass>::None"),
    # runtime errors (sfio-tokio-ffi RuntimeError) -> param_error; the schema prefixes them with 'runtime_'
    "RuntimeError::CannotBlockWithinAsync->ParamError": ("RuntimeCannotBlockWithinAsync",
        "schema shared.rs param_error 'runtime_cannot_block_within_async': \"Runtime cannot execute blocking call within asynchronous context\""),
    "RuntimeError::FailedToCreateRuntime->ParamError": ("RuntimeCreationFailure",
        "schema shared.rs param_error 'runtime_creation_failure': \"Failed to create Tokio runtime\""),
    # file type
    "FileType::File->FileType": ("Simple",
        "schema file.rs file_type 'simple': \"File is a simple file type suitable for sequential file transfer\" (native doc of File: \"Simple file type\")"),
    # native TaskError is finer-grained than the 9 task errors the schema exposes (same table for all 8 error types)
    "TaskError::Link->*": ("NoConnection", _TASK + "'no_connection': \"no connection\" (link-level failure drops the session)"),
    "TaskError::Transport->*": ("NoConnection", _TASK + "'no_connection': \"no connection\""),
    "TaskError::Disabled->*": ("NoConnection", _TASK + "'no_connection': \"no connection\" (a disabled master has none)"),
    "TaskError::MalformedResponse->*": ("BadResponse", _TASK + "'bad_response': \"response was malformed or contained object headers\""),
    "TaskError::UnexpectedResponseHeaders->*": ("BadResponse", _TASK + "'bad_response': \"response was malformed or contained object headers\""),
    "TaskError::NonFinWithoutCon->*": ("BadResponse", _TASK + "'bad_response' (malformed response sequence)"),
    "TaskError::NeverReceivedFir->*": ("BadResponse", _TASK + "'bad_response' (malformed response sequence)"),
    "TaskError::UnexpectedFir->*": ("BadResponse", _TASK + "'bad_response' (malformed response sequence)"),
    "TaskError::MultiFragmentResponse->*": ("BadResponse", _TASK + "'bad_response' (malformed response sequence)"),
    "TaskError::NoSuchAssociation->*": ("AssociationRemoved", _TASK + "'association_removed': \"association was removed mid-task\""),
    "TaskError::RejectedByIin2->*": ("IinError", _TASK + "'iin_error': \"outstation returned an IIN.2 error bit\""),
    # command response errors: the schema has a single header_mismatch
    "CommandResponseError::HeaderCountMismatch->CommandError": ("HeaderMismatch",
        "schema master/mod.rs command_error 'header_mismatch': \"Number of headers or objects in the response didn't match the number in the request\""),
    "CommandResponseError::HeaderTypeMismatch->CommandError": ("HeaderMismatch", "schema command_error 'header_mismatch' (see above)"),
    "CommandResponseError::ObjectCountMismatch->CommandError": ("HeaderMismatch", "schema command_error 'header_mismatch' (see above)"),
    "CommandResponseError::ObjectValueMismatch->CommandError": ("HeaderMismatch", "schema command_error 'header_mismatch' (see above)"),
    # errors folded into param_error
    "AssociationError::Shutdown->ParamError": ("MasterAlreadyShutdown", "schema shared.rs param_error 'master_already_shutdown': \"Master was already shutdown\""),
    "AssociationError::DuplicateAddress->ParamError": ("AssociationDuplicateAddress", "schema shared.rs param_error 'association_duplicate_address': \"Duplicate association address\""),
    "PollError::Shutdown->ParamError": ("MasterAlreadyShutdown", "schema shared.rs param_error 'master_already_shutdown'"),
    "PollError::NoSuchAssociation->ParamError": ("AssociationDoesNotExist", "schema shared.rs param_error 'association_does_not_exist': \"The specified association does not exist\""),
    "WriteError::IinError->EmptyResponseError": ("RejectedByIin2", "schema master/mod.rs empty_response_error 'rejected_by_iin2': \"IIN2 indicates request was not completely successful\""),
    # control codes: the schema enums have no 'unknown' variant (values 0..3 / 0..4 only); NUL is the schema default
    # variant (`default_variant(&tcc_field, \"nul\")`).  LOSSY: reported as an observation in the C20 level note.
    "TripCloseCode::Unknown->TripCloseCode": ("Nul", "schema shared.rs trip_close_code has only nul/close/trip/reserved; the field is 2 bits so Unknown(_) is unreachable from the wire; mapped to the schema default 'nul'"),
    "OpType::Unknown->OpType": ("Nul", "schema shared.rs op_type has only nul/pulse_on/pulse_off/latch_on/latch_off; wire values 5..15 have no schema variant and arrive as the schema default 'nul' (LOSSY, see report)"),
}

# Payload expressions for source variants that carry data (the real arm ignores them with `_`/`..`, so any
# value is representative; cheap ones are nondeterministic).  key "<SrcTypeLastSegment>::<Variant>" -> text after the variant.
_ADDR = "(any_addr())"
_DUR = "(std::time::Duration::from_millis(kani::any::<u32>() as u64))"
_FC = "(dnp3::app::FunctionCode::ColdRestart)"
PAYLOADS = {
    "Variation::Group0": "(kani::any())",
    "Variation::Group110": "(kani::any())",
    "Variation::Group111": "(kani::any())",
    "TaskType::GenericEmptyResponse": _FC,
    "BroadcastAction::UnsupportedFunction": _FC,
    "TripCloseCode::Unknown": "(kani::any())",
    "OpType::Unknown": "(kani::any())",
    "CommandStatus::Unknown": "(kani::any())",
    "ClientState::WaitAfterFailedConnect": _DUR,
    "ClientState::WaitAfterDisconnect": _DUR,
    "CommandResponseError::BadStatus": "(dnp3::app::control::CommandStatus::Unknown(kani::any()))",
    "TimeSyncError::BadOutstationTimeDelay": "(kani::any())",
    "TimeSyncError::IinError": "(dnp3::app::Iin2::new(kani::any()))",
    "WriteError::IinError": "(dnp3::app::Iin2::new(kani::any()))",
    "AssociationError::DuplicateAddress": _ADDR,
    "AssociationError::WrongChannelType": "{ actual: dnp3::master::MasterChannelType::Udp, required: dnp3::master::MasterChannelType::Stream }",
    "PollError::NoSuchAssociation": _ADDR,
    "FileError::BadStatus": "(dnp3::app::FileStatus::PermissionDenied)",
    "FileType::Other": "(kani::any())",
    "AttrDefError::ReservedVariation": "(kani::any())",
    "AttrDefError::NotWritable": "(dnp3::app::attr::AttrSet::new(kani::any()), kani::any())",
    # TypeError has crate-private fields and constructor: the value comes from the `impl kani::Arbitrary for TypeError`
    # woven into dnp3 by append/dnp3/src/app/attr.rs/c20_arb.rs
    "AttrDefError::BadType": "(kani::any())",
    # LinkError is unnameable from the binding crate (pub type in a private module): the value comes from the
    # `impl kani::Arbitrary for LinkError` woven into dnp3 by append/dnp3/src/link/error.rs/c20_arb.rs (type inferred)
    "TaskError::Link": "(kani::any())",
    "TaskError::RejectedByIin2": "(dnp3::app::Iin::new(dnp3::app::Iin1::new(kani::any()), dnp3::app::Iin2::new(kani::any())))",
    "TaskError::MalformedResponse": "(dnp3::app::ObjectParseError::UnknownQualifier(kani::any()))",
    "TaskError::BadEncoding": "(dnp3::master::BadEncoding::Attribute(dnp3::app::attr::BadAttribute::BadLength(kani::any())))",
    "TaskError::NoSuchAssociation": _ADDR,
}

# `Variant(x) => x.into()` arms: type of the bound payload (last path segment), whose own conversion into the same
# target is flattened into the harness.  key "<SrcTypeLastSegment>::<Variant>"
DELEGATES = {
    "CommandError::Task": "TaskError",
    "CommandResponseError::Request": "TaskError",
    "TimeSyncError::Task": "TaskError",
    "WriteError::Task": "TaskError",
    "FileError::TaskError": "TaskError",
}

# impls whose macro-generated target is `ffi::$name`
MACRO_INSTANCES = re.compile(r"define_task_from_impl!\((\w+)\);")

# Classification of every non-enum `impl From` (key "<file>:<A> -> <B>").  hand:<harness> | skip:<reason>
H = "hand:"
S = "skip:"
_CONST = S + "constant function of a payload-free/opaque error (one target value, nothing to pair); needs io/addr-parse/utf8 error objects"
OTHER_IMPLS = {
    "decoding.rs:crate::ffi::DecodeLevel -> DecodeLevel": H + "vk_c20_decode_level",
    "decoding.rs:DecodeLevel -> crate::ffi::DecodeLevel": H + "vk_c20_decode_level",
    "handler.rs:AttrItem -> ffi::AttrItem": H + "vk_c20_header_info",
    "handler.rs:Iin1 -> ffi::Iin1": H + "vk_c20_iin",
    "handler.rs:Iin2 -> ffi::Iin2": H + "vk_c20_iin",
    "handler.rs:ResponseHeader -> ffi::ResponseHeader": H + "vk_c20_response_header",
    "handler.rs:HeaderInfo -> ffi::HeaderInfo": H + "vk_c20_header_info",
    "handler.rs:Flags -> ffi::Flags": H + "vk_c20_flags",
    "handler.rs:Option<Time> -> ffi::Timestamp": H + "vk_c20_time_to_ffi",
    "lib.rs:crate::TracingInitError -> std::os::raw::c_int": _CONST,
    "lib.rs:crate::runtime::RuntimeError -> std::os::raw::c_int": H + "vk_c20_runtime_error_int",
    "lib.rs:dnp3::app::Shutdown -> crate::ffi::ParamError": H + "vk_c20_const_errors",
    "master/server.rs:ffi::LinkIdConfig -> LinkIdConfig": S + "not a plain copy (0 tasks -> 1, saturating timeout) and native LinkIdConfig fields are private",
    "master/futures.rs:dnp3::app::Permissions -> ffi::Permissions": H + "vk_c20_permissions_to_ffi",
    "master/futures.rs:dnp3::app::PermissionSet -> ffi::PermissionSet": H + "vk_c20_permissions_from_ffi",
    "master/futures.rs:OpenFile -> ffi::OpenFile": H + "vk_c20_file_read_config",
    "command.rs:ffi::ControlCode -> ControlCode": H + "vk_c20_control_code_from_ffi",
    "command.rs:ffi::Group12Var1 -> Group12Var1": H + "vk_c20_g12v1_from_ffi",
    "master/functions.rs:TimeoutRangeError -> ffi::ParamError": _CONST,
    "master/functions.rs:ffi::UtcTimestamp -> Option<Timestamp>": H + "vk_c20_utc_timestamp",
    "master/functions.rs:ffi::Permissions -> Permissions": H + "vk_c20_permissions_from_ffi",
    "master/functions.rs:ffi::PermissionSet -> PermissionSet": H + "vk_c20_permissions_from_ffi",
    "master/functions.rs:Utf8Error -> ffi::ParamError": _CONST,
    "master/functions.rs:ffi::RetryStrategy -> RetryStrategy": H + "vk_c20_retry_connect_strategy",
    "master/functions.rs:ffi::SerialSettings -> SerialSettings": S + "cfg(feature = \"serial\"): not compiled in the verified build",
    "master/functions.rs:SpecialAddressError -> ffi::ParamError": H + "vk_c20_const_errors",
    "master/functions.rs:ffi::ConnectStrategy -> ConnectStrategy": H + "vk_c20_retry_connect_strategy",
    "master/functions.rs:ffi::FileReadConfig -> FileReadConfig": H + "vk_c20_file_read_config",
    "master/functions.rs:ffi::DirReadConfig -> DirReadConfig": H + "vk_c20_file_read_config",
    "outstation/struct_constructors.rs:BadIpv4Wildcard -> ffi::ParamError": _CONST,
    "outstation/struct_constructors.rs:EventBufferConfig -> ffi::EventBufferConfig": H + "vk_c20_event_buffer_config",
    "outstation/struct_constructors.rs:Option<RestartDelay> -> ffi::RestartDelay": H + "vk_c20_restart_delay",
    "outstation/adapters.rs:dnp3::outstation::BufferState -> ffi::BufferState": H + "vk_c20_buffer_state",
    "outstation/adapters.rs:dnp3::outstation::ClassCount -> ffi::ClassCount": H + "vk_c20_buffer_state",
    "outstation/adapters.rs:dnp3::outstation::TypeCount -> ffi::TypeCount": H + "vk_c20_buffer_state",
    "outstation/adapters.rs:ffi::ApplicationIin -> ApplicationIin": H + "vk_c20_outstation_bool_structs",
    "outstation/adapters.rs:ffi::RestartDelay -> Option<RestartDelay>": H + "vk_c20_restart_delay",
    "outstation/adapters.rs:RequestHeader -> ffi::RequestHeader": H + "vk_c20_request_header",
    "outstation/adapters.rs:ControlField -> ffi::ControlField": H + "vk_c20_request_header",
    "outstation/adapters.rs:Group12Var1 -> ffi::Group12Var1": H + "vk_c20_g12v1_to_ffi",
    "outstation/adapters.rs:ControlCode -> ffi::ControlCode": H + "vk_c20_control_code_to_ffi",
    "outstation/database.rs:dnp3::outstation::database::UpdateInfo -> ffi::UpdateInfo": H + "vk_c20_update_info",
    "outstation/database.rs:ffi::UpdateOptions -> UpdateOptions": H + "vk_c20_update_options",
    "outstation/database.rs:&ffi::Flags -> Flags": H + "vk_c20_flags",
    "outstation/database.rs:&ffi::Timestamp -> Option<Time>": H + "vk_c20_time_from_ffi",
    "outstation/database.rs:ffi::BinaryInputConfig -> BinaryInputConfig": H + "vk_c20_cfg_binary_input",
    "outstation/database.rs:ffi::BinaryInput -> BinaryInput": H + "vk_c20_meas_binary_input",
    "outstation/database.rs:ffi::DoubleBitBinaryInputConfig -> DoubleBitBinaryInputConfig": H + "vk_c20_cfg_double_bit_binary_input",
    "outstation/database.rs:ffi::DoubleBitBinaryInput -> DoubleBitBinaryInput": H + "vk_c20_meas_double_bit_binary_input",
    "outstation/database.rs:ffi::BinaryOutputStatusConfig -> BinaryOutputStatusConfig": H + "vk_c20_cfg_binary_output_status",
    "outstation/database.rs:ffi::BinaryOutputStatus -> BinaryOutputStatus": H + "vk_c20_meas_binary_output_status",
    "outstation/database.rs:ffi::CounterConfig -> CounterConfig": H + "vk_c20_cfg_counter",
    "outstation/database.rs:ffi::Counter -> Counter": H + "vk_c20_meas_counter",
    "outstation/database.rs:ffi::FrozenCounterConfig -> FrozenCounterConfig": H + "vk_c20_cfg_frozen_counter",
    "outstation/database.rs:ffi::FrozenCounter -> FrozenCounter": H + "vk_c20_meas_frozen_counter",
    "outstation/database.rs:ffi::AnalogInputConfig -> AnalogInputConfig": H + "vk_c20_cfg_analog_input",
    "outstation/database.rs:ffi::AnalogInput -> AnalogInput": H + "vk_c20_meas_analog_input",
    "outstation/database.rs:ffi::AnalogOutputStatusConfig -> AnalogOutputStatusConfig": H + "vk_c20_cfg_analog_output_status",
    "outstation/database.rs:ffi::AnalogOutputStatus -> AnalogOutputStatus": H + "vk_c20_meas_analog_output_status",
    "outstation/mod.rs:&ffi::OutstationFeatures -> Features": H + "vk_c20_outstation_bool_structs",
    "outstation/mod.rs:ffi::ClassZeroConfig -> ClassZeroConfig": H + "vk_c20_outstation_bool_structs",
    "outstation/mod.rs:&ffi::EventBufferConfig -> EventBufferConfig": H + "vk_c20_event_buffer_config",
    "outstation/mod.rs:AddrParseError -> ffi::ParamError": _CONST,
    "outstation/mod.rs:BufferSizeError -> ffi::ParamError": _CONST,
    "outstation/mod.rs:FilterError -> ffi::ParamError": _CONST,
    "outstation/mod.rs:std::io::Error -> ffi::ParamError": S + "logs through tracing with Display of io::Error (format!): too slow; constant result",
}

# Several small impls of one file share a harness (keeps the harness count low).  harness name -> impl keys.
# An enum impl not listed here gets a harness of its own.
_F = "master/functions.rs:"
_A = "outstation/adapters.rs:"
_M = "outstation/mod.rs:"
GROUPS = {
    "vk_c20_decoding_levels_from_ffi": ["decoding.rs:crate::ffi::%s -> %s" % (t, t) for t in
                                        ("AppDecodeLevel", "TransportDecodeLevel", "LinkDecodeLevel", "PhysDecodeLevel")],
    "vk_c20_decoding_levels_to_ffi": ["decoding.rs:%s -> crate::ffi::%s" % (t, t) for t in
                                      ("AppDecodeLevel", "TransportDecodeLevel", "LinkDecodeLevel", "PhysDecodeLevel")],
    "vk_c20_handler_attr_enums_to_ffi": ["handler.rs:%s -> ffi::%s" % (a, b) for a, b in (
        ("VariationListAttr", "VariationListAttr"), ("OctetStringAttr", "OctetStringAttr"), ("StringAttr", "StringAttr"),
        ("UIntAttr", "UintAttr"), ("FloatAttr", "FloatAttr"), ("BoolAttr", "BoolAttr"), ("TimeAttr", "TimeAttr"))],
    "vk_c20_master_functions_taskerror_to_ffi_errors_a": [_F + "TaskError -> ffi::%s" % t for t in (
        "CommandError", "TimeSyncError", "RestartError", "ReadError")],
    "vk_c20_master_functions_taskerror_to_ffi_errors_b": [_F + "TaskError -> ffi::%s" % t for t in (
        "LinkStatusError", "TaskError", "EmptyResponseError", "FileError")],
    "vk_c20_master_functions_modes_from_ffi": [_F + "ffi::FileMode -> FileMode", _F + "ffi::CommandMode -> CommandMode",
                                               _F + "ffi::TimeSyncMode -> TimeSyncProcedure"],
    "vk_c20_master_functions_assoc_poll_error_to_ffi_paramerror": [_F + "AssociationError -> ffi::ParamError", _F + "PollError -> ffi::ParamError"],
    "vk_c20_outstation_adapters_ffi_results_to_result": [_A + "ffi::WriteTimeResult -> Result<(), RequestError>",
                                                         _A + "ffi::FreezeResult -> Result<(), RequestError>"],
    "vk_c20_outstation_adapters_control_enums_to_ffi": [_A + "TripCloseCode -> ffi::TripCloseCode", _A + "OpType -> ffi::OpType",
                                                        _A + "OperateType -> ffi::OperateType"],
    "vk_c20_outstation_mod_small_enums": [_M + "ffi::UdpSocketMode -> UdpSocketMode", _M + "ConnectionState -> ffi::ConnectionState",
                                          _M + "ffi::LinkErrorMode -> LinkErrorMode", _M + "ffi::LinkReadMode -> LinkReadMode"],
}

# enum impls the scanner recognises but which cannot be run
ENUM_SKIPS = {
    "master/functions.rs:PortState -> ffi::PortState": "cfg(feature = \"serial\"): not compiled in the verified build (--no-default-features)",
    "master/functions.rs:TlsError -> ffi::ParamError": "cfg(feature = \"enable-tls\"): not compiled in the verified build; payloads are Strings",
    "master/functions.rs:ffi::MinTlsVersion -> MinTlsVersion": "cfg(feature = \"enable-tls\"): not compiled in the verified build",
    "master/functions.rs:ffi::CertificateMode -> CertificateMode": "cfg(feature = \"enable-tls\"): not compiled in the verified build",
    "outstation/struct_constructors.rs:&AddressFilter -> dnp3::tcp::AddressFilter": "binding-internal enum carrying a HashSet<IpAddr> (heap collection, hashing): out of reach",
}


class GenError(Exception):
    pass


# ----------------------------------------------------------------------------------------------------------------
# Lexing helpers
# ----------------------------------------------------------------------------------------------------------------

def blank_comments_and_strings(text):
    """Replace comments and string literal contents by spaces (offsets preserved)."""
    out = list(text)
    i, n = 0, len(text)
    while i < n:
        c = text[i]
        if text.startswith("//", i):
            j = text.find("\n", i)
            j = n if j < 0 else j
            for k in range(i, j):
                out[k] = " "
            i = j
        elif text.startswith("/*", i):
            depth, j = 1, i + 2
            while j < n and depth:
                if text.startswith("/*", j):
                    depth += 1
                    j += 2
                elif text.startswith("*/", j):
                    depth -= 1
                    j += 2
                else:
                    j += 1
            for k in range(i, j):
                if out[k] != "\n":
                    out[k] = " "
            i = j
        elif c == '"':
            j = i + 1
            while j < n and text[j] != '"':
                j += 2 if text[j] == "\\" else 1
            for k in range(i + 1, min(j, n)):
                if out[k] != "\n":
                    out[k] = " "
            i = j + 1
        elif c == "'" and i + 2 < n and (text[i + 2] == "'" or (text[i + 1] == "\\" and text.find("'", i + 2) - i <= 4)):
            j = text.find("'", i + 2 if text[i + 1] == "\\" else i + 1)
            i = j + 1
        else:
            i += 1
    return "".join(out)


OPEN, CLOSE = "({[", ")}]"


def match_close(text, i):
    """text[i] is an opening bracket; return index of its partner."""
    depth = 0
    for j in range(i, len(text)):
        if text[j] in OPEN:
            depth += 1
        elif text[j] in CLOSE:
            depth -= 1
            if depth == 0:
                return j
    raise GenError("unbalanced bracket at offset %d" % i)


def squash(s):
    return re.sub(r"\s+", " ", s).strip()


def norm(ident):
    return ident.replace("_", "").lower()


def last_seg(path):
    path = path.strip()
    path = re.sub(r"^&\s*", "", path)
    if "<" in path:  # Option<EventClass>, Result<(), RequestError>
        return re.sub(r"\s+", "", path)
    return path.split("::")[-1]


# ----------------------------------------------------------------------------------------------------------------
# Parsing
# ----------------------------------------------------------------------------------------------------------------

IMPL_RE = re.compile(r"\bimpl(?:\s*<[^>]*>)?\s+(?:std::convert::)?From<")


class Impl:
    def __init__(self, file, line, src, dst, param, body):
        self.file, self.line, self.src, self.dst, self.param, self.body = file, line, src, dst, param, body
        self.arms = None  # list of Arm if enum conversion
        self.cfg = None   # `#[cfg(..)]` predicate directly above the impl

    def key(self):
        return "%s:%s -> %s" % (self.file, self.src, self.dst)


class Arm:
    """pattern `path::Variant [payload]` => rhs"""

    def __init__(self, path, variant, payload_kind, binding, rhs):
        self.path, self.variant, self.payload_kind, self.binding, self.rhs = path, variant, payload_kind, binding, rhs


def find_impls(relfile, text):
    clean = blank_comments_and_strings(text)
    res = []
    for m in IMPL_RE.finditer(clean):
        # A = up to the matching '>' of From<
        i = m.end() - 1
        depth = 0
        j = i
        while True:
            if clean[j] == "<":
                depth += 1
            elif clean[j] == ">" and clean[j - 1] != "-":
                depth -= 1
                if depth == 0:
                    break
            j += 1
        src = squash(clean[i + 1:j])
        rest = clean[j + 1:]
        m2 = re.match(r"\s+for\s+([^{]+?)\s*\{", rest)
        if not m2:
            raise GenError("%s: cannot parse impl header at offset %d" % (relfile, m.start()))
        dst = squash(m2.group(1))
        ob = j + 1 + m2.end() - 1
        cb = match_close(clean, ob)
        body = clean[ob + 1:cb]
        line = clean.count("\n", 0, m.start()) + 1
        fm = re.search(r"\bfn\s+from\s*\(\s*(\w+)\s*:", body)
        if not fm:
            raise GenError("%s:%d: impl From without fn from" % (relfile, line))
        fob = body.index("{", fm.end())
        fcb = match_close(body, fob)
        im = Impl(relfile, line, src, dst, fm.group(1), body[fob + 1:fcb])
        pre = text[:m.start()].rstrip()
        cm = re.search(r"#\[cfg\(([^\]]*)\)\]$", pre)
        im.cfg = cm.group(1) if cm else None
        res.append(im)
    return res


PAT_RE = re.compile(r"^((?:\w+::)*)(\w+)\s*(\(.*\)|\{.*\})?$", re.S)


def split_arms(block):
    """block = text between the braces of a match. Returns list of (pattern_text, rhs_text)."""
    arms, i, n = [], 0, len(block)
    while True:
        while i < n and block[i] in " \t\r\n,":
            i += 1
        if i >= n:
            break
        # pattern up to top-level =>
        j, depth = i, 0
        while j < n:
            if block[j] in OPEN:
                depth += 1
            elif block[j] in CLOSE:
                depth -= 1
            elif depth == 0 and block.startswith("=>", j):
                break
            j += 1
        if j >= n:
            raise GenError("arm without =>: %r" % block[i:i + 60])
        pat = squash(block[i:j])
        k = j + 2
        while block[k] in " \t\r\n":
            k += 1
        if block[k] == "{":
            e = match_close(block, k)
            rhs = block[k + 1:e]
            # `{ ... }.into()` style continues after the brace
            t = e + 1
            tail = re.match(r"\s*(\.\s*\w+\s*\(\s*\))", block[t:])
            if tail:
                rhs = block[k:t + tail.end()]
                t += tail.end()
            k = t
        else:
            e, depth = k, 0
            while e < n:
                if block[e] in OPEN:
                    depth += 1
                elif block[e] in CLOSE:
                    depth -= 1
                elif depth == 0 and block[e] == ",":
                    break
                # `match x { .. }` as rhs ends at its closing brace
                e += 1
            rhs = block[k:e]
            k = e
        arms.append((pat, squash(rhs)))
        i = k
    return arms


def parse_match(text, scrutinee):
    """If text is exactly `match <scrutinee> { arms }` return [Arm] else None."""
    t = text.strip()
    m = re.match(r"^match\s+(\w+)\s*\{", t)
    if not m or m.group(1) != scrutinee:
        return None
    ob = m.end() - 1
    cb = match_close(t, ob)
    if t[cb + 1:].strip():
        return None
    arms = []
    for pat, rhs in split_arms(t[ob + 1:cb]):
        if pat == "_" or re.match(r"^\w+$", pat) and pat[0].islower():
            raise GenError("wildcard / catch-all arm %r: conversion is not variant-wise" % pat)
        pm = PAT_RE.match(pat)
        if not pm:
            return None
        path, variant, payload = pm.group(1).rstrip(":"), pm.group(2), pm.group(3)
        kind, binding = None, None
        if payload:
            inner = payload[1:-1].strip()
            kind = "tuple" if payload[0] == "(" else "struct"
            if kind == "tuple" and re.match(r"^[a-z]\w*$", inner):
                binding = inner
            elif not re.match(r"^(_|\.\.)(\s*,\s*(_|\.\.))*$", inner):
                return None  # binds fields: a struct-like conversion, not a pure variant map
        if not path:
            return None  # bool / literal patterns
        arms.append(Arm(path, variant, kind, binding, rhs))
    return arms


def scan(repo):
    root = os.path.join(repo, "ffi", "dnp3-ffi", "src")
    impls = []
    for dirpath, dirnames, filenames in os.walk(root):
        dirnames.sort()
        for f in sorted(filenames):
            if not f.endswith(".rs"):
                continue
            p = os.path.join(dirpath, f)
            rel = os.path.relpath(p, root)
            text = open(p).read()
            found = find_impls(rel, text)
            for im in found:
                if "$" in im.dst:  # macro template: one impl per invocation
                    names = MACRO_INSTANCES.findall(blank_comments_and_strings(text))
                    if not names:
                        raise GenError("%s:%d: macro impl without instances" % (rel, im.line))
                    for nm in names:
                        impls.append(Impl(rel, im.line, im.src, re.sub(r"\$\w+", nm, im.dst), im.param, im.body))
                else:
                    impls.append(im)
    impls.sort(key=lambda i: (i.file, i.line, i.dst))
    for im in impls:
        im.arms = parse_match(im.body, im.param)
        if im.arms is not None:
            # a struct-literal rhs means "enum -> struct": left to the hand-written harnesses
            if any(re.search(r"\w\s*\{", a.rhs) and not a.rhs.startswith("match ") for a in im.arms):
                im.arms = None
    return impls


# ----------------------------------------------------------------------------------------------------------------
# Target patterns
# ----------------------------------------------------------------------------------------------------------------

RHS_SIMPLE = re.compile(r"^((?:\w+::)+)(\w+)(\s*\(.*\))?$")


def tkey(t):
    """identity of a target type: as written, minus a leading `crate::` and blanks"""
    return re.sub(r"^crate::", "", re.sub(r"\s+", "", t))


def rhs_target(rhs, dst, literal=False):
    """-> (variant name, pattern text) for a leaf rhs, or None if not a plain variant expression."""
    r = rhs.strip()
    if r.startswith("{") and r.endswith("}"):
        r = r[1:-1].strip()
    if r == "None":
        return ("None", "None")
    if r == "Ok(())":
        return ("Ok", "Ok(())")
    m = re.match(r"^(Some|Err)\((.*)\)$", r)
    if m:
        inner = rhs_target(m.group(2), dst, literal=True)
        if inner is None:
            return None
        return (inner[0], "%s(%s)" % (m.group(1), inner[1]))
    m = RHS_SIMPLE.match(r)
    if not m:
        return None
    path, variant, payload = m.group(1).rstrip(":"), m.group(2), m.group(3)
    if literal:  # inside Some(..)/Err(..): the path as written (such targets occur in one impl only)
        return (variant, "%s::%s%s" % (path, variant, "(_)" if payload else ""))
    # a plain variant of the target type is re-rendered with the impl's own spelling of the target path
    return (variant, "@DST@::%s%s" % (variant, "(_)" if payload else ""))


class Plan:
    """flattened list of (source expression, guard info, leaf src type, leaf variant, real rhs) for one impl"""

    def __init__(self, impl):
        self.impl = impl
        self.cases = []   # (src_expr, leaf_type_last, leaf_variant, human)
        self.guards = {}  # type path text -> ordered list of pattern texts
        self.targets = {}  # norm name -> pattern (from the real rhs's: the set of target variants that exist)


def payload_for(tlast, arm):
    key = "%s::%s" % (tlast, arm.variant)
    if arm.payload_kind is None:
        return ""
    if key not in PAYLOADS:
        raise GenError("no PAYLOADS entry for %s (variant carries data)" % key)
    return PAYLOADS[key]


def build_plan(impl, by_src_dst):
    plan = Plan(impl)

    def collect_targets(arms):
        for a in arms:
            if a.rhs.startswith("match "):
                continue
            t = rhs_target(a.rhs, impl.dst)
            if t:
                plan.targets.setdefault(norm(t[0]), t[1])

    def walk(arms, wrap, stack):
        if not arms:
            raise GenError("%s: empty match" % impl.key())
        tpath = arms[0].path
        tlast = last_seg(tpath)
        g = plan.guards.setdefault(tpath, [])
        collect_targets(arms)
        for a in arms:
            if a.path != tpath:
                raise GenError("%s: mixed enum paths in one match (%s vs %s)" % (impl.key(), a.path, tpath))
            gp = "%s::%s%s" % (a.path, a.variant, {"tuple": "(..)", "struct": " { .. }", None: ""}[a.payload_kind])
            if gp not in g:
                g.append(gp)
            key = "%s::%s" % (tlast, a.variant)
            if a.binding:
                if a.rhs.startswith("match "):
                    inner = parse_match(a.rhs, a.binding)
                    if inner is None:
                        raise GenError("%s: nested match of %s not variant-wise" % (impl.key(), key))
                    walk(inner, lambda e, a=a, wrap=wrap: wrap("%s::%s(%s)" % (a.path, a.variant, e)), stack + [key])
                elif re.match(r"^%s\.into\(\)$" % re.escape(a.binding), a.rhs):
                    if key not in DELEGATES:
                        raise GenError("no DELEGATES entry for %s (`%s`)" % (key, a.rhs))
                    inner_impl = by_src_dst.get((DELEGATES[key], tkey(impl.dst)))
                    if inner_impl is None or inner_impl.arms is None:
                        raise GenError("%s: delegate impl From<%s> for %s not found" % (impl.key(), DELEGATES[key], impl.dst))
                    walk(inner_impl.arms, lambda e, a=a, wrap=wrap: wrap("%s::%s(%s)" % (a.path, a.variant, e)), stack + [key])
                else:
                    raise GenError("%s: arm %s binds its payload and uses it in `%s`" % (impl.key(), key, a.rhs))
                continue
            expr = wrap("%s::%s%s" % (a.path, a.variant, payload_for(tlast, a)))
            plan.cases.append((expr, tlast, a.variant, " / ".join(stack + [key])))

    walk(impl.arms, lambda e: e, [])
    return plan


def expected_pattern(plan, all_targets, tlast, variant):
    dlast = last_seg(plan.impl.dst)
    for k in ("%s::%s->%s" % (tlast, variant, dlast), "%s::%s->*" % (tlast, variant)):
        if k in EXCEPTIONS:
            tgt, why = EXCEPTIONS[k]
            USED_EXCEPTIONS.add(k)
            if tgt.startswith("="):
                return tgt[1:], why
            pat = all_targets.get(tkey(plan.impl.dst), {}).get(norm(tgt))
            if pat is None:
                pat = "@DST@::%s" % tgt
            return pat.replace("@DST@", plan.impl.dst), why
    pat = all_targets.get(tkey(plan.impl.dst), {}).get(norm(variant))
    if pat is None:
        raise GenError("%s: source variant %s::%s has no namesake among the variants of %s seen in the binding crate "
                       "and no EXCEPTIONS line" % (plan.impl.key(), tlast, variant, plan.impl.dst))
    if pat == "None":
        raise GenError("%s: %s::%s maps to Option::None: needs an EXCEPTIONS line" % (plan.impl.key(), tlast, variant))
    return pat.replace("@DST@", plan.impl.dst), None


USED_EXCEPTIONS = set()


# ----------------------------------------------------------------------------------------------------------------
# Emission
# ----------------------------------------------------------------------------------------------------------------

def ident(s):
    return re.sub(r"_+", "_", re.sub(r"[^a-z0-9]+", "_", s.lower())).strip("_")


def harness_name(impl):
    def side(t):
        t = re.sub(r"^&\s*", "", t)
        is_ffi = re.search(r"\bffi::", t) is not None
        return ("ffi_" if is_ffi else "") + ident(last_seg(t))
    stem = ident(os.path.splitext(impl.file)[0].replace("/", "_"))
    return "vk_c20_%s_%s_to_%s" % (stem, side(impl.src), side(impl.dst))


def emit_harness(plans, all_targets, name, out):
    """one harness for a list of plans (impls of the same file).

    Per impl: pick ANY source variant (nondeterministic selector over the complete list), convert ONCE with the real
    `From::from`, then check per selector value that the result is the like-named target variant."""
    blocks, units, notes = [], [], []
    total = 0
    for pi, plan in enumerate(plans):
        impl = plan.impl
        exc_notes = []
        pick, check = [], []
        for idx, (expr, tlast, variant, human) in enumerate(plan.cases):
            pat, why = expected_pattern(plan, all_targets, tlast, variant)
            if why:
                e = "%s=>%s" % (variant, pat.split("::")[-1])
                if e not in exc_notes:
                    exc_notes.append(e)
            pick.append("                    %d => %s,\n" % (idx, expr))
            # a cover costs one solver call: only the first and the last case carry one (all cases are reachable by
            # construction: the selector match above is total on k < N)
            cov = ("                        kani::cover!(true, \"%s\");\n" % human) if idx in (0, len(plan.cases) - 1) else ""
            check.append("                    %d => {\n"
                         "                        assert!(matches!(out, %s), \"%s -> %s\");\n%s"
                         "                    }\n" % (idx, pat, human, pat.replace('"', "'"), cov))
        total += len(plan.cases)
        blocks.append("            %d => {\n"
                      "                // %s:%d  impl From<%s> for %s\n"
                      "                let k: u16 = kani::any();\n"
                      "                kani::assume(k < %d);\n"
                      "                let src = match k {\n%s"
                      "                    _ => unreachable!(),\n"
                      "                };\n"
                      "                g%d_0(&src);\n"
                      "                let out: %s = From::from(src);\n"
                      "                match k {\n%s"
                      "                    _ => unreachable!(),\n"
                      "                }\n"
                      "            }\n" % (pi, impl.file, impl.line, impl.src, impl.dst, len(plan.cases), "".join(pick), pi, impl.dst,
                                       "".join(check)))
        notes.append("%s->%s (%d cases%s)" % (impl.src, impl.dst, len(plan.cases),
                                              ("; EXCEPTIONS table: " + ", ".join(exc_notes)) if exc_notes else ""))
        units.append("From<%s>for<%s>" % (impl.src.replace(" ", ""), impl.dst.replace(" ", "")))
        out.append("    // %s:%d  impl From<%s> for %s\n" % (impl.file, impl.line, impl.src, impl.dst))
    note = ("every source variant maps to the like-named target variant: " + " | ".join(notes)).replace('"', "'")
    stem = "dnp3-ffi::" + os.path.splitext(plans[0].impl.file)[0].replace("/", "::") + "::"
    out.append("    // @harness ids=C20 tier=quick kind=proof package=dnp3-ffi units=%s timeout=120 note=\"%s\"\n"
               % (",".join(stem + u for u in units), note))
    out.append("    #[kani::proof]\n    fn %s() {\n" % name)
    # exhaustiveness guards (no wildcard arm => a new source variant breaks compilation of this harness)
    for pi, plan in enumerate(plans):
        for gi, (tpath, pats) in enumerate(plan.guards.items()):
            ty = tpath if gi else plan.impl.src.lstrip("&").strip()
            out.append("        fn g%d_%d(x: &%s) {\n            match x {\n" % (pi, gi, ty))
            for p in pats:
                out.append("                %s => (),\n" % p)
            out.append("            }\n        }\n")
    out.append("        let which: u8 = kani::any();\n        kani::assume(which < %d);\n        match which {\n" % len(plans))
    out.extend(blocks)
    out.append("            _ => unreachable!(),\n        }\n    }\n\n")
    return total


PRELUDE = """\
    // GENERATED by /verif/gen/c20/gen_ffi.py from the `impl From` blocks of this file -- do not edit.
    // Regenerate: python3 gen_ffi.py ; verify freshness: python3 gen_ffi.py --check

    #[allow(dead_code)]
    fn any_addr() -> dnp3::link::EndpointAddress {
        match dnp3::link::EndpointAddress::try_new(kani::any()) {
            Ok(a) => a,
            Err(_) => {
                kani::assume(false);
                loop {}
            }
        }
    }

"""


def generate(repo):
    impls = scan(repo)
    enum_impls = [i for i in impls if i.arms is not None]
    other = [i for i in impls if i.arms is None]
    by_src_dst = {}
    for i in enum_impls:
        by_src_dst[(last_seg(i.src), tkey(i.dst))] = i
    # classification of the rest
    problems = []
    for i in other:
        if i.key() not in OTHER_IMPLS:
            problems.append("unclassified impl (add to OTHER_IMPLS): %s (line %d)" % (i.key(), i.line))
    seen_keys = {i.key() for i in other}
    for k in OTHER_IMPLS:
        if k not in seen_keys:
            problems.append("stale OTHER_IMPLS entry (impl no longer exists / became an enum match): %s" % k)
    if problems:
        raise GenError("\n".join(problems))
    for k in ENUM_SKIPS:
        if k not in {i.key() for i in enum_impls}:
            raise GenError("stale ENUM_SKIPS entry: %s" % k)
    for i in impls:
        skipped = i.key() in ENUM_SKIPS or OTHER_IMPLS.get(i.key(), "").startswith("skip:")
        if i.cfg and "feature" in i.cfg and not skipped:
            raise GenError("%s is behind #[cfg(%s)] (features are off in the verified build): must be listed as skipped" % (i.key(), i.cfg))
    plans = [build_plan(i, by_src_dst) for i in enum_impls if i.key() not in ENUM_SKIPS]
    # the variants a target type is known to have: union over every impl with that target
    all_targets = {}
    for p in plans:
        d = all_targets.setdefault(tkey(p.impl.dst), {})
        for k, v in p.targets.items():
            d.setdefault(k, v)
    frags = {}
    names = set()
    report = []
    by_key = {p.impl.key(): p for p in plans}
    grouped = {}
    for gname, keys in GROUPS.items():
        for k in keys:
            if k not in by_key:
                raise GenError("GROUPS[%s]: no such enum impl: %s" % (gname, k))
            if k in grouped:
                raise GenError("impl in two groups: %s" % k)
            grouped[k] = gname
        if len({by_key[k].impl.file for k in keys}) != 1:
            raise GenError("GROUPS[%s] spans several files" % gname)
    done = set()
    for p in plans:
        k = p.impl.key()
        if k in grouped:
            nm = grouped[k]
            if nm in done:
                continue
            done.add(nm)
            members = [by_key[x] for x in GROUPS[nm]]
        else:
            nm = harness_name(p.impl)
            members = [p]
        if nm in names:
            raise GenError("duplicate harness name %s" % nm)
        names.add(nm)
        buf = frags.setdefault(p.impl.file, [PRELUDE])
        emit_harness(members, all_targets, nm, buf)
        for mp in members:
            report.append((mp.impl, nm, len(mp.cases)))
    unused = sorted(set(EXCEPTIONS) - USED_EXCEPTIONS)
    if unused:
        raise GenError("unused EXCEPTIONS lines (remove them): %s" % ", ".join(unused))
    files = {}
    for f, buf in frags.items():
        files[os.path.join("append", "ffi", "dnp3-ffi", "src", f, FRAG_NAME)] = "".join(buf)
    skipped_enums = [i for i in enum_impls if i.key() in ENUM_SKIPS]
    return files, report, other, skipped_enums


def hand_harnesses_on_disk(out_root):
    names = set()
    for dirpath, _, filenames in os.walk(os.path.join(out_root, "append")):
        for f in filenames:
            if f.endswith(".rs") and f != FRAG_NAME:
                txt = open(os.path.join(dirpath, f)).read()
                names.update(re.findall(r"\bfn\s+(vk_c20_\w+)\s*\(", txt))
                names.update(re.findall(r"^\s*\w+!\(\s*(vk_c20_\w+)\s*,", txt, re.M))
    return names


def main():
    ap = argparse.ArgumentParser()
    ap.add_argument("--repo", default="/repo")
    ap.add_argument("--out", default=HERE)
    ap.add_argument("--check", action="store_true")
    ap.add_argument("--report", action="store_true")
    a = ap.parse_args()
    try:
        files, report, other, skipped_enums = generate(a.repo)
    except GenError as e:
        sys.stderr.write("gen_ffi: ERROR\n%s\n" % e)
        return 2
    hand = hand_harnesses_on_disk(a.out)
    missing_hand = sorted({v[5:] for v in OTHER_IMPLS.values() if v.startswith("hand:")} - hand)
    if a.report:
        print("enum conversion impls: %d in %d generated harnesses" % (len(report), len({r[1] for r in report})))
        for impl, nm, n in report:
            print("  %-34s:%-5d %-44s -> %-44s %3d cases  %s" % (impl.file, impl.line, impl.src, impl.dst, n, nm))
        print("other impls: %d" % len(other))
        for i in other:
            print("  %-34s:%-5d %-44s -> %-44s %s" % (i.file, i.line, i.src, i.dst, OTHER_IMPLS[i.key()]))
        print("enum impls skipped: %d" % len(skipped_enums))
        for i in skipped_enums:
            print("  %-34s:%-5d %-44s -> %-44s skip:%s" % (i.file, i.line, i.src, i.dst, ENUM_SKIPS[i.key()]))
        nh = sum(1 for i in other if OTHER_IMPLS[i.key()].startswith("hand:"))
        print("found %d impls: %d generated, %d hand-written, %d skipped" % (
            len(report) + len(other) + len(skipped_enums), len(report), nh, len(other) - nh + len(skipped_enums)))
        print("exceptions used: %d" % len(USED_EXCEPTIONS))
        if missing_hand:
            print("MISSING hand-written harnesses: %s" % ", ".join(missing_hand))
        return 0
    if a.check:
        bad = []
        for rel, txt in sorted(files.items()):
            p = os.path.join(a.out, rel)
            if not os.path.exists(p):
                bad.append("missing: " + rel)
            elif open(p).read() != txt:
                bad.append("differs: " + rel)
        for dirpath, _, filenames in os.walk(os.path.join(a.out, "append")):
            for f in filenames:
                rel = os.path.relpath(os.path.join(dirpath, f), a.out)
                if f == FRAG_NAME and rel not in files:
                    bad.append("stale: " + rel)
        for h in missing_hand:
            bad.append("hand-written harness not found on disk: " + h)
        if bad:
            sys.stderr.write("gen_ffi --check: generated fragments are NOT up to date with %s\n  %s\n" % (a.repo, "\n  ".join(bad)))
            return 2
        print("gen_ffi --check: %d fragments up to date (%d harnesses, %d impls)" % (len(files), len({r[1] for r in report}), len(report)))
        return 0
    for rel, txt in sorted(files.items()):
        p = os.path.join(a.out, rel)
        os.makedirs(os.path.dirname(p), exist_ok=True)
        open(p, "w").write(txt)
        print("wrote %s" % p)
    # remove stale generated fragments
    for dirpath, _, filenames in os.walk(os.path.join(a.out, "append")):
        for f in filenames:
            rel = os.path.relpath(os.path.join(dirpath, f), a.out)
            if f == FRAG_NAME and rel not in files:
                os.remove(os.path.join(a.out, rel))
                print("removed stale %s" % rel)
    print("%d harnesses for %d enum impls in %d fragments" % (len({r[1] for r in report}), len(report), len(files)))
    return 0


if __name__ == "__main__":
    sys.exit(main())
