#!/usr/bin/env python3
"""Regenerates the per-instance harness lists below the //@@INSTANCES@@ marker of the C03 fragments.
One harness per (operation, capacity, storage length L, free-stack length F): container lengths must be concrete for CBMC."""
import os, re, sys

ROOT = os.path.join(os.path.dirname(os.path.abspath(__file__)), "..", "..", "weave")
LIST = os.path.join(ROOT, "append/dnp3/src/outstation/database/details/event/list.rs/c03_list.rs")
BUF = os.path.join(ROOT, "append/dnp3/src/outstation/database/details/event/buffer.rs/c03_buffer.rs")
MARK = "//@@INSTANCES@@"
P = "outstation::database::details::event::"


def regen(path, text):
    s = open(path).read()
    i = s.index(MARK)
    open(path, "w").write(s[:i] + MARK + "\n" + text)


def pairs(cap):
    return [(l, f) for l in range(cap + 1) for f in range(l + 1)]


def list_instances():
    ops = [
        ("add", "add_contract", "list::VecList::add", "add appends at the tail under a fresh handle, earlier elements keep order/handle/data; a full list refuses and is unchanged; invariant restored"),
        ("remove_at", "remove_at_contract", "list::VecList::remove_at", "for every handle value: removes exactly the addressed element iff the slot is live and the version matches, order of the others unchanged, else nothing changes; invariant restored"),
        ("remove_first", "remove_first_contract", "list::VecList::remove_first,list::VecList::find_first", "for every predicate (symbolic truth table): removes exactly the oldest matching element and returns its data, None and unchanged iff none matches; invariant restored"),
        ("iter", "iter_contract", "list::VecList::iter,list::ListIterator::next,list::VecList::find_first,list::VecList::len,list::VecList::is_full", "iteration yields exactly the live elements oldest first with their handles; find_first returns the oldest match; nothing changes"),
    ]
    out = []
    meta = '    // @harness ids=C03 tier=%s kind=bounded bound="capacity=%d (storage length %d, free-stack length %d%s; all contents, links, versions symbolic under the invariant)" units=%s timeout=250 note="%s"'
    for cap in (3, 2):
        for (l, f) in pairs(cap):
            for short, fn, units, note in ops:
                # quick tier: capacity 3 with fully allocated storage (sizes 3,2,1,0); add also for every partially allocated storage
                tier = "quick" if cap == 3 and (l == 3 or short == "add") else "thorough"
                units_full = ",".join(P + u for u in units.split(","))
                name = "vk_c03_list_%s_c%d_l%d_f%d" % (short, cap, l, f)
                out.append(meta % (tier, cap, l, f, "", units_full, note))
                out.append("    list_harness!(%s, %s, %d, %d, %d, %d);" % (name, fn, l - f + 1, cap, l, f))
            for mask in range(1 << (l - f)):
                if bin(mask).count("1") >= 3:
                    continue  # three consecutive removals through symbolic links: CBMC does not finish (measured > 600 s)
                tier = "quick" if cap == 3 and l == 3 else "thorough"
                name = "vk_c03_list_remove_all_c%d_l%d_f%d_m%d" % (cap, l, f, mask)
                out.append(meta % (tier, cap, l, f, ", predicate answers = bits of %d" % mask, P + "list::VecList::remove_all",
                                   "the predicate is asked once per element oldest first; exactly the elements it accepts are removed, survivors keep order/handle/data; returns the number removed; invariant restored (all 2^size answer patterns enumerated)"))
                out.append("    list_harness!(%s, remove_all_contract, %d, %d, %d, %d, %d);" % (name, l - f + 1, cap, l, f, mask))
    return "\n".join(out) + "\n"


if __name__ == "__main__":
    regen(LIST, list_instances())
    if os.path.exists(BUF):
        import gen_buffer
        regen(BUF, gen_buffer.instances())
