"""instance list of the EventBuffer harnesses (imported by gen_instances.py)"""
P = "outstation::database::details::event::buffer::EventBuffer::"


def pairs(cap):
    return [(l, f) for l in range(cap + 1) for f in range(l + 1)]


OPS = [
    # short, contract, extra generic args, units, note
    ("insert_bin", "insert_contract", ["false"], "insert", "insert<BinaryInput> on ANY invariant state: max 0 => refused, nothing changes; else appended as newest, Unselected, with exactly the given index/class/value/flags/time; a record is discarded iff the type was at capacity, then exactly one of that type, reported (Overflow result, overflow flag); survivors keep order/data/state; invariant restored"),
    ("insert_ctr", "insert_contract", ["true"], "insert", "same contract for insert<Counter> (second enabled type)"),
    ("select_class", "select_contract", ["false"], "select_by_class,select", "select_by_class for every class set and limit: exactly the first min(limit,k) Unselected matching records become Selected (default variation), oldest first; returns that count; nothing else changes"),
    ("select_type", "select_contract", ["true"], "select_by_type,select_specific_variation,select_default_variation,select", "select_by_type<BinaryInput> for every variation choice and limit: exactly the first min(limit,k) Unselected records of the type become Selected with that variation; nothing else changes"),
    ("write", None, [], "write_events,selected_iter", "write_events: the encoder (contract stub, logged) is asked once per Selected record oldest first until it refuses; exactly the encoded prefix becomes Written; Ok(n) iff all encoded else Err(encoded); written counters follow (invariant); nothing else changes"),
    ("reset", "reset_contract", [], "reset,unwritten_classes", "reset: every record keeps its data and becomes Unselected, nothing is removed, written counters zero, every stored class announced again"),
    ("observers", "observers_contract", [], "unwritten_classes,is_overflown,buffer_state", "unwritten_classes: class bit set IFF a record of that class exists whose state is not Written (no underflow); buffer_state counts are the stored records"),
]

# quick tier = measured <= ~130 s each; everything else thorough
QUICK = {
    "insert_bin": {(1, 0): [(0, 0), (1, 0), (1, 1)], (0, 1): [(1, 0)], (2, 1): [(3, 0), (3, 1)]},
    "insert_ctr": {(2, 1): [(3, 0)], (1, 1): [(2, 0)]},
    "select_class": {(2, 1): [(3, 1)]},
    "select_type": {(1, 1): [(2, 0)]},
    "write": {(2, 1): [(3, 0), (3, 1)], (1, 1): [(2, 0)]},
    "reset": {(2, 1): [(3, 0), (3, 1), (3, 2), (3, 3)]},
    "observers": {(2, 1): [(3, 0), (3, 1), (3, 2), (3, 3)]},
}


def meta(tier, ma, mb, l, f, extra, units, note, stubs=False, timeout=300):
    return ('    // @harness ids=C03,C13 tier=%s kind=bounded bound="capacity<=3: max_binary=%d max_counter=%d others 0; canonical list layout with storage length %d, free-stack length %d%s; record contents, states, versions symbolic under the invariant" units=%s timeout=%d%s note="%s"'
            % (tier, ma, mb, l, f, extra, ",".join(P + u for u in units.split(",")), timeout, " stubs=1" if stubs else "", note))


def instances():
    out = []
    configs = [(2, 1), (1, 1), (1, 0), (0, 1)]
    for (ma, mb) in configs:
        cap = ma + mb
        out.append('    // @harness ids=C03,C13,C01 tier=quick kind=proof units=%snew timeout=120 note="a new store (max_binary=%d, max_counter=%d) satisfies the invariant, is empty, announces nothing (base case)"' % (P, ma, mb))
        out.append("    buf_harness!(vk_c03_buf_new_a%d_b%d, new_contract, 1, %d, %d, %d);" % (ma, mb, ma, mb, cap))
        for (l, f) in pairs(cap):
            size = l - f
            for short, contract, extra, units, note in OPS:
                if short == "select_type" and ma == 0:
                    continue
                if short == "insert_ctr" and mb == 0 and (ma, mb) != (1, 0):
                    continue
                quick = (l, f) in QUICK.get(short, {}).get((ma, mb), [])
                tier = "quick" if quick else "thorough"
                timeout = 300 if quick else 900
                name = "vk_c03_buf_%s_a%d_b%d_l%d_f%d" % (short, ma, mb, l, f)
                g = ["1", str(ma), str(mb), str(cap), str(l), str(f)] + extra
                if short == "write":
                    out.append(meta(tier, ma, mb, l, f, "", units, note, stubs=True, timeout=timeout))
                    out.append("    buf_write_harness!(%s, %d, %s);" % (name, size + 1, ", ".join(g)))
                else:
                    out.append(meta(tier, ma, mb, l, f, "", units, note, timeout=timeout))
                    out.append("    buf_harness!(%s, %s, %d, %s);" % (name, contract, size + 1, ", ".join(g)))
            # clear_written: only stores holding at most ONE record are within the solver's reach (two guarded removals of
            # 112-byte entries exhaust CBMC's memory, measured for every Written pattern); larger stores: see the list-level
            # remove_all contract + vk_c03_counters_follow_record + vk_c13_observers_all_counters.
            if size <= 1:
                note = "clear_written: exactly the Written records are released, each reported to the application exactly once oldest first; every other record survives with data/variation/state; written counters zero; overflow flag cleared iff no type left at capacity; invariant restored"
                quick = (ma, mb) in ((1, 0), (2, 1)) and l == cap
                out.append(meta("quick" if quick else "thorough", ma, mb, l, f, "; at most one stored record", "clear_written,is_any_full,is_full", note))
                out.append("    buf_harness!(vk_c03_buf_clear_a%d_b%d_l%d_f%d, clear_contract, %d, 1, %d, %d, %d, %d, %d, 0);" % (ma, mb, l, f, size + 1, ma, mb, cap, l, f))
    return "\n".join(out) + "\n"
