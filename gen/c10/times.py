#!/usr/bin/env python3
"""times.py <scratch dir>: per-harness verdict / CBMC seconds from a kept kani-dnp3.log"""
import sys
sys.path.insert(0, '/verif/bin')
import vlib
res = vlib.parse_kani_output(open(sys.argv[1] + '/kani-dnp3.log').read())
tot = 0.0
for k, v in sorted(res.items(), key=lambda kv: kv[1]['time'] or 0):
    tot += v['time'] or 0
    print("%-60s %-10s %6.1fs covers %d/%d checks %d %s" % (k.split('::')[-1], v['verdict'], v['time'] or -1, v['covers_sat'], v['covers_total'], v['total'], "; ".join(c['desc'][:90] for c in v['failed_checks'])))
print("total CBMC seconds: %.1f over %d harnesses" % (tot, len(res)))
