// ---------------------------------------------------------------- L-C17: closed form of the retry back-off
// backoff_next is the spec function the Kani harnesses vk_c17_backoff_* prove ExponentialBackOff::on_failure equal to.

/// delay of the k-th consecutive failure obtained by ITERATING the one-step rule
pub open spec fn backoff_iter(min: u64, max: u64, k: nat) -> u64
    decreases k
{
    if k <= 1 { backoff_next(min, max, false, 0u64) } else { backoff_next(min, max, true, backoff_iter(min, max, (k - 1) as nat)) }
}

proof fn lemma_shift_step(m: u128, j: u32)
    requires m < 0x1_0000_0000_0000_0000u128, j < 63
    ensures ((m << j) * 2) as u128 == m << ((j + 1) as u32), (m << ((j + 1) as u32)) < 0x8000_0000_0000_0000_0000_0000_0000_0000u128
{
    assert(m < 0x1_0000_0000_0000_0000u128 && j < 63 ==> (((m << j) * 2) as u128 == m << ((j + 1) as u32)) && ((m << ((j + 1) as u32)) < 0x8000_0000_0000_0000_0000_0000_0000_0000u128)) by (bit_vector);
}

proof fn lemma_shift_monotone(m: u128, j: u32)
    requires m < 0x1_0000_0000_0000_0000u128, j < 63
    ensures (m << j) <= (m << ((j + 1) as u32))
{
    assert(m < 0x1_0000_0000_0000_0000u128 && j < 63 ==> (m << j) <= (m << ((j + 1) as u32))) by (bit_vector);
}

/// "delays start at the configured minimum, double each time and never exceed the maximum":
/// the k-th consecutive failure is delayed min(min * 2^(k-1), max), for every k in 1..=64 and every min <= max
proof fn lemma_backoff_closed_form(min: u64, max: u64, k: nat)
    requires min <= max, 1 <= k <= 64
    ensures backoff_iter(min, max, k) == backoff_kth(min, max, k as u32),
            min <= backoff_iter(min, max, k) <= max
    decreases k
{
    if k == 1 {
        assert(((min as u128) << 0u32) == min as u128) by (bit_vector);
    } else {
        lemma_backoff_closed_form(min, max, (k - 1) as nat);
        let j = (k - 2) as u32;
        lemma_shift_step(min as u128, j);
        lemma_shift_monotone(min as u128, j);
    }
}
