// ---------------------------------------------------------------- L-C18: accuracy arithmetic of the two procedures
// Integers are milliseconds on ONE ideal time axis; `f`/`b` are the forward/backward one-way delays, `p` the
// processing delay the outstation honestly reports, `w` the time between the two steps. The mapping of the library's
// clock readings to these instants is an ASSUMPTION (listed in the evidence); the formulas for what the outstation
// hands to the application are the proved contracts:
//   LAN     : vk_c18_write_at_last_recorded_time   written = value + (now - recorded)
//   non-LAN : master computes (rtt - p) / 2 inline in an &mut Association handler (NOT verified by Kani: listed open)

/// LAN procedure: master transmits RECORD_CURRENT_TIME at master time t0 (it arrives f later and the outstation records
/// that instant), later writes `t0`; the application is handed t0 + (now - recorded). True master time at that moment is
/// t0 + f + (now - recorded): the error is exactly the one-way delay f.
proof fn lemma_lan_error_is_forward_delay(t0: int, f: int, w: int)
    requires f >= 0, w >= 0
    ensures ({
        let recorded = t0 + f;          // ideal-axis instant at which the outstation recorded
        let now = recorded + w;         // when the WRITE is processed
        let handed = t0 + (now - recorded);
        let truth = now;                // the master clock reads `now` at that ideal instant
        truth - handed == f && 0 <= truth - handed <= f
    })
{
}

/// non-LAN procedure: DELAY_MEASURE sent at m1, reply (carrying p) received at m2 = m1 + f + p + b; the master writes
/// m3 + (rtt - p)/2 at m3; it takes effect f later. Error = f - floor((f + b)/2), i.e. |error| <= |f - b|/2 + 1 (integer
/// division), zero when f == b. If the outstation reports p > rtt the master must fail (checked: open obligation).
proof fn lemma_non_lan_error_is_half_asymmetry(m1: int, m3: int, f: int, b: int, p: int)
    requires f >= 0, b >= 0, p >= 0
    ensures ({
        let m2 = m1 + f + p + b;
        let rtt = m2 - m1;
        let d = (rtt - p) / 2;
        let written = m3 + d;
        let truth = m3 + f;
        let err = truth - written;
        rtt >= p && (f == b ==> err == 0) && 2 * err <= (f - b) + 1 && 2 * err >= (f - b) - 1
            && (f >= b ==> 0 <= err)
    })
{
}
