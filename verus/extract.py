#!/usr/bin/env python3
"""Mechanical extraction of real functions into a single Verus file.

extract(src_root, unit) copies the text of named items byte for byte from the scratch copy of /repo, splices
contract clauses (requires/ensures after the signature, invariants after a `for ... in ...` header, proof blocks at
marked statement positions) and wraps everything with the unit's lemma text in `verus!{}`.
Afterwards `strip()` removes exactly the spliced text again and the result must equal the repo text, otherwise the
extraction is rejected (exit 2 = undecided, never an alarm)."""
import re, os, sys, json, subprocess, time, hashlib

class ExtractError(Exception):
    pass

def find_item(src, pattern):
    """Return the full text of the item starting at the unique match of `pattern` up to its balanced closing brace
    (or `;` for consts)."""
    ms = list(re.finditer(pattern, src, re.M))
    if len(ms) != 1:
        raise ExtractError("lost anchor: %r matched %d times" % (pattern, len(ms)))
    start = ms[0].start()
    i = start
    # const item: ends at first ';' at depth 0
    depth = 0
    while i < len(src):
        c = src[i]
        if c in "{[(":
            depth += 1
        elif c in "}])":
            depth -= 1
            if depth == 0 and c == "}":
                return src[start:i + 1]
        elif c == ";" and depth == 0:
            return src[start:i + 1]
        i += 1
    raise ExtractError("unbalanced item for %r" % pattern)

def splice_fn(text, sig_clause=None, ret_name=None, loop_invariants=None, proof_blocks=None):
    """text: verbatim fn. Returns (spliced, list of (marker_begin, marker_end) is not needed: we use sentinels)."""
    out = text
    B, E = "/*@verif-splice*/", "/*@end*/"
    # name the return value: `-> T {`  =>  `-> (r: T) {`   (spliced, removed by strip)
    if ret_name:
        m = re.search(r"->\s*([A-Za-z0-9_<>\[\]&' ]+?)\s*\{", out)
        if not m:
            raise ExtractError("no return type to name")
        out = out[:m.start()] + "-> " + B + "(" + ret_name + ": " + E + m.group(1) + B + ")" + E + " " + B + (sig_clause or "") + E + "{" + out[m.end():]
    elif sig_clause:
        i = out.index("{")
        out = out[:i] + B + sig_clause + E + out[i:]
    # loop invariants: k-th `for <pat> in <expr> {`
    if loop_invariants:
        for ordinal, (itname, inv) in sorted(loop_invariants.items(), reverse=True):
            ms = list(re.finditer(r"for\s+(\w+)\s+in\s+([^{]+?)\s*\{", out))
            if ordinal >= len(ms):
                raise ExtractError("loop ordinal %d not found" % ordinal)
            m = ms[ordinal]
            out = out[:m.start()] + "for " + m.group(1) + " in " + B + itname + ": " + E + m.group(2) + " " + B + inv + E + "{" + out[m.end():]
    if proof_blocks:
        for anchor, block in proof_blocks:
            if out.count(anchor) != 1:
                raise ExtractError("proof anchor %r matched %d times" % (anchor, out.count(anchor)))
            out = out.replace(anchor, B + block + E + anchor)
    return out

def strip(spliced):
    s = re.sub(r"/\*@verif-splice\*/.*?/\*@end\*/", "", spliced, flags=re.S)
    return s

def normalise(s):
    return re.sub(r"\s+", " ", s).strip()

def run_verus(path, timeout=600):
    t0 = time.time()
    p = subprocess.run(["verus", path, "--output-json", "--time"], stdout=subprocess.PIPE, stderr=subprocess.PIPE, text=True, timeout=timeout)
    wall = time.time() - t0
    res = {"exit": p.returncode, "wall_s": round(wall, 2), "stderr_tail": p.stderr[-3000:]}
    try:
        j = json.loads(p.stdout)
        vr = j.get("verification-results", {})
        res["verified"] = vr.get("verified", 0)
        res["errors"] = vr.get("errors", 0)
        res["smt_s"] = round(j.get("times-ms", {}).get("smt", {}).get("total", 0) / 1000.0, 3) if isinstance(j.get("times-ms", {}).get("smt"), dict) else None
        res["json"] = {k: j[k] for k in j if k != "times-ms"}
    except Exception:
        res["verified"] = 0
        res["errors"] = -1
        res["stdout_tail"] = p.stdout[-2000:]
    return res
