#!/usr/bin/env python3
"""Mechanical translation of /verif/specs/*.rs (plain Rust, compiled into the Kani build as crate::verif_spec) into
Verus spec functions, so that the lemma layer talks about the SAME text the Kani postconditions use.

Accepted subset (anything else -> TranslateError, the Verus unit is then 'undecided', never an alarm):
  items : comments, `#[derive(..)] pub struct S { pub f: T, .. }`, `pub fn f(params) -> T { body }`
  body  : `let [mut-less] pat (: T)? = expr;`   `if cond { stmts }` (falling through or returning)
          `if cond { .. } else { .. }`           `return expr;`          final expression
Translation: `pub fn` -> `pub open spec fn`; statement sequences with early `return` become nested if/else expressions
(the continuation is duplicated into the fall-through branch). No expression is rewritten.
"""
import re, sys


class TranslateError(Exception):
    pass


def strip_comments(s):
    out, i = [], 0
    while i < len(s):
        if s.startswith("//", i):
            j = s.find("\n", i)
            i = len(s) if j < 0 else j
        elif s.startswith("/*", i):
            j = s.find("*/", i)
            i = len(s) if j < 0 else j + 2
        else:
            out.append(s[i]); i += 1
    return "".join(out)


def match_brace(s, i, open_c="{", close_c="}"):
    assert s[i] == open_c
    d = 0
    while i < len(s):
        if s[i] == open_c: d += 1
        elif s[i] == close_c:
            d -= 1
            if d == 0: return i
        i += 1
    raise TranslateError("unbalanced braces")


def split_stmts(body):
    """Split a block body (text between braces) into statements: ('let', text) ('return', expr) ('if', cond, then, else|None) ('expr', text)"""
    stmts, i, n = [], 0, len(body)
    while i < n:
        while i < n and body[i].isspace(): i += 1
        if i >= n: break
        if re.match(r"let\b", body[i:]):
            j = find_semicolon(body, i)
            stmts.append(("let", body[i:j + 1].strip())); i = j + 1
        elif re.match(r"return\b", body[i:]):
            j = find_semicolon(body, i)
            stmts.append(("return", body[i + 6:j].strip())); i = j + 1
        elif re.match(r"if\b", body[i:]):
            st, i = parse_if(body, i)
            stmts.append(st)
            # optional trailing semicolon after an if-statement
            k = i
            while k < n and body[k].isspace(): k += 1
            if k < n and body[k] == ";": i = k + 1
        else:
            # final expression (or expression statement, which we do not accept)
            j = i; depth = 0
            while j < n:
                c = body[j]
                if c in "({[": depth += 1
                elif c in ")}]": depth -= 1
                elif c == ";" and depth == 0:
                    raise TranslateError("expression statement not supported: %r" % body[i:j + 1][:80])
                j += 1
            stmts.append(("expr", body[i:].strip())); i = n
    return stmts


def find_semicolon(s, i):
    depth = 0
    while i < len(s):
        c = s[i]
        if c in "({[": depth += 1
        elif c in ")}]": depth -= 1
        elif c == ";" and depth == 0: return i
        i += 1
    raise TranslateError("missing ';'")


def parse_if(s, i):
    assert s.startswith("if", i)
    # condition runs up to the first '{' at paren depth 0
    j = i + 2; depth = 0
    while j < len(s):
        c = s[j]
        if c in "([": depth += 1
        elif c in ")]": depth -= 1
        elif c == "{" and depth == 0: break
        j += 1
    cond = s[i + 2:j].strip()
    e = match_brace(s, j)
    then = s[j + 1:e]
    k = e + 1
    while k < len(s) and s[k].isspace(): k += 1
    if s.startswith("else", k):
        k += 4
        while k < len(s) and s[k].isspace(): k += 1
        if s.startswith("if", k):
            inner, k2 = parse_if(s, k)
            return ("if", cond, then, [inner]), k2
        e2 = match_brace(s, k)
        return ("if", cond, then, s[k + 1:e2]), e2 + 1
    return ("if", cond, then, None), e + 1


def always_returns(stmts):
    if not stmts: return False
    last = stmts[-1]
    if last[0] == "return" or last[0] == "expr": return True
    if last[0] == "if" and last[3] is not None:
        els = last[3] if isinstance(last[3], list) else split_stmts(last[3])
        return always_returns(split_stmts(last[2])) and always_returns(els)
    return False


def to_expr(stmts, ind):
    pad = "    " * ind
    if not stmts:
        raise TranslateError("block without value")
    head, rest = stmts[0], stmts[1:]
    if head[0] == "let":
        return pad + head[1] + "\n" + to_expr(rest, ind)
    if head[0] in ("return", "expr"):
        return pad + head[1]
    if head[0] == "if":
        then = split_stmts(head[2])
        if head[3] is None:
            els = []
        else:
            els = head[3] if isinstance(head[3], list) else split_stmts(head[3])
        then_full = then if always_returns(then) else then + rest
        els_full = els if (els and always_returns(els)) else els + rest
        return (pad + "if " + head[1] + " {\n" + to_expr(then_full, ind + 1) + "\n" + pad + "} else {\n"
                + to_expr(els_full, ind + 1) + "\n" + pad + "}")
    raise TranslateError("unknown statement")


def translate(src):
    s = strip_comments(src)
    out, i = [], 0
    while i < len(s):
        m = re.compile(r"\s*((?:#\[[^\]]*\]\s*)*)pub (struct|fn)\s+(\w+)").match(s, i)
        if not m:
            if s[i:].strip() == "": break
            raise TranslateError("unsupported item near: %r" % s[i:i + 60])
        kind, name = m.group(2), m.group(3)
        j = s.index("{", m.end())
        e = match_brace(s, j)
        if kind == "struct":
            out.append("pub struct %s %s\n" % (name, s[j:e + 1]))
        else:
            sig = s[m.end():j].strip()
            body = s[j + 1:e]
            expr = to_expr(split_stmts(body), 1)
            out.append("pub open spec fn %s%s {\n%s\n}\n" % (name, sig, expr))
        i = e + 1
    return "\n".join(out)


if __name__ == "__main__":
    print(translate(open(sys.argv[1]).read()))
