// ---------------------------------------------------------------- L-C08: lemma layer over spec::assembler_step
// (assembler_step is the function the Kani harnesses vk_c08_asm_* prove the real Assembler::assemble equal to,
//  one step from every well-formed state; translated mechanically from /verif/specs/transport.rs)

/// payload length of segment k of a fragment of `total` bytes cut into 249-byte segments
pub open spec fn seg_len(total: int, k: int) -> int {
    if total - 249 * k >= 249 { 249 } else { total - 249 * k }
}
/// number of segments of a fragment of `total` >= 1 bytes
pub open spec fn seg_count(total: int) -> int { (total + 248) / 249 }

/// sequence number of segment k: seq0 and then the standard's successor function
pub open spec fn seg_seq(seq0: u8, k: nat) -> u8
    decreases k
{
    if k == 0 { (seq0 & 0x3Fu8) as u8 } else { tp_seq_next(seg_seq(seq0, (k - 1) as nat)) }
}

/// receiver state after the first k segments of the standard segmentation of a `total`-byte fragment
/// (FIR on the first, FIN on the last, consecutive sequence numbers, one source, not broadcast), from ANY state s
pub open spec fn after(s: AsmState, cap: usize, total: int, seq0: u8, k: nat) -> AsmState
    decreases k
{
    if k == 0 { s } else {
        let prev = after(s, cap, total, seq0, (k - 1) as nat);
        let i = (k - 1) as int;
        assembler_step(prev, cap, i == 0, i == seg_count(total) - 1, seg_seq(seq0, i as nat), true, false, seg_len(total, i) as usize).next
    }
}

proof fn lemma_seq_masked(seq0: u8, k: nat)
    ensures seg_seq(seq0, k) & 0x3Fu8 == seg_seq(seq0, k), seg_seq(seq0, k) < 64
    decreases k
{
    if k == 0 {
        let x = seq0;
        assert(((x & 0x3Fu8) as u8) & 0x3Fu8 == (x & 0x3Fu8) as u8) by (bit_vector);
        assert(((x & 0x3Fu8) as u8) < 64) by (bit_vector);
    } else {
        lemma_seq_masked(seq0, (k - 1) as nat);
        let p = seg_seq(seq0, (k - 1) as nat);
        let r = tp_seq_next(p);
        assert(r < 64);
        assert(r < 64 ==> r & 0x3Fu8 == r) by (bit_vector);
    }
}

/// Every fragment of 1..=cap bytes, segmented the standard way, is delivered whole whatever state the receiver was in:
/// after segment k (not the last) the receiver holds exactly the first 249*k bytes in progress, after the last one a
/// complete fragment of `total` bytes with the next frame id. (The bytes themselves: Kani buffer postconditions.)
proof fn lemma_valid_run_is_delivered(s: AsmState, cap: usize, total: int, seq0: u8, k: nat)
    requires 1 <= total <= cap, 1 <= k <= seg_count(total), cap <= 65535,
    ensures
        k < seg_count(total) ==> after(s, cap, total, seq0, k) == (AsmState { kind: 1u8, len: (249 * k) as usize, seq: seg_seq(seq0, (k - 1) as nat), frame_id: s.frame_id }),
        k == seg_count(total) ==> after(s, cap, total, seq0, k).kind == 2u8 && after(s, cap, total, seq0, k).len == total
            && after(s, cap, total, seq0, k).frame_id as int == (s.frame_id as int + 1) % 4294967296,
    decreases k
{
    let n = seg_count(total);
    let i = (k - 1) as int;
    lemma_seq_masked(seq0, i as nat);
    if k == 1 {
        assert(after(s, cap, total, seq0, 0) == s);
    } else {
        lemma_valid_run_is_delivered(s, cap, total, seq0, (k - 1) as nat);
        lemma_seq_masked(seq0, (i - 1) as nat);
    }
}
