// ---------------------------------------------------------------- spec functions (ghost)
// `step` is the loop body of crc_increment as written; `fold` its iteration. That `step` IS the IEEE 1815 polynomial
// step is the Kani obligation vk_c06_crc_increment_one_byte / vk_c06_crc_table_is_polynomial on the real code.
spec fn step(acc: u16, b: u8) -> u16 {
    CRC_TABLE[(((acc as u8) ^ b) as usize) as int] ^ (acc >> 8)
}
spec fn fold(acc: u16, s: Seq<u8>) -> u16
    decreases s.len()
{
    if s.len() == 0 { acc } else { step(fold(acc, s.drop_last()), s.last()) }
}

spec fn xor_seq(s: Seq<u8>, t: Seq<u8>) -> Seq<u8>
    recommends s.len() == t.len()
{
    Seq::new(s.len(), |i: int| s[i] ^ t[i])
}

/// ASSUMED CONTRACT (discharged on every run by Kani harness vk_c06_crc_step_linear on the real crc_increment,
/// all 2^48 inputs): the table step is GF(2)-linear.
#[verifier::external_body]
proof fn axiom_step_linear(a: u16, a2: u16, b: u8, b2: u8)
    ensures step((a ^ a2) as u16, (b ^ b2) as u8) == step(a, b) ^ step(a2, b2)
{
}

/// L-C06a: the CRC register is linear in (initial value, data): fold(a^a', s^s') == fold(a,s) ^ fold(a',s')
proof fn lemma_fold_linear(a: u16, a2: u16, s: Seq<u8>, t: Seq<u8>)
    requires s.len() == t.len()
    ensures fold((a ^ a2) as u16, xor_seq(s, t)) == fold(a, s) ^ fold(a2, t)
    decreases s.len()
{
    if s.len() == 0 {
        assert(xor_seq(s, t).len() == 0);
    } else {
        let x = xor_seq(s, t);
        assert(x.drop_last() =~= xor_seq(s.drop_last(), t.drop_last()));
        assert(x.last() == s.last() ^ t.last());
        lemma_fold_linear(a, a2, s.drop_last(), t.drop_last());
        axiom_step_linear(fold(a, s.drop_last()), fold(a2, t.drop_last()), s.last(), t.last());
    }
}

/// Corollary used by C06: a block (data ++ LE crc) in which data was XOR-ed with error pattern `e` and the CRC field
/// with `ec` passes the check  crc' == !fold(init, data')  IFF  fold(0, e) == ec  -- independent of the data and of the
/// initial register value (0 for body blocks, CRC_OF_0564 for the header).
proof fn lemma_acceptance_depends_only_on_error(init: u16, data: Seq<u8>, e: Seq<u8>, ec: u16)
    requires data.len() == e.len()
    ensures ((!fold(init, data)) ^ ec == !fold(init, xor_seq(data, e))) <==> (fold(0, e) == ec)
{
    lemma_fold_linear(init, 0, data, e);
    let x = fold(init, data);
    let y = fold(0, e);
    assert((init ^ 0u16) as u16 == init) by (bit_vector);
    assert(((!x) ^ ec == !(x ^ y)) <==> (y == ec)) by (bit_vector);
}

/// The syndrome of a sum of error patterns is the XOR of their syndromes (used with single-bit patterns: Kani
/// harness vk_c06_crc_weight3_syndromes evaluates the single-bit syndromes with the real code and checks that no
/// combination of up to three bit errors in data and CRC field satisfies fold(0, e) == ec).
proof fn lemma_syndrome_additive(e1: Seq<u8>, e2: Seq<u8>)
    requires e1.len() == e2.len()
    ensures fold(0, xor_seq(e1, e2)) == fold(0, e1) ^ fold(0, e2)
{
    lemma_fold_linear(0, 0, e1, e2);
    assert((0u16 ^ 0u16) as u16 == 0u16) by (bit_vector);
}
