/// Test generated for harness `app::measurement::verif_kani_c10_measure::vk_c10_nan_to_i16_analog_input` 
///
/// Check for `assertion`: ""C10/D4: NaN sent through an integer variation must be flagged OVER_RANGE (other flags untouched)""

#[test]
fn kani_concrete_playback_vk_c10_nan_to_i16_analog_input_5309801977160643813() {
    let concrete_vals: Vec<Vec<u8>> = vec![
        // 9221120237041090560ul
        vec![0, 0, 0, 0, 0, 0, 248, 127],
        // 0
        vec![0],
        // 0
        vec![0],
        // 0ul
        vec![0, 0, 0, 0, 0, 0, 0, 0],
    ];
    kani::concrete_playback_run(concrete_vals, vk_c10_nan_to_i16_analog_input);
}
