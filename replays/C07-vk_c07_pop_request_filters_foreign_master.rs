/// Test generated for harness `transport::reader::verif_kani_c07_pop_request::vk_c07_pop_request_filters_foreign_master` 
///
/// Check for `assertion`: "assertion failed: !required || from.link.raw_value() == m"
///
/// # Warning
///
/// Concrete playback tests combined with stubs or contracts is highly
/// experimental, and subject to change.
///
/// The original harness has stubs which are not applied to this test.
/// This may cause a mismatch of non-deterministic values if the stub
/// creates any non-deterministic value.
/// The execution path may also differ, which can be used to refine the stub
/// logic.

#[test]
fn kani_concrete_playback_vk_c07_pop_request_filters_foreign_master_4709009482520887619() {
    let concrete_vals: Vec<Vec<u8>> = vec![
        // 191
        vec![191],
        // 255
        vec![255],
        // 255
        vec![255],
        // 255
        vec![255],
        // 1
        vec![1],
        // 255
        vec![255],
        // 255
        vec![255],
        // 1
        vec![1],
        // 32767
        vec![255, 127],
        // 49151
        vec![255, 191],
        // 255
        vec![255],
        // 4294967295
        vec![255, 255, 255, 255],
        // 7ul
        vec![7, 0, 0, 0, 0, 0, 0, 0],
        // 1
        vec![1],
    ];
    kani::concrete_playback_run(concrete_vals, vk_c07_pop_request_filters_foreign_master);
}
