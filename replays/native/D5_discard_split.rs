// Native demonstration of finding D5 (C06): paste into dnp3/src/link/parser.rs and run
//   cargo test --offline -p dnp3 --lib d5_demo
// Fails on the tree before the "fix: link parser discard mode ..." commit, passes after it.
#[cfg(test)]
mod d5_demo {
    use super::*;
    #[test]
    fn discard_mode_finds_frame_after_noise_split_across_reads() {
        // noise "05 64" followed by a valid header-only frame
        let stream: [u8; 12] = [0x05, 0x64, 0x05, 0x64, 0x05, 0xC0, 0x01, 0x00, 0x00, 0x04, 0xE9, 0x21];
        for cut in 2..12 {
            let mut p = Parser::new(LinkErrorMode::Discard);
            let mut payload = FramePayload::new();
            let mut c1 = ReadCursor::new(&stream[..cut]);
            let r1 = p.parse(&mut c1, &mut payload).unwrap();
            assert!(r1.is_none());
            let consumed = c1.position();
            let mut c2 = ReadCursor::new(&stream[consumed..]);
            let r2 = p.parse(&mut c2, &mut payload).unwrap();
            assert!(r2.is_some(), "frame lost when the stream is cut at {cut}");
        }
    }
}
