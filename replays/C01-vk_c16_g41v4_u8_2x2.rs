/// Test generated for harness `master::request::verif_kani_c16_compare::vk_c16_g41v4_u8_2x2` 
///
/// Check for `assertion`: ""C16 echo: Ok only for an octet-identical echo with status SUCCESS""

#[test]
fn kani_concrete_playback_vk_c16_g41v4_u8_2x2_1453889603630118930() {
    let concrete_vals: Vec<Vec<u8>> = vec![
        // 18442240474082181120ul
        vec![0, 0, 0, 0, 0, 0, 240, 255],
        // 0
        vec![0],
        // 255
        vec![255],
        // 0ul
        vec![0, 0, 0, 0, 0, 0, 0, 0],
        // 0
        vec![0],
        // 252
        vec![252],
        // 255
        vec![255],
        // 0
        vec![0],
        // 0
        vec![0],
        // 0
        vec![0],
        // 0
        vec![0],
        // 0
        vec![0],
        // 0
        vec![0],
        // 240
        vec![240],
        // 255
        vec![255],
        // 0
        vec![0],
        // 252
        vec![252],
        // 0
        vec![0],
        // 0
        vec![0],
        // 0
        vec![0],
        // 0
        vec![0],
        // 0
        vec![0],
        // 0
        vec![0],
        // 0
        vec![0],
        // 128
        vec![128],
        // 0
        vec![0],
    ];
    kani::concrete_playback_run(concrete_vals, vk_c16_g41v4_u8_2x2);
}
