/// Test generated for harness `app::format::write::verif_kani_c09_write_d8::vk_c09_write_prefixed_count_limit` 
///
/// Check for `assertion`: "attempt to add with overflow"

#[test]
fn kani_concrete_playback_vk_c09_write_prefixed_count_limit_2256387162640511472() {
    let concrete_vals: Vec<Vec<u8>> = vec![
        // 0
        vec![0, 0],
        // 0
        vec![0],
    ];
    kani::concrete_playback_run(concrete_vals, vk_c09_write_prefixed_count_limit);
}
