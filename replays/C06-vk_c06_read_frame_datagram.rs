/// Test generated for harness `link::reader::verif_kani_c06_reader::vk_c06_read_frame_datagram` 
///
/// Check for `assertion`: "assertion failed: unsafe { *ptr } == stream[origin + cons]"
///
/// # Warning
///
/// Concrete playback tests combined with stubs or contracts is highly
/// experimental, and subject to change.
///
/// The original harness has stubs which are not applied to this test.
/// This may cause a mismatch of non-deterministic values if the stub
/// creates any non-deterministic value.
/// The execution path may also differ, which can be used to refine the stub
/// logic.

#[test]
fn kani_concrete_playback_vk_c06_read_frame_datagram_14576269678194868784() {
    let concrete_vals: Vec<Vec<u8>> = vec![
        // 0
        vec![0],
        // 1
        vec![1],
        // 0
        vec![0],
        // 0
        vec![0],
        // 0
        vec![0],
        // 0
        vec![0],
        // 0
        vec![0],
        // 0
        vec![0],
        // 0
        vec![0],
        // 0
        vec![0],
        // 0
        vec![0],
        // 0
        vec![0],
        // 0
        vec![0],
        // 0
        vec![0],
        // 0
        vec![0],
        // 0
        vec![0],
        // 0
        vec![0],
        // 0
        vec![0],
        // 0
        vec![0],
        // 0
        vec![0],
        // 0
        vec![0],
        // 0
        vec![0],
        // 0
        vec![0],
        // 0
        vec![0],
        // 0
        vec![0],
        // 0
        vec![0],
        // 0
        vec![0],
        // 0
        vec![0],
        // 0
        vec![0],
        // 0
        vec![0],
        // 0
        vec![0],
        // 0
        vec![0],
        // 0
        vec![0],
        // 0
        vec![0],
        // 0
        vec![0],
        // 0
        vec![0],
        // 0
        vec![0],
        // 0
        vec![0],
        // 0
        vec![0],
        // 0
        vec![0],
        // 0
        vec![0],
        // 0
        vec![0],
        // 0
        vec![0],
        // 0
        vec![0],
        // 0
        vec![0],
        // 0
        vec![0],
        // 0
        vec![0],
        // 0
        vec![0],
        // 0
        vec![0],
        // 0
        vec![0],
        // 0
        vec![0],
        // 0
        vec![0],
        // 0
        vec![0],
        // 0
        vec![0],
        // 0
        vec![0],
        // 0
        vec![0],
        // 0
        vec![0],
        // 0
        vec![0],
        // 0
        vec![0],
        // 0
        vec![0],
        // 0
        vec![0],
        // 0
        vec![0],
        // 0
        vec![0],
        // 0
        vec![0],
        // 0
        vec![0],
        // 5ul
        vec![5, 0, 0, 0, 0, 0, 0, 0],
        // 0
        vec![0],
        // 2
        vec![2],
        // 0ul
        vec![0, 0, 0, 0, 0, 0, 0, 0],
        // 1
        vec![1],
        // 0
        vec![0],
        // 63
        vec![63],
        // 65528
        vec![248, 255],
        // 65532
        vec![252, 255],
    ];
    kani::concrete_playback_run(concrete_vals, vk_c06_read_frame_datagram);
}
