/// Test generated for harness `link::parser::verif_kani_c06_parser::vk_c06_parse_discard_loop` 
///
/// Check for `assertion`: "assertion failed: pos == ppos"
///
/// # Warning
///
/// Concrete playback tests combined with stubs or contracts is highly
/// experimental, and subject to change.
///
/// The original harness has stubs which are not applied to this test.
/// This may cause a mismatch of non-deterministic values if the stub
/// creates any non-deterministic value.
/// The execution path may also differ, which can be used to refine the stub
/// logic.

#[test]
fn kani_concrete_playback_vk_c06_parse_discard_loop_18180948446987021996() {
    let concrete_vals: Vec<Vec<u8>> = vec![
        // 255
        vec![255],
        // 255
        vec![255],
        // 255
        vec![255],
        // 255
        vec![255],
        // 1
        vec![1],
        // 4ul
        vec![4, 0, 0, 0, 0, 0, 0, 0],
        // 255
        vec![255],
        // 3
        vec![3],
        // 3ul
        vec![3, 0, 0, 0, 0, 0, 0, 0],
        // 0
        vec![0],
        // 0
        vec![0],
    ];
    kani::concrete_playback_run(concrete_vals, vk_c06_parse_discard_loop);
}
