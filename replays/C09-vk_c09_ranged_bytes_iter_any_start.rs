/// Test generated for harness `app::parse::bytes::verif_kani_c09_bytes::vk_c09_ranged_bytes_iter_any_start` 
///
/// Check for `assertion`: "attempt to add with overflow"

#[test]
fn kani_concrete_playback_vk_c09_ranged_bytes_iter_any_start_7997156750416321088() {
    let concrete_vals: Vec<Vec<u8>> = vec![
        // 65534
        vec![254, 255],
        // 0
        vec![0],
        // 0
        vec![0],
        // 0
        vec![0],
        // 0
        vec![0],
        // 0
        vec![0],
        // 0
        vec![0],
    ];
    kani::concrete_playback_run(concrete_vals, vk_c09_ranged_bytes_iter_any_start);
}
