/// Test generated for harness `master::request::verif_kani_c16_compare::vk_c16_g41v4_u16_2x2` 
///
/// Check for `assertion`: ""C16 echo: Ok only for an octet-identical echo with status SUCCESS""

#[test]
fn kani_concrete_playback_vk_c16_g41v4_u16_2x2_9133070610170541204() {
    let concrete_vals: Vec<Vec<u8>> = vec![
        // 18437736874454876160ul
        vec![0, 0, 1, 0, 0, 0, 224, 255],
        // 0
        vec![0],
        // 255
        vec![255, 0],
        // 0ul
        vec![0, 0, 0, 0, 0, 0, 0, 0],
        // 0
        vec![0],
        // 0
        vec![0, 0],
        // 255
        vec![255],
        // 0
        vec![0],
        // 0
        vec![0],
        // 0
        vec![0],
        // 1
        vec![1],
        // 0
        vec![0],
        // 0
        vec![0],
        // 0
        vec![0],
        // 224
        vec![224],
        // 255
        vec![255],
        // 0
        vec![0],
        // 0
        vec![0],
        // 0
        vec![0],
        // 0
        vec![0],
        // 0
        vec![0],
        // 0
        vec![0],
        // 0
        vec![0],
        // 0
        vec![0],
        // 0
        vec![0],
        // 0
        vec![0],
        // 128
        vec![128],
        // 0
        vec![0],
    ];
    kani::concrete_playback_run(concrete_vals, vk_c16_g41v4_u16_2x2);
}
