"""Per-property static information used by bin/check (scope statements printed into evidence)."""

PROPS = {
    "C06": {
        "verus": True,
        "level_text": "Proof by contract of the real link-layer functions: CRC table and loop equal the IEEE 1815 polynomial, header/body parsers accept iff every CRC is intact and return exactly the transmitted fields, formatters produce the standard frame; full input domain per function. Composition over chunkings is a lemma over the contracts.",
        "level_note": "CRC of a block is a logged contract stub inside parse_body/format (callee proved separately, any length via Verus); body/format harnesses are per-length instances (quick: boundary lengths); Reader::read_frame is proved on a harness physical layer for two reads (stream continuity; datagram reset) with Parser::parse by contract - longer read histories are the inductive argument in DESIGN; <=3-bit error detection = syndrome harnesses + Verus linearity lemmas.",
        "not_covered": [
            "socket I/O below PhysLayer::read/write (replaced by the harness physical layer)",
            "read histories longer than two reads (bounded), frame bodies only at the instantiated lengths per tier",
        ],
        "trusted": [],
        "assumptions": [],
    },
}

PROPS["C07"] = {
    "level_text": "Proof by contract of the real link-layer decision function (process_header) against the standard's decision table for every control byte, address class, role, feature setting and FCB state; reply frame bytes; transport/session address filters as far as they are synchronous.",
    "level_note": "Session-level 'transmits nothing in reply to a malformed broadcast' lives in async fns and is not covered (classify returns Broadcast before any response-producing class: proved); fragment parser behind a deterministic contract stub in pop_request.",
    "not_covered": ["outstation::session::handle_one_request_from_idle error arm (async): replies to malformed broadcast"],
}

PROPS["C05"] = {
    "level_text": "Proof by contract of the duplicate-request classification predicate on a real session object (a request is treated as a retransmission iff sequence number and digest of the raw fragment equal those of the last valid request, and the stored response is carried unchanged), and of the two functions that put a solicited fragment on the wire: write_solicited and repeat_solicited (real async code, transport writer by contract) transmit exactly the response's own header octets followed by the object octets already in the solicited buffer up to the stored size - an echo re-serialises the STORED header, never whatever header a later reply left in the shared buffer, and recomputes no indication bits; the value kept for later echoes is the response as transmitted.",
    "level_note": "Classification predicate, write_solicited and repeat_solicited proved (the latter two with TransportWriter::write replaced by a logged contract stub through a woven early return; Writer::write itself is proved under C08). NOT verified: that a repeat never reaches the execution handlers (process_request_from_idle does not finish in CBMC), the confirm-wait and unsolicited-retry loops that call the echo (harnesses for sol_confirm_wait / perform_unsolicited_response_series exist under wip/ but hit the solver limit), that the body octets in the shared buffer are still those of the stored response when the echo happens (a history property of the buffer). xxh64 collision-freedom assumed.",
    "not_covered": ["process_request_from_idle / wait_for_sol_confirm / perform_unsolicited_response_series (async): that a repeat is answered through repeat_solicited / repeat_unsolicited and never executed", "repeat_unsolicited (same shape as repeat_solicited, not under contract)"],
    "assumptions": ["xxh64 behind a logged contract stub (any u64); collisions of xxh64 are outside the model",
                    "TransportWriter::write replaced under cfg(kani) by a logged contract stub (weave/inject/session_io.json): dropped text = its application-level decode logging and the delegation to transport::real::writer::Writer::write (proved under C08)"],
}
PROPS["C13"] = {
    "level_text": "Proof by contract that the response IIN is exactly the stated function of session state, event-buffer info and application answer (get_response_iin on a real session), that the restart indication survives the per-connection reset and is cleared only by the IIN write, plus the event-buffer contracts (C03) that define class/overflow truth.",
    "level_note": "write_solicited (real async code, transport writer by contract) is proved to OR a FRESH get_response_iin, evaluated exactly once, into every solicited response it transmits and to force CON for a pending confirm-mandatory broadcast; the same for write_unsolicited and the clearing of the broadcast bit on confirm are async control flow: not covered. DatabaseHandle::get_events_info behind a contract stub (Mutex).",
    "not_covered": ["write_unsolicited (async): IIN recomputed per transmitted unsolicited fragment", "confirm-mandatory broadcast bit cleared on confirm (async)"],
}

PROPS["C18"] = {
    "verus": True,
    "level_text": "Proof by contract of the outstation half of time synchronisation on a real session (written time = value + elapsed since RECORD_CURRENT_TIME; rejected on missing record, clock rollback, 48-bit overflow or wrong object count), of the 48-bit timestamp arithmetic, and of the master-side pure helpers that are synchronous.",
    "level_note": "Master task steps (rtt/2 computation inside handle_delay_measure/handle_write_absolute_time on Association) are not reachable by CBMC and are not covered; mapping of 'now' to real transmission instants is an assumption; clock is a harness stub.",
    "not_covered": ["master::tasks::time::TimeSyncTask::{handle_delay_measure,handle_write_absolute_time,handle_write_last_recorded_time} need &mut Association (CBMC does not finish)"],
    "assumptions": ["tokio::time::Instant::now replaced by a harness clock returning arbitrary instants (layout self-checked each run)"],
}

PROPS["C10"] = {
    "level_text": "Proof by contract, full input domain (all float bit patterns incl. NaN/inf, all flag octets, all 48-bit times), of every database-to-wire and wire-to-handler conversion pair against spec functions written from the property and IEEE 1815 Annex A: saturation + OVER_RANGE, low-16-bit counters, packed formats only for plain ONLINE, relative-time (CTO) write and exact reconstruction, event writer step.",
    "level_note": "Proved per conversion function, per ToVariation/From pair, per write_cto/EventWriter step and per promote call; not covered: BTreeMap range iteration order in write_typed_range, the master's header fold that carries the CTO between headers, extract_measurements_to arms, the database update path, byte codecs (those are C09). Time quality through absolute-time variations and flags through flag-less non-packed variations are not on the wire and are not asserted.",
    "not_covered": ["outstation::database::details::range::static_db::write_typed_range (BTreeMap order: std, trusted)", "master::extract::extract_measurements_inner fold over headers (dispatcher does not finish in CBMC)"],
}

PROPS["C09"] = {
    "level_text": "Proof by contract per leaf of the application-layer object codec: every fixed-size object's write/read is a bijection of exactly the Annex A size (98 impls, generated list), group/variation, qualifier and function-code codecs are mutually inverse, every sequence parser consumes exactly the bytes its count/range implies or fails, every iterator yields exactly count items with the declared indices (including ranges ending at 65535), and each dispatcher arm with the variation fixed delegates to the right leaf.",
    "level_note": "Not covered: the composition of these leaves - ObjectParser's two-pass loop and qualifier dispatch, free-format and attribute objects, the HeaderWriter/PrefixWriter/RangeWriter encoders and master request builders, function/flags/IIN framing - so 'a whole encoded fragment decodes to the same fragment' rests on about 20 lines of glue that are read, not proved. Cursor-based iterators over windows of <= 4 objects (bounded). Enum invariants (canonical CommandStatus/ControlCode values) assumed and tagged.",
    "not_covered": ["app::parse::parser::ObjectParser::parse two-pass loop / parse_one_inner qualifier dispatch (does not finish in CBMC)", "app::format::write::HeaderWriter family, master::request builders", "app::attr attribute objects"],
}

PROPS["C20"] = {
    "ffi": True,
    "level_text": "Proof over finite domains of the binding crate's conversion impls: every enum variant maps to its namesake in both directions and every struct field arrives bit-identical in its namesake field (loop-free harnesses over all values).",
    "level_note": "Only conversions are covered; 'a database operation through the binding has exactly the effect of the native call' needs DatabaseHandle behind raw pointers and is NOT claimed. Generated ffi.rs (oo-bindgen output) is trusted as compiled.",
    "not_covered": ["ffi database_* functions: effect equality with native calls (raw pointers, Mutex)"],
}

PROPS["C16"] = {
    "level_text": "Proof by contract of the master's echo comparison (CommandHeader::compare / compare_items / Prefix::equals) for all ten command header kinds: success IFF same kind, same count and every object octet-identical with status SUCCESS; full value domain, up to 3 objects per header (bounded in count).",
    "level_note": "Not covered: iterating several headers (CommandHeaders::compare over a HeaderCollection), SELECT-then-OPERATE sequencing and the one-outcome-per-request accounting (async task code).",
    "not_covered": ["master::tasks::command (async): SELECT then OPERATE sequencing, every exit reports exactly one outcome", "master::request::CommandHeaders::compare over a HeaderCollection (dispatcher)"],
}
PROPS["C17"] = {
    "verus": True,
    "level_text": "Proof by contract of the retry back-off arithmetic on the full Duration domain (first delay = min, then doubling capped at max, overflow -> max), of the automatic-task state transitions including retry instant = now + delay, and of the start-up / restart-IIN / reset re-arming of the task states.",
    "level_note": "TaskStates::next priority order proved with AutoTaskState::create_next_task behind a contract stub (Task values cannot be built under CBMC); Association::process_iin / on_restart_iin_observed / completion callbacks proved on a zeroed Association shell in which only the touched fields are written. Not covered: the async handle_unsolicited_response body (the gate FLAG it reads is proved), Association::reset (task queue), task construction. Assumes RetryStrategy min <= max (not enforced by the constructor).",
    "not_covered": ["master::association::Association::handle_unsolicited_response (async): uses is_integrity_complete(), whose value is proved", "master::association::Association::reset (VecDeque<Task>)"],
    "assumptions": ["tokio::time::Instant::now replaced by a harness clock"],
}

PROPS["C01"] = {
    # quick tier leaves the slowest families to their own property's check and to C01's thorough tier
    "quick_exclude": r"^vk_c16_|^vk_c20_|^vk_c06_(format_n249|parse_body_n249|parse_body_n250|crc_increment_block16|calc_crc_is_fold|read_frame)|^vk_c10_pair_|^vk_c08_writer_l2|^vk_c03_buf_(select|write|insert|clear)_|^vk_c11_(select_range|write_series|writer_step)|^vk_c13_history|^vk_c12_handle_controls",
    "level_text": "Panic-freedom (explicit panics, unwrap/expect, index and slice bounds, arithmetic overflow, division) and loop termination of the synchronous functions that sit between the socket and the session, each proved for its full input domain under the type invariant by the verifier's built-in checks: link parser/reader arithmetic/layer decision, transport assembler, every object codec and iterator, event buffer operations, session-level synchronous handlers, master-side pure functions. One run = every harness of every other property that is full-domain.",
    "level_note": "NOT covered: every async fn (run loops, read_frame, write paths), so 'keeps serving a following request' and 'ends the session cleanly' are not decided; code reachable only through log arguments (shimmed); the tx-buffer unwrap in handle_operate; the app-layer dispatcher loop as a whole (each arm is covered). Discard-loop progress is bounded in buffer length (inductive argument in DESIGN).",
    "not_covered": ["all async fns of outstation::session, master::task, link::reader::read_frame, transport writer", "Display/Debug code behind log macros", "outstation::session::handle_operate: unwrap on respond_with_status (async)"],
}

PROPS["C08"] = {
    "verus": True,
    "level_text": "Proof by contract of the transport receiver: header codec on all 256 octets, sequence arithmetic mod 64, Assembler::assemble one step from every well-formed pre-state against a spec function written from the property (FIR restarts, non-FIR ignored when idle, continuation only with next sequence number from the same source, overflow drops, FIN completes with a fresh frame id, broadcast only FIR+FIN), buffer bytes, peek/pop/reset, and the Reader's pop/peek/reset.",
    "level_note": "Sender: Writer::write proved for 1- and 2-segment fragments (FIR first, FIN last, consecutive sequence numbers, 249-byte chunks, one physical write per frame). Not covered: Reader::read (async) - the read-loop guard that keeps assemble from being called while a completed fragment is untaken (stated caller precondition). Running-state buffer bytes for buffer 32 and pinned lengths at 2048 (bounded in that dimension); IPv6 source addresses excluded; multi-segment composition is the inductive argument in DESIGN.",
    "not_covered": ["transport::real::writer::Writer::write (async): chunks of 249, FIR first, FIN last, consecutive sequence numbers", "transport::real::reader::Reader::read (async): guard `assembler.peek().is_some()` is the caller precondition of assemble"],
}
PROPS["C04"] = {
    "level_text": "Proof by contract that SelectState::match_operate equals the property's predicate for all sequence numbers, frame ids, hashes, instants and timeouts (Ok iff next sequence, next fragment id, same object hash, within the select timeout; otherwise a non-success status), plus the state it reads: select record frames, per-connection reset drops the select, sequence mod 16, first_error, hash input = exactly the object bytes, frame id +1 per completed fragment (C08).",
    "level_note": "handle_select (select recorded IFF every object succeeded) and handle_operate (actuation IFF match_operate accepts, else a non-success status for every object) and handle_controls are proved with the ControlCollection methods that iterate the control headers behind contract stubs and with asynchronous user callbacks not modelled (MaybeAsync weave). Not covered: per-object status accumulation inside select_with_response / operate_with_response (app-layer dispatcher), process_request_from_idle (a repeated non-SELECT request also refreshes the select's fragment id: found by reading, not decidable here). xxh64 collision-freedom assumed; clock is a harness stub.",
    "not_covered": ["outstation::control::collection::ControlCollection::{select_with_response,operate_with_response} (dispatcher)", "outstation::session::process_request_from_idle (async; does not finish)"],
    "assumptions": ["tokio::time::Instant::now replaced by a harness clock", "xxh64 collision-freedom"],
}

PROPS["C03"] = {
    "level_text": "One-step inductive contracts of the outstation event store from an arbitrary state satisfying its representation invariant: VecList add/remove_at/remove_first/remove_all/iteration (order, handles, versions), EventBuffer insert (exactly one reported displacement when a type is full), select_by_class/type (first k unselected, oldest first), write_events (maximal prefix of the selected records becomes written), clear_written (exactly the written records released, each reported once), reset (nothing released), unwritten_classes; counter arithmetic. Unbounded in history, bounded in capacity.",
    "level_note": "Bounded: stores of <= 3 records, two event types, one canonical list layout at EventBuffer level (layout independence rests on the VecList contracts); clear_written decided for stores holding <= 1 record (larger: list-level remove_all + counter contracts, composed on paper); object encoders behind a logged contract stub. NOT covered: that clear_written is called only from the two confirm paths and reset on timeout/abort/disconnect, the DISABLE_UNSOLICITED history - all async session glue.",
    "not_covered": ["outstation::session (async): WHEN clear_written_events / database.reset are called", "counter wrap-around at 2^64 (assumed away, tagged)"],
}

PROPS["C11"] = {
    "level_text": "Contracts of the static-data response machinery: RangeWriter::write one step from an arbitrary writer state (continue a header iff same variation and next index, else new header; on no room nothing half-written), selection copies current into selected for exactly the points in range, successive fragments hand every selected point to the writer exactly once in ascending order from the SELECTED (request-time) value while updates change only current, response stages in order (events, static, attributes), need_confirm / series record, and the read-response header builder on a real session.",
    "level_note": "Database part bounded (<= 3 points at fixed index layouts, enumerated ranges and no-room patterns: symbolic keys into BTreeMap::range do not finish); series logic checked against a contract stub of RangeWriter::write (proved separately) plus one small real end-to-end run. NOT covered: confirm / timeout / new-request gating and consecutive sequence numbers of the series (sol_confirm_wait, async), DatabaseHandle::select iterating the request headers.",
    "not_covered": ["outstation::session::sol_confirm_wait / wait_for_sol_confirm (async): FIR/FIN/sequence/confirm gating of the series", "outstation::database::DatabaseHandle::select over a HeaderCollection (dispatcher)"],
}
PROPS["C12"] = {
    "level_text": "Proof of the building blocks of outstation replies: control-field and response-header codecs (exactly 4 bytes, round trip), request/response validation (FIR+FIN, UNS only with CONFIRM / only on unsolicited responses, IIN presence), IIN2 mappings for every parse and request error, the function-info table, get_iin2, empty solicited response, the unsolicited-data and read-response builders on a real session (UNS/FIR/FIN/CON and sequence rules, size within the transmit buffer).",
    "level_note": "Building blocks, plus expect_sol_confirm (a fragment rejected before object parsing ends the confirm wait and is answered) and the control-echo writer (all-or-nothing per object). NOT covered: that every transmitted reply is built through them, that CONFIRM and the no-acknowledge codes are never answered, that WRITE / multi-header handlers accumulate every rejection, that whole transmitted fragments parse cleanly - all inside async dispatcher code.",
    "not_covered": ["outstation::session::handle_non_read / write_error_response / handle_write (async + dispatcher)"],
}

PROPS["C19"] = {
    "level_text": "Proof of the timing and precedence building blocks of master scheduling: a periodic poll becomes due exactly one period after its previous run completed (or at once when demanded), the poll map returns a due poll or the EARLIEST deadline to sleep until, and the keep-alive deadline is re-armed to (last link activity + configured silence).",
    "level_note": "PARTIAL (timing building blocks only): the per-association choice get_next_task / next_link_status_task (auto tasks before polls before keep-alive; due iff deadline reached) builds Task values and does not finish in CBMC even with all callees stubbed; FIFO order of user requests (VecDeque<Task>), turn-taking between associations (AssociationMap), 'at most one request outstanding' and non-starvation are async/Task-valued code outside CBMC's reach and are NOT covered. Poll map bounded to two polls.",
    "not_covered": ["master::association::Association::priority_task / AssociationMap::next_task (Task values, BTreeMap of associations)", "master::task run loops (async): one request outstanding, sleeping"],
    "assumptions": ["tokio::time::Instant::now replaced by a harness clock"],
}

NA = {
    "C02": "whole-system history over real TCP and three threads: no function contract within reach expresses it (Kani has no threads, tokio I/O crashes the Kani compiler); its ingredients are decided under C03/C06/C08/C09/C10/C13",
    "C14": "every rule is control flow inside async fns that hold the physical layer and tokio timers (check_unsolicited, perform_unsolicited_response_series, wait_for_unsolicited_confirm, handle_deferred_read). Contracts were written for the first two (scripted read_until in place of the timer select, hooked callees: wip/solwait) but CBMC reaches no verdict on them within 700-1200 s, so nothing is claimed; DeferredRead::set iterates a HeaderCollection (dispatcher does not finish). Only write_unsolicited_data and DeferredInfo::merge (under C12) are proved",
    "C15": "the acceptance predicates are async fns taking &mut PhysLayer (validate_non_read_response, process_read_response, handle_unsolicited): any harness reaching them crashes the Kani compiler; Verus has no route to them",
}
