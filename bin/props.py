"""Per-property static information used by bin/check (scope statements printed into evidence)."""

PROPS = {
    "C06": {
        "verus": True,
        "level_text": "Proof by contract of the real link-layer functions: CRC table and loop equal the IEEE 1815 polynomial, header/body parsers accept iff every CRC is intact and return exactly the transmitted fields, formatters produce the standard frame; full input domain per function. Composition over chunkings is a lemma over the contracts.",
        "level_note": "Reader::read_frame (async I/O) not covered, so the datagram-mode no-stitching clause is not decided; CRC of a block is a contract stub inside parse_body/format (callee proved separately).",
        "not_covered": [
            "link::reader::Reader::read_frame (async, takes PhysLayer): datagram-mode reset is two statements inside it",
        ],
        "trusted": [],
        "assumptions": [],
    },
}

PROPS["C07"] = {
    "level_text": "Proof by contract of the real link-layer decision function (process_header) against the standard's decision table for every control byte, address class, role, feature setting and FCB state; reply frame bytes; transport/session address filters as far as they are synchronous.",
    "level_note": "Session-level 'transmits nothing in reply to a malformed broadcast' lives in async fns and is not covered; fragment parser behind a contract stub in pop_request.",
    "not_covered": ["outstation::session::handle_one_request_from_idle error arm (async): replies to malformed broadcast"],
}

NA = {
    "C02": "whole-system history over real TCP and three threads: no function contract within reach expresses it (Kani has no threads, tokio I/O crashes the Kani compiler); its ingredients are decided under C03/C06/C08/C09/C10/C13",
    "C14": "every rule is control flow inside async fns that hold the physical layer (check_unsolicited, perform_unsolicited_response_series, wait_for_unsolicited_confirm, handle_deferred_read): outside both verifiers",
    "C15": "the acceptance predicates are async fns taking &mut PhysLayer (validate_non_read_response, process_read_response, handle_unsolicited): any harness reaching them crashes the Kani compiler; Verus has no route to them",
    "C19": "scheduling functions return Task/Poll values and live on Association (boxed handlers, VecDeque<Task>): CBMC does not finish instrumenting such programs; remaining rules are async control flow",
}
