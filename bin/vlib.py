#!/usr/bin/env python3
"""Shared machinery: scratch copy of /repo, weaver, Kani runner and result parser.

Nothing in here contains repo code.  The weaver only ADDS text to a scratch copy:
  - `#[cfg(kani)] mod verif_kani_<frag> { use super::*; ... }` appended to real source files
  - contract attributes inserted above anchored `fn` lines (weave/inject.json)
  - build configuration edits (workspace members, lints, tracing shim patch)
"""
import json, os, re, shutil, subprocess, sys, time, hashlib

VERIF = os.path.dirname(os.path.dirname(os.path.abspath(__file__)))
REPO = os.environ.get("VERIF_REPO", "/repo")
WEAVE = os.path.join(VERIF, "weave")
CACHE = os.path.join(VERIF, ".cache")
KANI_FLAGS = ["-Z", "function-contracts", "-Z", "stubbing", "-Z", "unstable-options"]

EXIT_OK, EXIT_VIOLATION, EXIT_UNDECIDED = 0, 1, 2


class Undecided(Exception):
    pass


def log(*a):
    print(*a, file=sys.stderr, flush=True)


# ------------------------------------------------------------------ harness metadata

META_RE = re.compile(r"^\s*// @harness\s+(.*)$")
FN_RE = re.compile(r"^\s*(?:(?:pub(?:\([a-z]+\))?\s+)?fn\s+([A-Za-z0-9_]+)\s*[<(]|[a-z_0-9]+!\(\s*([A-Za-z0-9_]+)\s*,)")


def parse_kv(s):
    out = {}
    for m in re.finditer(r'(\w+)=("([^"]*)"|\S+)', s):
        out[m.group(1)] = m.group(3) if m.group(3) is not None else m.group(2)
    return out


class Harness:
    def __init__(self, name, frag, target, meta):
        self.name = name
        self.frag = frag          # fragment file path (in /verif/weave/append/...)
        self.target = target      # repo-relative file it is appended to
        self.meta = meta
        self.ids = meta.get("ids", "").split(",")
        self.tier = meta.get("tier", "quick")
        self.kind = meta.get("kind", "proof")      # proof | bounded | canary
        self.units = [u for u in meta.get("units", "").split(",") if u]
        self.timeout = int(meta.get("timeout", "300"))
        self.stubs = meta.get("stubs", "0") != "0"
        self.bound = meta.get("bound", "")
        self.note = meta.get("note", "")
        # expected failing obligation for a known finding (substring of description)
        self.full = None

    def module_path(self):
        # dnp3/src/link/crc.rs -> link::crc ; dnp3/src/lib.rs -> "" ; x/mod.rs -> x
        rel = self.target
        m = re.match(r"^(?:dnp3|ffi/dnp3-ffi)/src/(.*)\.rs$", rel)
        p = m.group(1)
        parts = p.split("/")
        if parts[-1] in ("mod", "lib"):
            parts = parts[:-1]
        parts.append(frag_mod_name(self.frag))
        return "::".join(parts)

    def full_name(self):
        return self.module_path() + "::" + self.name


def frag_mod_name(frag):
    base = os.path.basename(frag)
    return "verif_kani_" + re.sub(r"[^a-z0-9_]", "_", base[:-3].lower())


def weave_roots():
    """/verif/weave plus an optional work-in-progress root (VERIF_WIP=/verif/wip/<name>) with the same layout:
    <root>/append/<repo file>/<frag>.rs, <root>/inject/*.json, <root>/specs/*.rs"""
    roots = [WEAVE]
    wip = os.environ.get("VERIF_WIP")
    if wip:
        roots.append(wip)
    return roots


def list_fragments():
    out = []
    for r in weave_roots():
        root = os.path.join(r, "append")
        for d, _, files in os.walk(root):
            for f in sorted(files):
                if f.endswith(".rs"):
                    frag = os.path.join(d, f)
                    target = os.path.relpath(d, root)  # directory path == repo-relative target file
                    out.append((frag, target))
    return sorted(out)


def load_harnesses():
    hs = []
    for frag, target in list_fragments():
        lines = open(frag).read().split("\n")
        pending = None
        for ln in lines:
            m = META_RE.match(ln)
            if m:
                pending = parse_kv(m.group(1))
                continue
            if pending is not None:
                f = FN_RE.match(ln)
                if f:
                    hs.append(Harness(f.group(1) or f.group(2), frag, target, pending))
                    pending = None
    names = [h.name for h in hs]
    dup = {n for n in names if names.count(n) > 1}
    if dup:
        raise Undecided("duplicate harness names: %s" % sorted(dup))
    return hs


# ------------------------------------------------------------------ scratch + weave

def scratch_root():
    base = os.environ.get("VERIF_SCRATCH_BASE", "/var/tmp")
    return os.path.join(base, "dnp3-verif.%d" % os.getpid())


def prepare_scratch(scratch, with_ffi=False):
    if os.path.exists(scratch):
        shutil.rmtree(scratch)
    os.makedirs(scratch)
    src = os.path.join(scratch, "src")
    cmd = ["rsync", "-a", "--exclude", "/target", "--exclude", "/.git", "--exclude", "/guide",
           "--exclude", "/conformance", "--exclude", "/certs", REPO + "/", src + "/"]
    subprocess.check_call(cmd)
    # ---- build configuration only
    ct = os.path.join(src, "Cargo.toml")
    txt = open(ct).read()
    members = '"dnp3"' + (', "ffi/dnp3-schema", "ffi/dnp3-ffi"' if with_ffi else "")
    txt2, n = re.subn(r"members\s*=\s*\[[^\]]*\]", "members = [%s]" % members, txt, count=1)
    if n != 1:
        raise Undecided("cannot find workspace members in Cargo.toml")
    # lints: harness modules use `static mut` ghost logs; repo code itself is untouched
    txt2 = txt2.replace('unsafe_code = "forbid"', 'unsafe_code = "allow"')
    txt2 = txt2.replace('unused = { level = "deny", priority = -1 }', 'unused = { level = "allow", priority = -1 }')
    txt2 = txt2.replace('unreachable_pub = "deny"', 'unreachable_pub = "allow"')
    txt2 = txt2.replace('missing_docs = "deny"', 'missing_docs = "allow"')
    txt2 = txt2.replace('missing_copy_implementations = "deny"', 'missing_copy_implementations = "allow"')
    txt2 = txt2.replace('trivial_casts = "deny"', 'trivial_casts = "allow"')
    if not with_ffi:
        txt2 += '\n[patch.crates-io]\ntracing = { path = "%s" }\n' % os.path.join(VERIF, "shims", "tracing")
    open(ct, "w").write(txt2)
    os.makedirs(os.path.join(src, ".cargo"), exist_ok=True)
    open(os.path.join(src, ".cargo", "config.toml"), "w").write("[net]\noffline = true\n")
    return src


def weave(src, only_targets=None):
    """Append harness modules and inject contract attributes. Returns a record of what was woven."""
    record = {"appended": [], "injected": []}
    # 1. injections first (line anchors refer to pristine text)
    inj_files = []
    for r in weave_roots():
        d = os.path.join(r, "inject")
        if os.path.isdir(d):
            inj_files += sorted(os.path.join(d, f) for f in os.listdir(d) if f.endswith(".json"))
    for inj_path in inj_files:
        for inj in json.load(open(inj_path)):
            path = os.path.join(src, inj["file"])
            if not os.path.exists(path):
                raise Undecided("lost anchor: file %s missing" % inj["file"])
            lines = open(path).read().split("\n")
            rx = re.compile(inj["anchor"])
            hits = [i for i, l in enumerate(lines) if rx.search(l)]
            if "within" in inj:  # restrict to lines after the first line matching `within`
                wrx = re.compile(inj["within"])
                starts = [i for i, l in enumerate(lines) if wrx.search(l)]
                if len(starts) != 1:
                    raise Undecided("lost anchor: scope %r in %s matched %d times" % (inj["within"], inj["file"], len(starts)))
                hits = [i for i in hits if i > starts[0]][:1]
            if len(hits) != 1:
                raise Undecided("lost anchor: %r in %s matched %d times" % (inj["anchor"], inj["file"], len(hits)))
            i = hits[0]
            indent = re.match(r"\s*", lines[i]).group(0)
            lines[i:i] = [indent + l for l in inj["insert"]]  # inserted ABOVE the anchored line
            open(path, "w").write("\n".join(lines))
            record["injected"].append({"file": inj["file"], "anchor": inj["anchor"], "lines": inj["insert"]})
    # 2. appended modules
    by_target = {}
    for frag, target in list_fragments():
        by_target.setdefault(target, []).append(frag)
    for target, frags in sorted(by_target.items()):
        path = os.path.join(src, target)
        if not os.path.exists(path):
            raise Undecided("lost anchor: file %s missing" % target)
        with open(path, "a") as f:
            for frag in frags:
                body = open(frag).read()
                # optional first-line directive `// @cfg <predicate>`: e.g. modules that only exist with cfg(not(test))
                m = re.match(r"\s*// @cfg (.+)\n", body)
                cfg = "all(kani, %s)" % m.group(1).strip() if m else "kani"
                f.write("\n\n#[cfg(%s)]\n#[allow(unused_imports, dead_code, unused_variables, unused_mut, static_mut_refs, clippy::all)]\n"
                        "pub(crate) mod %s {\n    use super::*;\n%s\n}\n" % (cfg, frag_mod_name(frag), body))
                record["appended"].append({"file": target, "fragment": os.path.relpath(frag, VERIF),
                                           "sha256": hashlib.sha256(body.encode()).hexdigest()[:16]})
    # 3. spec functions into lib.rs
    spec_dirs = [os.path.join(VERIF, "specs")] + [os.path.join(r, "specs") for r in weave_roots()[1:]]
    specs = []
    for spec_dir in spec_dirs:
        if os.path.isdir(spec_dir):
            specs += sorted(os.path.join(spec_dir, f) for f in os.listdir(spec_dir) if f.endswith(".rs"))
    if specs:
        with open(os.path.join(src, "dnp3", "src", "lib.rs"), "a") as f:
            f.write("\n\n#[cfg(kani)]\n#[allow(unused_imports, dead_code, unused_variables, clippy::all)]\npub(crate) mod verif_spec {\n")
            for s in specs:
                f.write("// ---- %s\n" % os.path.basename(s))
                f.write(open(s).read())
            f.write("\n}\n")
        record["specs"] = [os.path.basename(s) for s in specs]
    return record


def seed_target_cache(src):
    """Copy the dependency build cache (made by setup) so cold compile is avoided. Real copy, no links."""
    cache = os.path.join(CACHE, "kani-target")
    dst = os.path.join(src, "target")
    if os.path.isdir(cache) and not os.path.exists(dst):
        subprocess.call(["cp", "-a", "--reflink=auto", cache, dst])


# ------------------------------------------------------------------ Kani runner + parser

def parse_kani_output(text):
    """Parse terse, multi-threaded (-j) output. Returns {harness_full_name: result dict}."""
    results = {}
    thread_cur = {}
    cur = None
    lines = text.split("\n")
    for idx, ln in enumerate(lines):
        m = re.match(r"^(?:Thread (\d+): )?Checking harness (\S+?)\.\.\.", ln)
        if m:
            r = {"name": m.group(2), "verdict": None, "time": None, "total": 0, "failed": 0, "unreachable": 0,
                 "undetermined": 0, "covers_total": 0, "covers_sat": 0, "failed_checks": [], "timed_out": False, "oom": False}
            results[r["name"]] = r
            thread_cur[m.group(1) or "-"] = r
            if m.group(1) is None:
                cur = r
            continue
        m = re.match(r"^Thread (\d+): ?(.*)$", ln)
        if m:
            cur = thread_cur.get(m.group(1))
            ln = m.group(2)
            if cur is None:
                continue
        if cur is None:
            continue
        m = re.match(r"^ \*\* (\d+) of (\d+) failed(?: \((.*)\))?", ln)
        if m:
            cur["failed"], cur["total"] = int(m.group(1)), int(m.group(2))
            extra = m.group(3) or ""
            mm = re.search(r"(\d+) unreachable", extra)
            if mm: cur["unreachable"] = int(mm.group(1))
            mm = re.search(r"(\d+) undetermined", extra)
            if mm: cur["undetermined"] = int(mm.group(1))
            continue
        m = re.match(r"^ \*\* (\d+) of (\d+) cover properties satisfied", ln)
        if m:
            cur["covers_sat"], cur["covers_total"] = int(m.group(1)), int(m.group(2)); continue
        m = re.match(r"^Failed Checks: (.*)$", ln)
        if m:
            loc = lines[idx + 1].strip() if idx + 1 < len(lines) and lines[idx + 1].startswith(" File:") else ""
            cur["failed_checks"].append({"desc": m.group(1), "loc": loc}); continue
        m = re.match(r"^VERIFICATION:- (\w+)", ln)
        if m:
            cur["verdict"] = m.group(1); continue
        m = re.match(r"^Verification Time: ([0-9.]+)s", ln)
        if m:
            cur["time"] = float(m.group(1)); continue
        if "timed out" in ln.lower():
            cur["timed_out"] = True
        if "out of memory" in ln.lower() or "bad_alloc" in ln:
            cur["oom"] = True
    return results


def run_kani(src, harnesses, jobs=16, extra=None, package="dnp3", features=None, logfile=None, hard_timeout=None):
    """One cargo-kani invocation for a list of Harness objects."""
    cmd = ["cargo", "kani", "-p", package]
    cmd += ["--no-default-features"]
    cmd += KANI_FLAGS
    cmd += ["--exact"]
    for h in harnesses:
        cmd += ["--harness", h.full_name()]
    to = max(h.timeout for h in harnesses)
    cmd += ["--harness-timeout", "%ds" % to, "-j", str(jobs), "--output-format", "terse"]
    if extra:
        cmd += extra
    env = dict(os.environ)
    env["CARGO_NET_OFFLINE"] = "true"
    env.pop("RUSTFLAGS", None)
    hard = hard_timeout or (to * max(1, (len(harnesses) + jobs - 1) // jobs) + 900)
    t0 = time.time()
    try:
        p = subprocess.run(cmd, cwd=src, env=env, stdout=subprocess.PIPE, stderr=subprocess.STDOUT,
                           timeout=hard, text=True, errors="replace")
        out, rc = p.stdout, p.returncode
    except subprocess.TimeoutExpired as e:
        subprocess.call(["pkill", "-9", "-x", "cbmc"])
        out = (e.stdout or "")
        if isinstance(out, bytes):
            out = out.decode(errors="replace")
        out += "\n[verif] hard timeout after %ds\n" % hard
        rc = 124
    wall = time.time() - t0
    if logfile:
        open(logfile, "w").write(" ".join(cmd) + "\n" + out)
    return out, rc, wall, " ".join(cmd)
