"""Verus units: functions extracted byte-for-byte from the scratch copy on every run (verus/extract.py)."""
import os, sys, time, json, re
V = os.path.dirname(os.path.dirname(os.path.abspath(__file__)))
sys.path.insert(0, os.path.join(V, "verus"))
import extract as X

def unit_c06_crc(src, outdir):
    crc = open(os.path.join(src, "dnp3/src/link/crc.rs")).read()
    # cut off anything woven after the real code
    crc = crc.split("\n#[cfg(kani)]")[0]
    items = {}
    items["table"] = X.find_item(crc, r"^const CRC_TABLE: \[u16; 256\] =")
    items["c0564"] = X.find_item(crc, r"^const CRC_OF_0564: u16 =")
    items["calc_crc"] = X.find_item(crc, r"^pub\(crate\) fn calc_crc\(")
    items["calc_crc_with_0564"] = X.find_item(crc, r"^pub\(crate\) fn calc_crc_with_0564\(")
    items["crc_increment"] = X.find_item(crc, r"^pub\(crate\) fn crc_increment\(")
    sp = {}
    sp["calc_crc"] = X.splice_fn(items["calc_crc"], ret_name="r", sig_clause="\n    ensures r == !fold(0, slice@)\n")
    sp["calc_crc_with_0564"] = X.splice_fn(items["calc_crc_with_0564"], ret_name="r", sig_clause="\n    ensures r == !fold(CRC_OF_0564, slice@)\n")
    sp["crc_increment"] = X.splice_fn(
        items["crc_increment"], ret_name="r",
        sig_clause="\n    ensures r == fold(acc, slice@)\n",
        loop_invariants={0: ("it", "\n        invariant acc == fold(acc0, slice@.take(it.index@ as int)),\n    ")},
        proof_blocks=[
            ("    for byte", "    let ghost acc0 = acc;\n"),
            ("        let index =", "        proof {\n            let i = it.index@ as int;\n            assert(slice@.take(i + 1).drop_last() =~= slice@.take(i));\n            assert(slice@.take(i + 1).last() == slice@[i]);\n        }\n"),
            ("    acc\n}", "    proof { assert(slice@.take(slice@.len() as int) =~= slice@); }\n"),
        ])
    # the verified text must be the repo text once the splices are removed
    for k in ("calc_crc", "calc_crc_with_0564", "crc_increment"):
        if X.normalise(X.strip(sp[k])) != X.normalise(items[k]):
            raise X.ExtractError("extraction of %s is not verbatim after stripping splices" % k)
    lemmas = open(os.path.join(V, "verus", "c06_crc.lemmas.rs")).read()
    text = "use vstd::prelude::*;\nverus! {\n// ---- verbatim from dnp3/src/link/crc.rs\n%s\n\n%s\n\n%s\n\n%s\n\n%s\n\n%s\n}\nfn main() {}\n" % (
        items["table"], items["c0564"], sp["calc_crc"], sp["calc_crc_with_0564"], sp["crc_increment"], lemmas)
    path = os.path.join(outdir, "c06_crc.rs")
    open(path, "w").write(text)
    return {"name": "verus_c06_crc", "file": path,
            "functions": ["link::crc::crc_increment (any slice length)", "link::crc::calc_crc", "link::crc::calc_crc_with_0564"],
            "lemmas": ["lemma_fold_linear (L-C06a)", "lemma_acceptance_depends_only_on_error", "lemma_syndrome_additive"],
            "assumed": ["axiom_step_linear: external_body, discharged by Kani harness vk_c06_crc_step_linear",
                        "verbatim `acc as u8` truncating cast is an uninterpreted function for Verus (same symbol in code and spec); its meaning is the Kani obligation vk_c06_crc_increment_one_byte"],
            "dropped": "nothing from the bodies; contract clauses, loop invariant, ghost `acc0` and three proof blocks are spliced between /*@verif-splice*/ markers and stripped again for the verbatim comparison"}

def lemma_unit(name, spec_files, lemma_file, lemmas, about):
    """A lemma-layer unit: spec functions single-sourced from /verif/specs (the same text is compiled into the Kani
    build as crate::verif_spec) translated mechanically by verus/spec2verus.py, plus a hand-written lemma file."""
    def mk(src, outdir):
        import spec2verus
        parts = []
        for f in spec_files:
            try:
                parts.append("// ---- translated from specs/%s\n" % f + spec2verus.translate(open(os.path.join(V, "specs", f)).read()))
            except spec2verus.TranslateError as e:
                raise X.ExtractError("spec translation of %s failed: %s" % (f, e))
        text = "use vstd::prelude::*;\nverus! {\n%s\n%s\n}\nfn main() {}\n" % ("\n".join(parts), open(os.path.join(V, "verus", lemma_file)).read())
        path = os.path.join(outdir, name + ".rs")
        open(path, "w").write(text)
        return {"name": "verus_" + name, "file": path, "functions": [], "lemmas": lemmas,
                "assumed": ["the spec functions are what the Kani postconditions compare the real code with (%s); machine integers in them are proved overflow-free by the Kani spec harnesses, so spec `as` casts are identities" % about],
                "dropped": "n/a (no repo code in this unit: lemma layer over single-sourced spec functions)"}
    mk.__name__ = name
    return mk

UNITS = {
    "C06": [unit_c06_crc],
    "C08": [lemma_unit("c08_transport", ["transport.rs"], "c08_transport.lemmas.rs",
                       ["lemma_valid_run_is_delivered (L-C08): any fragment of 1..=cap bytes segmented the standard way is delivered whole from any receiver state", "lemma_seq_masked"],
                       "vk_c08_asm_* : Assembler::assemble == spec::assembler_step")],
    "C18": [lemma_unit("c18_timesync", [], "c18_timesync.lemmas.rs",
                       ["lemma_lan_error_is_forward_delay", "lemma_non_lan_error_is_half_asymmetry (L-C18)"],
                       "vk_c18_write_at_last_recorded_time: written = value + elapsed; the master-side (rtt-p)/2 is NOT verified")],
    "C17": [lemma_unit("c17_backoff", ["backoff.rs"], "c17_backoff.lemmas.rs",
                       ["lemma_backoff_closed_form (L-C17): k-th consecutive failure is delayed min(min*2^(k-1), max), within [min, max]"],
                       "vk_c17_backoff_* : ExponentialBackOff::on_failure == spec::backoff_next")],
}

def run(pid, tier, src, scratch):
    outdir = os.path.join(scratch, "verus")
    os.makedirs(outdir, exist_ok=True)
    units, funcs, total = [], [], 0.0
    for mk in UNITS.get(pid, []):
        try:
            u = mk(src, outdir)
        except X.ExtractError as e:
            units.append({"name": mk.__name__, "status": "undecided", "reason": str(e)})
            continue
        try:
            r = X.run_verus(u["file"])
        except Exception as e:
            u.update({"status": "undecided", "reason": "verus did not run: %s" % e})
            units.append(u); continue
        total += r["wall_s"]
        u.update({"verified": r["verified"], "errors": max(r["errors"], 0), "wall_s": r["wall_s"], "smt_s": r.get("smt_s")})
        if r["errors"] == 0 and r["verified"] > 0 and r["exit"] == 0:
            u["status"] = "verified"
        elif r["errors"] > 0:
            u["status"] = "failed"
            m = re.search(r"error: ([^\n]*)\n\s*--> ([^\n]*)", r["stderr_tail"])
            u["first_error"] = (m.group(1) + " at " + m.group(2)) if m else "verus reported errors"
            u["output_tail"] = r["stderr_tail"][-1500:]
        else:
            u["status"] = "undecided"
            u["reason"] = "verus exit %s, no obligations or tool error: %s" % (r["exit"], r.get("stderr_tail", "")[-400:])
        # vacuity: the file must contain obligations
        units.append(u)
        funcs += u.get("functions", [])
    return {"units": units, "time_s": round(total, 2), "functions": funcs}
