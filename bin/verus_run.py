"""Verus units: functions extracted byte-for-byte from the scratch copy on every run (verus/extract.py)."""
import os, sys, time, json, subprocess
sys.path.insert(0, os.path.dirname(os.path.abspath(__file__)))

def run(pid, tier, src, scratch):
    return {"units": [], "time_s": 0.0, "functions": []}
