//! Verification-only stand-in for `tracing` 0.1.41 (used only in the scratch copy that Kani compiles).
//! Event macros type-check their format arguments and evaluate nothing: `if false { format_args!(..) }`.
//! Reason: any reachable real `tracing` event macro makes the Kani 0.68 compiler ICE.
//! Consequence (stated in every evidence file): code reachable ONLY through log arguments is not verified.

#[macro_export]
macro_rules! __verif_event {
    ($($arg:tt)*) => {
        if false {
            let _ = ::core::format_args!($($arg)*);
        }
    };
}
#[macro_export]
macro_rules! warn { ($($arg:tt)*) => { $crate::__verif_event!($($arg)*) }; }
#[macro_export]
macro_rules! info { ($($arg:tt)*) => { $crate::__verif_event!($($arg)*) }; }
#[macro_export]
macro_rules! error { ($($arg:tt)*) => { $crate::__verif_event!($($arg)*) }; }
#[macro_export]
macro_rules! debug { ($($arg:tt)*) => { $crate::__verif_event!($($arg)*) }; }
#[macro_export]
macro_rules! trace { ($($arg:tt)*) => { $crate::__verif_event!($($arg)*) }; }

#[macro_export]
macro_rules! __verif_field {
    (? $v:expr) => { if false { let _ = ::core::format_args!("{:?}", $v); } };
    (% $v:expr) => { if false { let _ = ::core::format_args!("{}", $v); } };
    ($v:expr) => { if false { let _ = &$v; } };
}

#[macro_export]
macro_rules! info_span {
    ($name:expr) => { $crate::Span::none() };
    ($name:expr, $($rest:tt)*) => {{
        $crate::__verif_fields!($($rest)*);
        $crate::Span::none()
    }};
}
#[macro_export]
macro_rules! __verif_fields {
    () => {};
    (,) => {};
    ($k:tt = ? $v:expr) => { $crate::__verif_field!(? $v); };
    ($k:tt = % $v:expr) => { $crate::__verif_field!(% $v); };
    ($k:tt = $v:expr) => { $crate::__verif_field!($v); };
    ($k:tt = ? $v:expr, $($rest:tt)*) => { $crate::__verif_field!(? $v); $crate::__verif_fields!($($rest)*); };
    ($k:tt = % $v:expr, $($rest:tt)*) => { $crate::__verif_field!(% $v); $crate::__verif_fields!($($rest)*); };
    ($k:tt = $v:expr, $($rest:tt)*) => { $crate::__verif_field!($v); $crate::__verif_fields!($($rest)*); };
}

#[derive(Clone, Debug, Default)]
pub struct Span;
impl Span {
    pub fn none() -> Span { Span }
    pub fn current() -> Span { Span }
    pub fn enter(&self) -> Entered { Entered }
    pub fn entered(self) -> Entered { Entered }
    pub fn in_scope<F: FnOnce() -> T, T>(&self, f: F) -> T { f() }
}
pub struct Entered;

pub mod span { pub use super::Span; }

pub mod instrument {
    use core::future::Future;
    use core::pin::Pin;
    use core::task::{Context, Poll};
    pub struct Instrumented<T> { inner: T }
    impl<T: Future> Future for Instrumented<T> {
        type Output = T::Output;
        fn poll(self: Pin<&mut Self>, cx: &mut Context<'_>) -> Poll<Self::Output> {
            // structural pin projection of the only field
            let inner = unsafe { self.map_unchecked_mut(|s| &mut s.inner) };
            inner.poll(cx)
        }
    }
    pub trait Instrument: Sized {
        fn instrument(self, _span: super::Span) -> Instrumented<Self> { Instrumented { inner: self } }
        fn in_current_span(self) -> Instrumented<Self> { Instrumented { inner: self } }
    }
    impl<T: Sized> Instrument for T {}
}
pub use instrument::Instrument;

#[derive(Copy, Clone, Debug, PartialEq, Eq, PartialOrd, Ord)]
pub struct Level(u8);
impl Level {
    pub const ERROR: Level = Level(1);
    pub const WARN: Level = Level(2);
    pub const INFO: Level = Level(3);
    pub const DEBUG: Level = Level(4);
    pub const TRACE: Level = Level(5);
}
