    // C20 (hand-written): private conversion helpers of master/functions.rs that are not `impl From`.

    // @harness ids=C20,C01 tier=quick kind=proof package=dnp3-ffi units=dnp3-ffi::master::functions::convert_auto_time_sync,dnp3-ffi::master::functions::convert_event_classes,dnp3-ffi::master::functions::convert_classes timeout=60 note="association config legs: auto_time_sync none=>None (schema: 'Do not perform automatic time sync'), lan/non_lan/direct_write_abs_time=>Some(namesake); class0..3 flags land in their like-named fields"
    #[kani::proof]
    fn vk_c20_assoc_config_legs() {
        let k: u8 = kani::any();
        kani::assume(k < 4);
        let src = match k {
            0 => ffi::AutoTimeSync::None,
            1 => ffi::AutoTimeSync::Lan,
            2 => ffi::AutoTimeSync::NonLan,
            _ => ffi::AutoTimeSync::DirectWriteAbsTime,
        };
        match src {
            ffi::AutoTimeSync::None | ffi::AutoTimeSync::Lan | ffi::AutoTimeSync::NonLan | ffi::AutoTimeSync::DirectWriteAbsTime => (),
        }
        let out = convert_auto_time_sync(&src);
        assert!(match (k, out) {
            (0, None) => true,
            (1, Some(TimeSyncProcedure::Lan)) => true,
            (2, Some(TimeSyncProcedure::NonLan)) => true,
            (3, Some(TimeSyncProcedure::DirectWriteAbsTime)) => true,
            _ => false,
        });
        let c: [bool; 4] = kani::any();
        let e = convert_event_classes(&ffi::EventClasses { class1: c[1], class2: c[2], class3: c[3] });
        assert!(e.class1 == c[1] && e.class2 == c[2] && e.class3 == c[3]);
        let a = convert_classes(&ffi::Classes { class0: c[0], class1: c[1], class2: c[2], class3: c[3] });
        assert!(a.class0 == c[0] && a.events.class1 == c[1] && a.events.class2 == c[2] && a.events.class3 == c[3]);
        kani::cover!(k == 0 && c[0] && !c[1] && c[2] && !c[3]);
        kani::cover!(k == 3 && !c[0] && c[1] && !c[2] && c[3]);
    }
