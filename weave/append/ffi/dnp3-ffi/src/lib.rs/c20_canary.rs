
    // @harness ids=C20 tier=quick kind=canary package=dnp3-ffi units=none timeout=60 note="must FAIL"
    #[kani::proof]
    fn vk_c20_canary() {
        let x: u8 = kani::any();
        assert!(x != 7);
    }
