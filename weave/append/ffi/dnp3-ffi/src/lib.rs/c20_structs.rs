    // C20 (hand-written half): struct conversions of the binding crate.
    // Every field that exists on both sides must arrive bit-identical in its like-named field; enum-typed fields must
    // arrive as the like-named variant. Inputs are kani::any() over the full domain of the type (floats by bits).
    // Binding structs store enum fields as C ints; their type invariant (the int is a valid variant) is established by
    // building them from the generated `*Fields` structs, exactly as the generated FFI entry points do.
    // The enum-to-enum impls are covered by the GENERATED fragments c20_gen.rs (gen_ffi.py).

    use crate::ffi;
    use dnp3::app::measurement as nm;
    use dnp3::app::control as nc;
    use dnp3::outstation::database as ndb;

    const TS_MAX: u64 = 0x0000_FFFF_FFFF_FFFF; // DNP3 time is 48 bits (IEEE 1815, g50v1); native Timestamp invariant

    // ---------------------------------------------------------------------------------------------------------
    // helpers
    // ---------------------------------------------------------------------------------------------------------

    /// any binding Timestamp: returns (struct, raw value, quality index 0=invalid 1=synchronized 2=unsynchronized)
    fn any_ffi_timestamp() -> (ffi::Timestamp, u64, u8) {
        let value: u64 = kani::any();
        let q: u8 = kani::any();
        kani::assume(q < 3);
        let quality = match q {
            0 => ffi::TimeQuality::InvalidTime,
            1 => ffi::TimeQuality::SynchronizedTime,
            _ => ffi::TimeQuality::UnsynchronizedTime,
        };
        (ffi::TimestampFields { value, quality }.into(), value, q)
    }

    /// the native time is the namesake of the binding (value, quality) pair; value compared on the 48-bit DNP3 domain
    fn time_is_namesake(t: Option<nm::Time>, value: u64, q: u8) -> bool {
        match (q, t) {
            (0, None) => true,
            (1, Some(nm::Time::Synchronized(ts))) => ts.raw_value() == value,
            (2, Some(nm::Time::Unsynchronized(ts))) => ts.raw_value() == value,
            _ => false,
        }
    }

    /// any native Option<Time>: returns (time, raw value, quality index as above)
    fn any_native_time() -> (Option<nm::Time>, u64, u8) {
        let value: u64 = kani::any();
        kani::assume(value <= TS_MAX);
        let q: u8 = kani::any();
        kani::assume(q < 3);
        let t = match q {
            0 => None,
            1 => Some(nm::Time::Synchronized(dnp3::app::Timestamp::new(value))),
            _ => Some(nm::Time::Unsynchronized(dnp3::app::Timestamp::new(value))),
        };
        (t, value, q)
    }

    /// binding Timestamp is the namesake of the native time (the value of an invalid time is unspecified)
    fn ffi_time_is_namesake(t: &ffi::Timestamp, value: u64, q: u8) -> bool {
        match (q, t.quality()) {
            (0, ffi::TimeQuality::InvalidTime) => true,
            (1, ffi::TimeQuality::SynchronizedTime) => t.value() == value,
            (2, ffi::TimeQuality::UnsynchronizedTime) => t.value() == value,
            _ => false,
        }
    }

    fn any_native_command_status() -> (dnp3::app::control::CommandStatus, u8) {
        let k: u8 = kani::any();
        kani::assume(k < 4);
        let s = match k {
            0 => nc::CommandStatus::Success,
            1 => nc::CommandStatus::NotSupported,
            2 => nc::CommandStatus::DownstreamFail,
            _ => nc::CommandStatus::Unknown(kani::any()),
        };
        (s, k)
    }

    fn ffi_command_status_is_namesake(s: ffi::CommandStatus, k: u8) -> bool {
        match k {
            0 => s == ffi::CommandStatus::Success,
            1 => s == ffi::CommandStatus::NotSupported,
            2 => s == ffi::CommandStatus::DownstreamFail,
            _ => s == ffi::CommandStatus::Unknown,
        }
    }

    // ---------------------------------------------------------------------------------------------------------
    // Flags, Timestamp (three qualities)
    // ---------------------------------------------------------------------------------------------------------

    // @harness ids=C20,C01 tier=quick kind=proof package=dnp3-ffi units=dnp3-ffi::outstation::database::From<&ffi::Flags>for<Flags>,dnp3-ffi::handler::From<Flags>for<ffi::Flags> timeout=60 note="flags byte is copied bit-identical in both directions, all 256 values"
    #[kani::proof]
    fn vk_c20_flags() {
        let v: u8 = kani::any();
        let f = ffi::Flags { value: v };
        let n: nm::Flags = (&f).into();
        assert!(n.value == v);
        let back: ffi::Flags = n.into();
        assert!(back.value == v);
        kani::cover!(v == 0xFF);
        kani::cover!(v == 0);
    }

    // @harness ids=C20,C01 tier=quick kind=proof package=dnp3-ffi units=dnp3-ffi::outstation::database::From<&ffi::Timestamp>for<Option<Time>> timeout=60 note="binding timestamp -> native: invalid=>None, synchronized=>Time::Synchronized, unsynchronized=>Time::Unsynchronized, value identical on the 48-bit DNP3 time domain; no panic for any u64"
    #[kani::proof]
    fn vk_c20_time_from_ffi() {
        let (t, value, q) = any_ffi_timestamp();
        let n: Option<nm::Time> = (&t).into();
        // quality is mapped to its namesake for every u64 value
        assert!(match (q, n) {
            (0, None) => true,
            (1, Some(nm::Time::Synchronized(_))) => true,
            (2, Some(nm::Time::Unsynchronized(_))) => true,
            _ => false,
        });
        if value <= TS_MAX {
            assert!(time_is_namesake(n, value, q));
        }
        kani::cover!(q == 0);
        kani::cover!(q == 1 && value == TS_MAX);
        kani::cover!(q == 2 && value == 1);
        kani::cover!(value > TS_MAX);
    }

    // @harness ids=C20,C01 tier=quick kind=proof package=dnp3-ffi units=dnp3-ffi::handler::From<Option<Time>>for<ffi::Timestamp> timeout=60 note="native Option<Time> -> binding timestamp: None=>invalid_time, Synchronized=>synchronized_time, Unsynchronized=>unsynchronized_time, 48-bit value identical"
    #[kani::proof]
    fn vk_c20_time_to_ffi() {
        let (n, value, q) = any_native_time();
        let t: ffi::Timestamp = n.into();
        assert!(ffi_time_is_namesake(&t, value, q));
        // and back again (round trip through the binding is the identity on native times)
        let back: Option<nm::Time> = (&t).into();
        assert!(back == n);
        kani::cover!(q == 0);
        kani::cover!(q == 1 && value == TS_MAX);
        kani::cover!(q == 2 && value == 0);
    }

    // @harness ids=C20,C01 tier=quick kind=proof package=dnp3-ffi units=dnp3-ffi::master::functions::From<ffi::UtcTimestamp>for<Option<Timestamp>> timeout=60 note="utc timestamp: is_valid=false=>None, true=>Some(value) (48-bit domain)"
    #[kani::proof]
    fn vk_c20_utc_timestamp() {
        let value: u64 = kani::any();
        let is_valid: bool = kani::any();
        let out: Option<dnp3::app::Timestamp> = ffi::UtcTimestamp { value, is_valid }.into();
        assert!(out.is_some() == is_valid);
        if let Some(ts) = out {
            if value <= TS_MAX {
                assert!(ts.raw_value() == value);
            }
        }
        kani::cover!(is_valid && value == TS_MAX);
        kani::cover!(!is_valid);
    }

    // ---------------------------------------------------------------------------------------------------------
    // Measurements, binding -> native (database update path)
    // ---------------------------------------------------------------------------------------------------------

    macro_rules! meas_from_ffi {
        ($name:ident, $ffi:ident, $native:ident, $vty:ty, $mk:expr, $same:expr) => {
            #[kani::proof]
            fn $name() {
                let raw: $vty = kani::any();
                let flags: u8 = kani::any();
                let index: u16 = kani::any();
                let (time, tv, q) = any_ffi_timestamp();
                kani::assume(tv <= TS_MAX);
                let mk = $mk;
                let same = $same;
                let src = ffi::$ffi { index, value: mk(raw), flags: ffi::Flags { value: flags }, time };
                let out: nm::$native = src.into();
                assert!(same(out.value, raw), "value");
                assert!(out.flags.value == flags, "flags");
                assert!(time_is_namesake(out.time, tv, q), "time");
                kani::cover!(q == 0);
                kani::cover!(q == 1);
                kani::cover!(q == 2 && flags == 0x81);
            }
        };
    }

    // @harness ids=C20,C01 tier=quick kind=proof package=dnp3-ffi units=dnp3-ffi::outstation::database::From<ffi::BinaryInput>for<BinaryInput> timeout=60 note="value, flags, time (3 qualities) arrive identical"
    meas_from_ffi!(vk_c20_meas_binary_input, BinaryInput, BinaryInput, bool, |r: bool| r, |o: bool, r: bool| o == r);
    // @harness ids=C20,C01 tier=quick kind=proof package=dnp3-ffi units=dnp3-ffi::outstation::database::From<ffi::BinaryOutputStatus>for<BinaryOutputStatus> timeout=60 note="value, flags, time (3 qualities) arrive identical"
    meas_from_ffi!(vk_c20_meas_binary_output_status, BinaryOutputStatus, BinaryOutputStatus, bool, |r: bool| r, |o: bool, r: bool| o == r);
    // @harness ids=C20,C01 tier=quick kind=proof package=dnp3-ffi units=dnp3-ffi::outstation::database::From<ffi::Counter>for<Counter> timeout=60 note="value (u32), flags, time (3 qualities) arrive identical"
    meas_from_ffi!(vk_c20_meas_counter, Counter, Counter, u32, |r: u32| r, |o: u32, r: u32| o == r);
    // @harness ids=C20,C01 tier=quick kind=proof package=dnp3-ffi units=dnp3-ffi::outstation::database::From<ffi::FrozenCounter>for<FrozenCounter> timeout=60 note="value (u32), flags, time (3 qualities) arrive identical"
    meas_from_ffi!(vk_c20_meas_frozen_counter, FrozenCounter, FrozenCounter, u32, |r: u32| r, |o: u32, r: u32| o == r);
    // @harness ids=C20,C01 tier=quick kind=proof package=dnp3-ffi units=dnp3-ffi::outstation::database::From<ffi::AnalogInput>for<AnalogInput> timeout=60 note="value (f64, all bit patterns incl. NaN payloads), flags, time arrive bit-identical"
    meas_from_ffi!(vk_c20_meas_analog_input, AnalogInput, AnalogInput, u64, |r: u64| f64::from_bits(r), |o: f64, r: u64| o.to_bits() == r);
    // @harness ids=C20,C01 tier=quick kind=proof package=dnp3-ffi units=dnp3-ffi::outstation::database::From<ffi::AnalogOutputStatus>for<AnalogOutputStatus> timeout=60 note="value (f64, all bit patterns), flags, time arrive bit-identical"
    meas_from_ffi!(vk_c20_meas_analog_output_status, AnalogOutputStatus, AnalogOutputStatus, u64, |r: u64| f64::from_bits(r), |o: f64, r: u64| o.to_bits() == r);

    fn any_double_bit() -> (ffi::DoubleBit, nm::DoubleBit) {
        let k: u8 = kani::any();
        kani::assume(k < 4);
        match k {
            0 => (ffi::DoubleBit::Intermediate, nm::DoubleBit::Intermediate),
            1 => (ffi::DoubleBit::DeterminedOff, nm::DoubleBit::DeterminedOff),
            2 => (ffi::DoubleBit::DeterminedOn, nm::DoubleBit::DeterminedOn),
            _ => (ffi::DoubleBit::Indeterminate, nm::DoubleBit::Indeterminate),
        }
    }

    // @harness ids=C20,C01 tier=quick kind=proof package=dnp3-ffi units=dnp3-ffi::outstation::database::From<ffi::DoubleBitBinaryInput>for<DoubleBitBinaryInput> timeout=60 note="double-bit value maps to its namesake (4 variants), flags and time arrive identical"
    #[kani::proof]
    fn vk_c20_meas_double_bit_binary_input() {
        let (fv, nv) = any_double_bit();
        // exhaustiveness guard for the pairing table above
        match fv {
            ffi::DoubleBit::Intermediate | ffi::DoubleBit::DeterminedOff | ffi::DoubleBit::DeterminedOn | ffi::DoubleBit::Indeterminate => (),
        }
        let flags: u8 = kani::any();
        let index: u16 = kani::any();
        let (time, tv, q) = any_ffi_timestamp();
        kani::assume(tv <= TS_MAX);
        let src: ffi::DoubleBitBinaryInput =
            ffi::DoubleBitBinaryInputFields { index, value: fv, flags: ffi::Flags { value: flags }, time }.into();
        let out: nm::DoubleBitBinaryInput = src.into();
        assert!(out.value == nv);
        assert!(out.flags.value == flags);
        assert!(time_is_namesake(out.time, tv, q));
        kani::cover!(q == 0 && nv == nm::DoubleBit::Indeterminate);
        kani::cover!(q == 2 && nv == nm::DoubleBit::Intermediate);
    }

    // ---------------------------------------------------------------------------------------------------------
    // Measurements, native -> binding (master read-handler path): `ffi::X::new(index, native)`
    // ---------------------------------------------------------------------------------------------------------

    macro_rules! meas_to_ffi {
        ($name:ident, $ffi:ident, $native:ident, $vty:ty, $mk:expr, $same:expr) => {
            #[kani::proof]
            fn $name() {
                let raw: $vty = kani::any();
                let flags: u8 = kani::any();
                let index: u16 = kani::any();
                let (time, tv, q) = any_native_time();
                let mk = $mk;
                let same = $same;
                let src = nm::$native { value: mk(raw), flags: nm::Flags { value: flags }, time };
                let out = ffi::$ffi::new(index, src);
                assert!(out.index == index, "index");
                assert!(same(out.value, raw), "value");
                assert!(out.flags.value == flags, "flags");
                assert!(ffi_time_is_namesake(&out.time, tv, q), "time");
                kani::cover!(q == 0);
                kani::cover!(q == 1);
                kani::cover!(q == 2 && flags == 0x81 && index == 65535);
            }
        };
    }

    // @harness ids=C20,C01 tier=quick kind=proof package=dnp3-ffi units=dnp3-ffi::handler::ffi::BinaryInput::new timeout=60 note="native->binding: index, value, flags, time (3 qualities) identical"
    meas_to_ffi!(vk_c20_meas_binary_input_to_ffi, BinaryInput, BinaryInput, bool, |r: bool| r, |o: bool, r: bool| o == r);
    // @harness ids=C20,C01 tier=quick kind=proof package=dnp3-ffi units=dnp3-ffi::handler::ffi::BinaryOutputStatus::new timeout=60 note="native->binding: index, value, flags, time identical"
    meas_to_ffi!(vk_c20_meas_binary_output_status_to_ffi, BinaryOutputStatus, BinaryOutputStatus, bool, |r: bool| r, |o: bool, r: bool| o == r);
    // @harness ids=C20,C01 tier=quick kind=proof package=dnp3-ffi units=dnp3-ffi::handler::ffi::Counter::new,dnp3-ffi::handler::ffi::FrozenCounter::new timeout=60 note="native->binding: index, u32 value, flags, time identical (Counter; FrozenCounter in the sibling harness)"
    meas_to_ffi!(vk_c20_meas_counter_to_ffi, Counter, Counter, u32, |r: u32| r, |o: u32, r: u32| o == r);
    // @harness ids=C20,C01 tier=quick kind=proof package=dnp3-ffi units=dnp3-ffi::handler::ffi::FrozenCounter::new timeout=60 note="native->binding: index, u32 value, flags, time identical"
    meas_to_ffi!(vk_c20_meas_frozen_counter_to_ffi, FrozenCounter, FrozenCounter, u32, |r: u32| r, |o: u32, r: u32| o == r);
    // @harness ids=C20,C01 tier=quick kind=proof package=dnp3-ffi units=dnp3-ffi::handler::ffi::AnalogInput::new timeout=60 note="native->binding: index, f64 value bit-identical, flags, time identical"
    meas_to_ffi!(vk_c20_meas_analog_input_to_ffi, AnalogInput, AnalogInput, u64, |r: u64| f64::from_bits(r), |o: f64, r: u64| o.to_bits() == r);
    // @harness ids=C20,C01 tier=quick kind=proof package=dnp3-ffi units=dnp3-ffi::handler::ffi::FrozenAnalogInput::new timeout=60 note="native->binding: index, f64 value bit-identical, flags, time identical"
    meas_to_ffi!(vk_c20_meas_frozen_analog_input_to_ffi, FrozenAnalogInput, FrozenAnalogInput, u64, |r: u64| f64::from_bits(r), |o: f64, r: u64| o.to_bits() == r);
    // @harness ids=C20,C01 tier=quick kind=proof package=dnp3-ffi units=dnp3-ffi::handler::ffi::AnalogOutputStatus::new timeout=60 note="native->binding: index, f64 value bit-identical, flags, time identical"
    meas_to_ffi!(vk_c20_meas_analog_output_status_to_ffi, AnalogOutputStatus, AnalogOutputStatus, u64, |r: u64| f64::from_bits(r), |o: f64, r: u64| o.to_bits() == r);

    // @harness ids=C20,C01 tier=quick kind=proof package=dnp3-ffi units=dnp3-ffi::handler::ffi::DoubleBitBinaryInput::new,dnp3-ffi::handler::ffi::UnsignedInteger::new timeout=60 note="native->binding: double-bit value is the namesake, index/flags/time identical; UnsignedInteger index+value identical"
    #[kani::proof]
    fn vk_c20_meas_double_bit_binary_input_to_ffi() {
        let (fv, nv) = any_double_bit();
        let flags: u8 = kani::any();
        let index: u16 = kani::any();
        let (time, tv, q) = any_native_time();
        let out = ffi::DoubleBitBinaryInput::new(index, nm::DoubleBitBinaryInput { value: nv, flags: nm::Flags { value: flags }, time });
        assert!(out.index == index);
        assert!(out.value() == fv);
        assert!(out.flags.value == flags);
        assert!(ffi_time_is_namesake(&out.time, tv, q));
        let v: u8 = kani::any();
        let u = ffi::UnsignedInteger::new(index, nm::UnsignedInteger { value: v });
        assert!(u.index == index && u.value == v);
        kani::cover!(q == 1 && fv == ffi::DoubleBit::DeterminedOn);
        kani::cover!(q == 0 && fv == ffi::DoubleBit::Intermediate);
    }

    // @harness ids=C20,C01 tier=quick kind=proof package=dnp3-ffi units=dnp3-ffi::handler::ffi::BinaryOutputCommandEvent::new,dnp3-ffi::handler::ffi::AnalogOutputCommandEvent::new timeout=120 note="command events native->binding: index, status (namesake), commanded state / commanded value + its type tag (I16/I32/F32/F64 namesake; integer and f32 values widened to f64 exactly), time identical"
    #[kani::proof]
    fn vk_c20_command_events_to_ffi() {
        let index: u16 = kani::any();
        let (time, tv, q) = any_native_time();
        let (status, sk) = any_native_command_status();
        let state: bool = kani::any();
        let b = ffi::BinaryOutputCommandEvent::new(index, nm::BinaryOutputCommandEvent { commanded_state: state, status, time });
        assert!(b.index == index);
        assert!(b.commanded_state == state);
        assert!(ffi_command_status_is_namesake(b.status(), sk));
        assert!(ffi_time_is_namesake(&b.time, tv, q));

        let k: u8 = kani::any();
        kani::assume(k < 4);
        let bits: u64 = kani::any();
        let value = match k {
            0 => nm::AnalogCommandValue::I16(bits as i16),
            1 => nm::AnalogCommandValue::I32(bits as i32),
            2 => nm::AnalogCommandValue::F32(f32::from_bits(bits as u32)),
            _ => nm::AnalogCommandValue::F64(f64::from_bits(bits)),
        };
        let a = ffi::AnalogOutputCommandEvent::new(index, nm::AnalogOutputCommandEvent { status, commanded_value: value, time });
        assert!(a.index == index);
        assert!(ffi_command_status_is_namesake(a.status(), sk));
        assert!(ffi_time_is_namesake(&a.time, tv, q));
        match k {
            0 => {
                assert!(a.command_type() == ffi::AnalogCommandType::I16);
                assert!(a.commanded_value == (bits as i16) as f64 && a.commanded_value as i16 == bits as i16);
            }
            1 => {
                assert!(a.command_type() == ffi::AnalogCommandType::I32);
                assert!(a.commanded_value as i32 == bits as i32);
            }
            2 => {
                assert!(a.command_type() == ffi::AnalogCommandType::F32);
                let f = f32::from_bits(bits as u32);
                // widening f32 -> f64 is exact: narrowing back gives the same value (NaN stays NaN)
                assert!((a.commanded_value as f32).to_bits() == f.to_bits() || (f.is_nan() && a.commanded_value.is_nan()));
            }
            _ => {
                assert!(a.command_type() == ffi::AnalogCommandType::F64);
                assert!(a.commanded_value.to_bits() == bits);
            }
        }
        kani::cover!(k == 0 && q == 0);
        kani::cover!(k == 1 && q == 1);
        kani::cover!(k == 2 && sk == 3);
        kani::cover!(k == 3 && state);
    }

    // ---------------------------------------------------------------------------------------------------------
    // UpdateOptions / UpdateInfo
    // ---------------------------------------------------------------------------------------------------------

    // @harness ids=C20,C01 tier=quick kind=proof package=dnp3-ffi units=dnp3-ffi::outstation::database::From<ffi::UpdateOptions>for<UpdateOptions>,dnp3-ffi::outstation::database::update_options_default timeout=60 note="update options: update_static identical, event mode detect/force/suppress maps to its namesake; native fields are private, so the result is compared byte-wise with UpdateOptions::new(same args); the binding default equals the native default"
    #[kani::proof]
    fn vk_c20_update_options() {
        let update_static: bool = kani::any();
        let k: u8 = kani::any();
        kani::assume(k < 3);
        let (fm, nmode) = match k {
            0 => (ffi::EventMode::Detect, ndb::EventMode::Detect),
            1 => (ffi::EventMode::Force, ndb::EventMode::Force),
            _ => (ffi::EventMode::Suppress, ndb::EventMode::Suppress),
        };
        match fm {
            ffi::EventMode::Detect | ffi::EventMode::Force | ffi::EventMode::Suppress => (),
        }
        let src: ffi::UpdateOptions = ffi::UpdateOptionsFields { update_static, event_mode: fm }.into();
        let out: ndb::UpdateOptions = src.into();
        let expect = ndb::UpdateOptions::new(update_static, nmode);
        // same type, no padding (bool + fieldless enum): equal bytes <=> equal fields
        let a: [u8; 2] = unsafe { std::mem::transmute(out) };
        let b: [u8; 2] = unsafe { std::mem::transmute(expect) };
        assert!(a == b);
        // distinct arguments give distinct bytes (the byte view really observes both fields)
        let other: [u8; 2] = unsafe { std::mem::transmute(ndb::UpdateOptions::new(!update_static, nmode)) };
        assert!(other != b);
        let d: [u8; 2] = unsafe { std::mem::transmute::<ndb::UpdateOptions, _>(crate::update_options_default().into()) };
        let nd: [u8; 2] = unsafe { std::mem::transmute(ndb::UpdateOptions::default()) };
        assert!(d == nd);
        kani::cover!(k == 0 && update_static);
        kani::cover!(k == 1 && !update_static);
        kani::cover!(k == 2);
    }

    // @harness ids=C20,C01 tier=quick kind=proof package=dnp3-ffi units=dnp3-ffi::outstation::database::From<UpdateInfo>for<ffi::UpdateInfo> timeout=60 note="update info: NoPoint/NoEvent/Created/Overflow map to the like-named update_result; created and discarded ids identical"
    #[kani::proof]
    fn vk_c20_update_info() {
        let created: u64 = kani::any();
        let discarded: u64 = kani::any();
        let k: u8 = kani::any();
        kani::assume(k < 4);
        let src = match k {
            0 => ndb::UpdateInfo::NoPoint,
            1 => ndb::UpdateInfo::NoEvent,
            2 => ndb::UpdateInfo::Created(created),
            _ => ndb::UpdateInfo::Overflow { created, discarded },
        };
        match src {
            ndb::UpdateInfo::NoPoint | ndb::UpdateInfo::NoEvent | ndb::UpdateInfo::Created(_) | ndb::UpdateInfo::Overflow { .. } => (),
        }
        let out: ffi::UpdateInfo = src.into();
        match k {
            0 => assert!(out.result() == ffi::UpdateResult::NoPoint),
            1 => assert!(out.result() == ffi::UpdateResult::NoEvent),
            2 => assert!(out.result() == ffi::UpdateResult::Created && out.created == created),
            _ => assert!(out.result() == ffi::UpdateResult::Overflow && out.created == created && out.discarded == discarded),
        }
        kani::cover!(k == 0);
        kani::cover!(k == 1);
        kani::cover!(k == 2 && created == u64::MAX);
        kani::cover!(k == 3 && discarded == 1);
    }

    // ---------------------------------------------------------------------------------------------------------
    // Point configurations: static variation, event variation (each to its namesake), deadband
    // ---------------------------------------------------------------------------------------------------------

    macro_rules! cfg_harness {
        ($name:ident, $ffi:ident, $native:ident,
         $sty:ident [$($sv:ident),+], $ety:ident [$($ev:ident),+], $dbty:ty, $build:expr, $dbsame:expr) => {
            #[kani::proof]
            fn $name() {
                let fs = [$(ffi::$sty::$sv),+];
                let ns = [$(ndb::$sty::$sv),+];
                let fe = [$(ffi::$ety::$ev),+];
                let ne = [$(ndb::$ety::$ev),+];
                // the namesake lists are complete (no wildcard arm)
                fn gs(x: ffi::$sty) { match x { $(ffi::$sty::$sv => ()),+ } }
                fn ge(x: ffi::$ety) { match x { $(ffi::$ety::$ev => ()),+ } }
                let si: usize = kani::any();
                let ei: usize = kani::any();
                kani::assume(si < fs.len() && ei < fe.len());
                gs(fs[si]);
                ge(fe[ei]);
                let raw: $dbty = kani::any();
                let build = $build;
                let same = $dbsame;
                let src: ffi::$ffi = build(fs[si], fe[ei], raw);
                let out: ndb::$native = src.into();
                assert!(out.s_var == ns[si], "static variation");
                assert!(out.e_var == ne[ei], "event variation");
                assert!(same(&out, raw), "deadband");
                kani::cover!(si == 0 && ei == 0);
                kani::cover!(si + 1 == fs.len() && ei + 1 == fe.len());
            }
        };
    }

    // @harness ids=C20,C01 tier=quick kind=proof package=dnp3-ffi units=dnp3-ffi::outstation::database::From<ffi::BinaryInputConfig>for<BinaryInputConfig> timeout=60 note="static and event variation map to their namesakes (all combinations)"
    cfg_harness!(vk_c20_cfg_binary_input, BinaryInputConfig, BinaryInputConfig,
        StaticBinaryInputVariation [Group1Var1, Group1Var2], EventBinaryInputVariation [Group2Var1, Group2Var2, Group2Var3], u8,
        |s, e, _r: u8| ffi::BinaryInputConfigFields { static_variation: s, event_variation: e }.into(),
        |_o: &ndb::BinaryInputConfig, _r: u8| true);
    // @harness ids=C20,C01 tier=quick kind=proof package=dnp3-ffi units=dnp3-ffi::outstation::database::From<ffi::DoubleBitBinaryInputConfig>for<DoubleBitBinaryInputConfig> timeout=60 note="static and event variation map to their namesakes (all combinations)"
    cfg_harness!(vk_c20_cfg_double_bit_binary_input, DoubleBitBinaryInputConfig, DoubleBitBinaryInputConfig,
        StaticDoubleBitBinaryInputVariation [Group3Var1, Group3Var2], EventDoubleBitBinaryInputVariation [Group4Var1, Group4Var2, Group4Var3], u8,
        |s, e, _r: u8| ffi::DoubleBitBinaryInputConfigFields { static_variation: s, event_variation: e }.into(),
        |_o: &ndb::DoubleBitBinaryInputConfig, _r: u8| true);
    // @harness ids=C20,C01 tier=quick kind=proof package=dnp3-ffi units=dnp3-ffi::outstation::database::From<ffi::BinaryOutputStatusConfig>for<BinaryOutputStatusConfig> timeout=60 note="static and event variation map to their namesakes (all combinations)"
    cfg_harness!(vk_c20_cfg_binary_output_status, BinaryOutputStatusConfig, BinaryOutputStatusConfig,
        StaticBinaryOutputStatusVariation [Group10Var1, Group10Var2], EventBinaryOutputStatusVariation [Group11Var1, Group11Var2], u8,
        |s, e, _r: u8| ffi::BinaryOutputStatusConfigFields { static_variation: s, event_variation: e }.into(),
        |_o: &ndb::BinaryOutputStatusConfig, _r: u8| true);
    // @harness ids=C20,C01 tier=quick kind=proof package=dnp3-ffi units=dnp3-ffi::outstation::database::From<ffi::CounterConfig>for<CounterConfig> timeout=60 note="static and event variation map to their namesakes, u32 deadband identical"
    cfg_harness!(vk_c20_cfg_counter, CounterConfig, CounterConfig,
        StaticCounterVariation [Group20Var1, Group20Var2, Group20Var5, Group20Var6], EventCounterVariation [Group22Var1, Group22Var2, Group22Var5, Group22Var6], u32,
        |s, e, r: u32| ffi::CounterConfigFields { static_variation: s, event_variation: e, deadband: r }.into(),
        |o: &ndb::CounterConfig, r: u32| o.deadband == r);
    // @harness ids=C20,C01 tier=quick kind=proof package=dnp3-ffi units=dnp3-ffi::outstation::database::From<ffi::FrozenCounterConfig>for<FrozenCounterConfig> timeout=60 note="static and event variation map to their namesakes, u32 deadband identical"
    cfg_harness!(vk_c20_cfg_frozen_counter, FrozenCounterConfig, FrozenCounterConfig,
        StaticFrozenCounterVariation [Group21Var1, Group21Var2, Group21Var5, Group21Var6, Group21Var9, Group21Var10],
        EventFrozenCounterVariation [Group23Var1, Group23Var2, Group23Var5, Group23Var6], u32,
        |s, e, r: u32| ffi::FrozenCounterConfigFields { static_variation: s, event_variation: e, deadband: r }.into(),
        |o: &ndb::FrozenCounterConfig, r: u32| o.deadband == r);
    // @harness ids=C20,C01 tier=quick kind=proof package=dnp3-ffi units=dnp3-ffi::outstation::database::From<ffi::AnalogInputConfig>for<AnalogInputConfig> timeout=60 note="static and event variation map to their namesakes, f64 deadband bit-identical"
    cfg_harness!(vk_c20_cfg_analog_input, AnalogInputConfig, AnalogInputConfig,
        StaticAnalogInputVariation [Group30Var1, Group30Var2, Group30Var3, Group30Var4, Group30Var5, Group30Var6],
        EventAnalogInputVariation [Group32Var1, Group32Var2, Group32Var3, Group32Var4, Group32Var5, Group32Var6, Group32Var7, Group32Var8], u64,
        |s, e, r: u64| ffi::AnalogInputConfigFields { static_variation: s, event_variation: e, deadband: f64::from_bits(r) }.into(),
        |o: &ndb::AnalogInputConfig, r: u64| o.deadband.to_bits() == r);
    // @harness ids=C20,C01 tier=quick kind=proof package=dnp3-ffi units=dnp3-ffi::outstation::database::From<ffi::AnalogOutputStatusConfig>for<AnalogOutputStatusConfig> timeout=60 note="static and event variation map to their namesakes, f64 deadband bit-identical"
    cfg_harness!(vk_c20_cfg_analog_output_status, AnalogOutputStatusConfig, AnalogOutputStatusConfig,
        StaticAnalogOutputStatusVariation [Group40Var1, Group40Var2, Group40Var3, Group40Var4],
        EventAnalogOutputStatusVariation [Group42Var1, Group42Var2, Group42Var3, Group42Var4, Group42Var5, Group42Var6, Group42Var7, Group42Var8], u64,
        |s, e, r: u64| ffi::AnalogOutputStatusConfigFields { static_variation: s, event_variation: e, deadband: f64::from_bits(r) }.into(),
        |o: &ndb::AnalogOutputStatusConfig, r: u64| o.deadband.to_bits() == r);

    // ---------------------------------------------------------------------------------------------------------
    // Control code / CROB
    // ---------------------------------------------------------------------------------------------------------

    fn any_tcc() -> (ffi::TripCloseCode, nc::TripCloseCode) {
        let k: u8 = kani::any();
        kani::assume(k < 4);
        match k {
            0 => (ffi::TripCloseCode::Nul, nc::TripCloseCode::Nul),
            1 => (ffi::TripCloseCode::Close, nc::TripCloseCode::Close),
            2 => (ffi::TripCloseCode::Trip, nc::TripCloseCode::Trip),
            _ => (ffi::TripCloseCode::Reserved, nc::TripCloseCode::Reserved),
        }
    }

    fn any_op_type() -> (ffi::OpType, nc::OpType) {
        let k: u8 = kani::any();
        kani::assume(k < 5);
        match k {
            0 => (ffi::OpType::Nul, nc::OpType::Nul),
            1 => (ffi::OpType::PulseOn, nc::OpType::PulseOn),
            2 => (ffi::OpType::PulseOff, nc::OpType::PulseOff),
            3 => (ffi::OpType::LatchOn, nc::OpType::LatchOn),
            _ => (ffi::OpType::LatchOff, nc::OpType::LatchOff),
        }
    }

    fn guard_control_enums(t: ffi::TripCloseCode, o: ffi::OpType) {
        match t {
            ffi::TripCloseCode::Nul | ffi::TripCloseCode::Close | ffi::TripCloseCode::Trip | ffi::TripCloseCode::Reserved => (),
        }
        match o {
            ffi::OpType::Nul | ffi::OpType::PulseOn | ffi::OpType::PulseOff | ffi::OpType::LatchOn | ffi::OpType::LatchOff => (),
        }
    }

    // @harness ids=C20,C01 tier=quick kind=proof package=dnp3-ffi units=dnp3-ffi::command::From<ffi::ControlCode>for<ControlCode> timeout=60 note="binding->native control code: tcc and op_type map to their namesakes (4x5), clear and queue bits identical"
    #[kani::proof]
    fn vk_c20_control_code_from_ffi() {
        let (ft, nt) = any_tcc();
        let (fo, no) = any_op_type();
        guard_control_enums(ft, fo);
        let clear: bool = kani::any();
        let queue: bool = kani::any();
        let src: ffi::ControlCode = ffi::ControlCodeFields { tcc: ft, clear, queue, op_type: fo }.into();
        let out: nc::ControlCode = src.into();
        assert!(out.tcc == nt && out.op_type == no && out.clear == clear && out.queue == queue);
        kani::cover!(nt == nc::TripCloseCode::Reserved && no == nc::OpType::LatchOff && clear && queue);
        kani::cover!(nt == nc::TripCloseCode::Nul && no == nc::OpType::Nul && !clear && !queue);
    }

    // @harness ids=C20,C01 tier=quick kind=proof package=dnp3-ffi units=dnp3-ffi::outstation::adapters::From<ControlCode>for<ffi::ControlCode> timeout=60 note="native->binding control code for every value that has a binding namesake (tcc 4 x op_type 5): namesakes, clear/queue identical. Native Unknown(_) has no binding variant (see generated harness control_enums_to_ffi / EXCEPTIONS)"
    #[kani::proof]
    fn vk_c20_control_code_to_ffi() {
        let (ft, nt) = any_tcc();
        let (fo, no) = any_op_type();
        let clear: bool = kani::any();
        let queue: bool = kani::any();
        let out: ffi::ControlCode = nc::ControlCode { tcc: nt, clear, queue, op_type: no }.into();
        assert!(out.tcc() == ft && out.op_type() == fo && out.clear == clear && out.queue == queue);
        kani::cover!(ft == ffi::TripCloseCode::Trip && fo == ffi::OpType::PulseOn && clear);
        kani::cover!(ft == ffi::TripCloseCode::Close && fo == ffi::OpType::LatchOn && queue);
    }

    // @harness ids=C20,C01 tier=quick kind=proof package=dnp3-ffi units=dnp3-ffi::command::From<ffi::Group12Var1>for<Group12Var1> timeout=60 note="binding->native CROB: code (namesakes), count, on_time, off_time identical"
    #[kani::proof]
    fn vk_c20_g12v1_from_ffi() {
        let (ft, nt) = any_tcc();
        let (fo, no) = any_op_type();
        let clear: bool = kani::any();
        let queue: bool = kani::any();
        let count: u8 = kani::any();
        let on_time: u32 = kani::any();
        let off_time: u32 = kani::any();
        let code: ffi::ControlCode = ffi::ControlCodeFields { tcc: ft, clear, queue, op_type: fo }.into();
        let out: nc::Group12Var1 = ffi::Group12Var1 { code, count, on_time, off_time }.into();
        assert!(out.code == nc::ControlCode { tcc: nt, clear, queue, op_type: no });
        assert!(out.count == count && out.on_time == on_time && out.off_time == off_time);
        kani::cover!(count == 255 && on_time == u32::MAX && off_time == 1);
        kani::cover!(count == 0 && queue);
    }

    // @harness ids=C20,C01 tier=quick kind=proof package=dnp3-ffi units=dnp3-ffi::outstation::adapters::From<Group12Var1>for<ffi::Group12Var1> timeout=60 note="native->binding CROB (outstation control handler): code (namesakes), count, on_time, off_time identical; the native status field has no binding counterpart"
    #[kani::proof]
    fn vk_c20_g12v1_to_ffi() {
        let (ft, nt) = any_tcc();
        let (fo, no) = any_op_type();
        let clear: bool = kani::any();
        let queue: bool = kani::any();
        let count: u8 = kani::any();
        let on_time: u32 = kani::any();
        let off_time: u32 = kani::any();
        let mut g = nc::Group12Var1::new(nc::ControlCode { tcc: nt, clear, queue, op_type: no }, count, on_time, off_time);
        g.status = any_native_command_status().0;
        let out: ffi::Group12Var1 = g.into();
        assert!(out.code.tcc() == ft && out.code.op_type() == fo && out.code.clear == clear && out.code.queue == queue);
        assert!(out.count == count && out.on_time == on_time && out.off_time == off_time);
        kani::cover!(count == 255 && on_time == 1 && off_time == u32::MAX);
        kani::cover!(clear && queue);
    }

    // ---------------------------------------------------------------------------------------------------------
    // Decode levels, headers, IIN
    // ---------------------------------------------------------------------------------------------------------

    // @harness ids=C20,C01 tier=quick kind=proof package=dnp3-ffi units=dnp3-ffi::decoding::From<ffi::DecodeLevel>for<DecodeLevel>,dnp3-ffi::decoding::From<DecodeLevel>for<ffi::DecodeLevel> timeout=60 note="decode level struct: each of the four layer levels lands in its like-named field (field-wise equal to the separately proved enum conversion), both directions, round trip is the identity"
    #[kani::proof]
    fn vk_c20_decode_level() {
        use dnp3::decode as nd;
        let a: u8 = kani::any();
        let t: u8 = kani::any();
        let l: u8 = kani::any();
        let p: u8 = kani::any();
        kani::assume(a < 4 && t < 3 && l < 3 && p < 3);
        let fa = [ffi::AppDecodeLevel::Nothing, ffi::AppDecodeLevel::Header, ffi::AppDecodeLevel::ObjectHeaders, ffi::AppDecodeLevel::ObjectValues];
        let na = [nd::AppDecodeLevel::Nothing, nd::AppDecodeLevel::Header, nd::AppDecodeLevel::ObjectHeaders, nd::AppDecodeLevel::ObjectValues];
        let ft = [ffi::TransportDecodeLevel::Nothing, ffi::TransportDecodeLevel::Header, ffi::TransportDecodeLevel::Payload];
        let nt = [nd::TransportDecodeLevel::Nothing, nd::TransportDecodeLevel::Header, nd::TransportDecodeLevel::Payload];
        let fl = [ffi::LinkDecodeLevel::Nothing, ffi::LinkDecodeLevel::Header, ffi::LinkDecodeLevel::Payload];
        let nl = [nd::LinkDecodeLevel::Nothing, nd::LinkDecodeLevel::Header, nd::LinkDecodeLevel::Payload];
        let fp = [ffi::PhysDecodeLevel::Nothing, ffi::PhysDecodeLevel::Length, ffi::PhysDecodeLevel::Data];
        let np = [nd::PhysDecodeLevel::Nothing, nd::PhysDecodeLevel::Length, nd::PhysDecodeLevel::Data];
        let (a, t, l, p) = (a as usize, t as usize, l as usize, p as usize);
        let src: ffi::DecodeLevel = ffi::DecodeLevelFields { application: fa[a], transport: ft[t], link: fl[l], physical: fp[p] }.into();
        let out: nd::DecodeLevel = src.into();
        assert!(out.application == na[a] && out.transport == nt[t] && out.link == nl[l] && out.physical == np[p]);
        let back: ffi::DecodeLevel = nd::DecodeLevel { application: na[a], transport: nt[t], link: nl[l], physical: np[p] }.into();
        assert!(back.application() == fa[a] && back.transport() == ft[t] && back.link() == fl[l] && back.physical() == fp[p]);
        kani::cover!(a == 3 && t == 2 && l == 2 && p == 2);
        kani::cover!(a == 0 && t == 1 && l == 0 && p == 1);
    }

    // @harness ids=C20,C01 tier=quick kind=proof package=dnp3-ffi units=dnp3-ffi::handler::From<Iin1>for<ffi::Iin1>,dnp3-ffi::handler::From<Iin2>for<ffi::Iin2> timeout=60 note="IIN bytes: each of the 16 bits lands in its like-named bool (bit positions per IEEE 1815 table 4-3), all 65536 values"
    #[kani::proof]
    fn vk_c20_iin() {
        let b1: u8 = kani::any();
        let b2: u8 = kani::any();
        let i1: ffi::Iin1 = dnp3::app::Iin1::new(b1).into();
        let i2: ffi::Iin2 = dnp3::app::Iin2::new(b2).into();
        let bit = |v: u8, n: u8| v & (1 << n) != 0;
        assert!(i1.broadcast == bit(b1, 0));
        assert!(i1.class_1_events == bit(b1, 1));
        assert!(i1.class_2_events == bit(b1, 2));
        assert!(i1.class_3_events == bit(b1, 3));
        assert!(i1.need_time == bit(b1, 4));
        assert!(i1.local_control == bit(b1, 5));
        assert!(i1.device_trouble == bit(b1, 6));
        assert!(i1.device_restart == bit(b1, 7));
        assert!(i2.no_func_code_support == bit(b2, 0));
        assert!(i2.object_unknown == bit(b2, 1));
        assert!(i2.parameter_error == bit(b2, 2));
        assert!(i2.event_buffer_overflow == bit(b2, 3));
        assert!(i2.already_executing == bit(b2, 4));
        assert!(i2.config_corrupt == bit(b2, 5));
        assert!(i2.reserved_2 == bit(b2, 6));
        assert!(i2.reserved_1 == bit(b2, 7));
        kani::cover!(b1 == 0x80 && b2 == 0x01);
        kani::cover!(b1 == 0xFF && b2 == 0xFF);
    }

    fn any_native_control_field() -> dnp3::app::ControlField {
        dnp3::app::ControlField { fir: kani::any(), fin: kani::any(), con: kani::any(), uns: kani::any(), seq: kani::any() }
    }

    fn control_field_same(f: &ffi::ControlField, n: &dnp3::app::ControlField) -> bool {
        f.fir == n.fir && f.fin == n.fin && f.con == n.con && f.uns == n.uns && f.seq == n.seq.value()
    }

    // @harness ids=C20,C01 tier=quick kind=proof package=dnp3-ffi units=dnp3-ffi::handler::From<ResponseHeader>for<ffi::ResponseHeader> timeout=60 note="response header: control field (fir/fin/con/uns/seq), function (response / unsolicited_response namesake) and both IIN bytes arrive identical"
    #[kani::proof]
    fn vk_c20_response_header() {
        let control = any_native_control_field();
        let uns: bool = kani::any();
        let function = if uns { dnp3::app::ResponseFunction::UnsolicitedResponse } else { dnp3::app::ResponseFunction::Response };
        match function {
            dnp3::app::ResponseFunction::Response | dnp3::app::ResponseFunction::UnsolicitedResponse => (),
        }
        let b1: u8 = kani::any();
        let b2: u8 = kani::any();
        let iin = dnp3::app::Iin::new(dnp3::app::Iin1::new(b1), dnp3::app::Iin2::new(b2));
        let out: ffi::ResponseHeader = dnp3::app::ResponseHeader { control, function, iin }.into();
        assert!(control_field_same(&out.control_field, &control));
        assert!(out.func() == if uns { ffi::ResponseFunction::UnsolicitedResponse } else { ffi::ResponseFunction::Response });
        assert!(out.iin.iin1.device_restart == (b1 & 0x80 != 0) && out.iin.iin1.broadcast == (b1 & 1 != 0));
        assert!(out.iin.iin2.no_func_code_support == (b2 & 1 != 0) && out.iin.iin2.reserved_1 == (b2 & 0x80 != 0));
        kani::cover!(uns && control.seq.value() == 15);
        kani::cover!(!uns && control.fir && !control.fin);
    }

    // @harness ids=C20,C01 tier=quick kind=proof package=dnp3-ffi units=dnp3-ffi::outstation::adapters::From<RequestHeader>for<ffi::RequestHeader>,dnp3-ffi::outstation::adapters::From<ControlField>for<ffi::ControlField> timeout=60 note="request header: control field bits + 4-bit sequence identical, function code is the separately proved namesake"
    #[kani::proof]
    fn vk_c20_request_header() {
        let control = any_native_control_field();
        let k: u8 = kani::any();
        kani::assume(k < 3);
        let (nf, ff) = match k {
            0 => (dnp3::app::FunctionCode::Read, ffi::FunctionCode::Read),
            1 => (dnp3::app::FunctionCode::DirectOperateNoResponse, ffi::FunctionCode::DirectOperateNoResponse),
            _ => (dnp3::app::FunctionCode::AbortFile, ffi::FunctionCode::AbortFile),
        };
        let cf: ffi::ControlField = control.into();
        assert!(control_field_same(&cf, &control));
        let out: ffi::RequestHeader = dnp3::app::RequestHeader { control, function: nf }.into();
        assert!(control_field_same(&out.control_field, &control));
        assert!(out.function() == ff);
        kani::cover!(k == 2 && control.seq.value() == 15 && control.uns);
        kani::cover!(k == 0 && control.seq.value() == 0);
    }

    // @harness ids=C20,C01 tier=quick kind=proof package=dnp3-ffi units=dnp3-ffi::handler::From<HeaderInfo>for<ffi::HeaderInfo>,dnp3-ffi::handler::From<AttrItem>for<ffi::AttrItem> timeout=120 note="object header info: qualifier code maps to its namesake (8 variants), is_event/has_flags identical, variation is the separately proved namesake; attribute item: variation byte and writable property identical"
    #[kani::proof]
    fn vk_c20_header_info() {
        use dnp3::app::QualifierCode as Q;
        let qi: usize = kani::any();
        let nq = [Q::Range8, Q::Range16, Q::AllObjects, Q::Count8, Q::Count16, Q::CountAndPrefix8, Q::CountAndPrefix16, Q::FreeFormat16];
        let fq = [ffi::QualifierCode::Range8, ffi::QualifierCode::Range16, ffi::QualifierCode::AllObjects, ffi::QualifierCode::Count8,
                  ffi::QualifierCode::Count16, ffi::QualifierCode::CountAndPrefix8, ffi::QualifierCode::CountAndPrefix16, ffi::QualifierCode::FreeFormat16];
        kani::assume(qi < nq.len());
        match nq[qi] {
            Q::Range8 | Q::Range16 | Q::AllObjects | Q::Count8 | Q::Count16 | Q::CountAndPrefix8 | Q::CountAndPrefix16 | Q::FreeFormat16 => (),
        }
        let vk: u8 = kani::any();
        kani::assume(vk < 3);
        let (nv, fv) = match vk {
            0 => (dnp3::app::Variation::Group1Var2, ffi::Variation::Group1Var2),
            1 => (dnp3::app::Variation::Group32Var8, ffi::Variation::Group32Var8),
            _ => (dnp3::app::Variation::Group110(kani::any()), ffi::Variation::Group110),
        };
        let is_event: bool = kani::any();
        let has_flags: bool = kani::any();
        let out: ffi::HeaderInfo = dnp3::master::HeaderInfo { variation: nv, qualifier: nq[qi], is_event, has_flags }.into();
        assert!(out.variation() == fv);
        assert!(out.qualifier() == fq[qi]);
        assert!(out.is_event == is_event && out.has_flags == has_flags);

        let var: u8 = kani::any();
        let writable: bool = kani::any();
        let properties = if writable { dnp3::app::attr::AttrProp::writable() } else { dnp3::app::attr::AttrProp::default() };
        let item: ffi::AttrItem = dnp3::app::attr::AttrItem { variation: var, properties }.into();
        assert!(item.variation == var && item.properties.is_writable == writable);
        kani::cover!(qi == 7 && vk == 2 && is_event && !has_flags);
        kani::cover!(qi == 0 && vk == 0 && writable && var == 255);
    }

    // ---------------------------------------------------------------------------------------------------------
    // Outstation configuration structs and application callbacks
    // ---------------------------------------------------------------------------------------------------------

    // @harness ids=C20,C01 tier=quick kind=proof package=dnp3-ffi units=dnp3-ffi::outstation::struct_constructors::From<EventBufferConfig>for<ffi::EventBufferConfig>,dnp3-ffi::outstation::From<&ffi::EventBufferConfig>for<EventBufferConfig> timeout=60 note="event buffer sizes: each of the 8 per-type maxima lands in its like-named field (max_double_bit_binary <-> max_double_binary), both directions"
    #[kani::proof]
    fn vk_c20_event_buffer_config() {
        let v: [u16; 8] = kani::any();
        let f = ffi::EventBufferConfig {
            max_binary: v[0], max_double_bit_binary: v[1], max_binary_output_status: v[2], max_counter: v[3],
            max_frozen_counter: v[4], max_analog: v[5], max_analog_output_status: v[6], max_octet_string: v[7],
        };
        let n: ndb::EventBufferConfig = (&f).into();
        assert!(n.max_binary == v[0] && n.max_double_binary == v[1] && n.max_binary_output_status == v[2] && n.max_counter == v[3]);
        assert!(n.max_frozen_counter == v[4] && n.max_analog == v[5] && n.max_analog_output_status == v[6] && n.max_octet_string == v[7]);
        let b: ffi::EventBufferConfig = n.into();
        assert!(b.max_binary == v[0] && b.max_double_bit_binary == v[1] && b.max_binary_output_status == v[2] && b.max_counter == v[3]);
        assert!(b.max_frozen_counter == v[4] && b.max_analog == v[5] && b.max_analog_output_status == v[6] && b.max_octet_string == v[7]);
        kani::cover!(v[0] == 1 && v[1] == 2 && v[2] == 3 && v[3] == 4 && v[4] == 5 && v[5] == 6 && v[6] == 7 && v[7] == 8);
    }

    // @harness ids=C20,C01 tier=quick kind=proof package=dnp3-ffi units=dnp3-ffi::outstation::From<ffi::ClassZeroConfig>for<ClassZeroConfig>,dnp3-ffi::outstation::From<&ffi::OutstationFeatures>for<Features>,dnp3-ffi::outstation::adapters::From<ffi::ApplicationIin>for<ApplicationIin> timeout=60 note="class-0 inclusion flags (8) land in their like-named fields; feature switches (4): true=>Enabled, false=>Disabled in the like-named field; application IIN bits (4) land in their like-named fields"
    #[kani::proof]
    fn vk_c20_outstation_bool_structs() {
        let v: [bool; 8] = kani::any();
        let f = ffi::ClassZeroConfig {
            binary: v[0], double_bit_binary: v[1], binary_output_status: v[2], counter: v[3],
            frozen_counter: v[4], analog: v[5], analog_output_status: v[6], octet_string: v[7],
        };
        let n: ndb::ClassZeroConfig = f.into();
        assert!(n.binary == v[0] && n.double_bit_binary == v[1] && n.binary_output_status == v[2] && n.counter == v[3]);
        assert!(n.frozen_counter == v[4] && n.analog == v[5] && n.analog_output_status == v[6] && n.octet_string == v[7]);

        use dnp3::outstation::Feature;
        let f = ffi::OutstationFeatures { self_address: v[0], broadcast: v[1], unsolicited: v[2], respond_to_any_master: v[3] };
        let n: dnp3::outstation::Features = (&f).into();
        let e = |b: bool| if b { Feature::Enabled } else { Feature::Disabled };
        assert!(n.self_address == e(v[0]) && n.broadcast == e(v[1]) && n.unsolicited == e(v[2]) && n.respond_to_any_master == e(v[3]));

        let f = ffi::ApplicationIin { need_time: v[4], local_control: v[5], device_trouble: v[6], config_corrupt: v[7] };
        let n: dnp3::outstation::ApplicationIin = f.into();
        assert!(n.need_time == v[4] && n.local_control == v[5] && n.device_trouble == v[6] && n.config_corrupt == v[7]);
        kani::cover!(v[0] && !v[1] && v[2] && !v[3] && v[4] && !v[5] && v[6] && !v[7]);
        kani::cover!(!v[0] && v[1] && !v[2] && v[3] && !v[4] && v[5] && !v[6] && v[7]);
    }

    // @harness ids=C20,C01 tier=quick kind=proof package=dnp3-ffi units=dnp3-ffi::outstation::adapters::From<ffi::RestartDelay>for<Option<RestartDelay>>,dnp3-ffi::outstation::struct_constructors::From<Option<RestartDelay>>for<ffi::RestartDelay> timeout=60 note="restart delay: not_supported<=>None (schema: 'Restart mode not supported'), seconds<=>Seconds, milli_seconds<=>Milliseconds, u16 value identical, both directions"
    #[kani::proof]
    fn vk_c20_restart_delay() {
        use dnp3::outstation::RestartDelay as R;
        let value: u16 = kani::any();
        let k: u8 = kani::any();
        kani::assume(k < 3);
        let ft = match k {
            0 => ffi::RestartDelayType::NotSupported,
            1 => ffi::RestartDelayType::Seconds,
            _ => ffi::RestartDelayType::MilliSeconds,
        };
        match ft {
            ffi::RestartDelayType::NotSupported | ffi::RestartDelayType::Seconds | ffi::RestartDelayType::MilliSeconds => (),
        }
        let src: ffi::RestartDelay = ffi::RestartDelayFields { restart_type: ft, value }.into();
        let n: Option<R> = src.into();
        assert!(match (k, n) {
            (0, None) => true,
            (1, Some(R::Seconds(v))) => v == value,
            (2, Some(R::Milliseconds(v))) => v == value,
            _ => false,
        });
        let back: ffi::RestartDelay = n.into();
        assert!(back.restart_type() == ft);
        assert!(k == 0 || back.value == value);
        kani::cover!(k == 0);
        kani::cover!(k == 1 && value == 65535);
        kani::cover!(k == 2 && value == 1);
    }

    // @harness ids=C20 tier=quick kind=proof package=dnp3-ffi units=dnp3-ffi::outstation::adapters::From<BufferState>for<ffi::BufferState>,dnp3-ffi::outstation::adapters::From<ClassCount>for<ffi::ClassCount>,dnp3-ffi::outstation::adapters::From<TypeCount>for<ffi::TypeCount> timeout=60 note="event buffer state: the 3 per-class and 8 per-type counts land in their like-named fields, identical for every count that fits the binding's u32 (buffer capacities are u16 per type, so counts are < 2^19)"
    #[kani::proof]
    fn vk_c20_buffer_state() {
        let c: [u32; 3] = kani::any();
        let t: [u32; 8] = kani::any();
        let classes = dnp3::outstation::ClassCount { num_class_1: c[0] as usize, num_class_2: c[1] as usize, num_class_3: c[2] as usize };
        let types = dnp3::outstation::TypeCount {
            num_binary_input: t[0] as usize, num_double_bit_binary_input: t[1] as usize, num_binary_output_status: t[2] as usize,
            num_counter: t[3] as usize, num_frozen_counter: t[4] as usize, num_analog: t[5] as usize,
            num_analog_output_status: t[6] as usize, num_octet_string: t[7] as usize,
        };
        let out: ffi::BufferState = dnp3::outstation::BufferState { classes, types }.into();
        assert!(out.classes.num_class_1 == c[0] && out.classes.num_class_2 == c[1] && out.classes.num_class_3 == c[2]);
        assert!(out.types.num_binary_input == t[0] && out.types.num_double_bit_binary_input == t[1] && out.types.num_binary_output_status == t[2]);
        assert!(out.types.num_counter == t[3] && out.types.num_frozen_counter == t[4] && out.types.num_analog == t[5]);
        assert!(out.types.num_analog_output_status == t[6] && out.types.num_octet_string == t[7]);
        kani::cover!(c[0] == 1 && c[1] == 2 && c[2] == 3 && t[0] == 4 && t[1] == 5 && t[2] == 6 && t[3] == 7 && t[4] == 8 && t[5] == 9 && t[6] == 10 && t[7] == 11);
    }

    // ---------------------------------------------------------------------------------------------------------
    // Master side plain-copy structs
    // ---------------------------------------------------------------------------------------------------------

    fn any_ffi_permission_set() -> (ffi::PermissionSet, [bool; 3]) {
        let v: [bool; 3] = kani::any();
        (ffi::PermissionSet { execute: v[0], write: v[1], read: v[2] }, v)
    }

    // @harness ids=C20,C01 tier=quick kind=proof package=dnp3-ffi units=dnp3-ffi::master::functions::From<ffi::PermissionSet>for<PermissionSet>,dnp3-ffi::master::futures::From<PermissionSet>for<ffi::PermissionSet>,dnp3-ffi::master::functions::From<ffi::Permissions>for<Permissions> timeout=60 note="permission set: execute/write/read land in their like-named fields, both directions; binding->native permissions: world/group/owner sets land in their like-named fields"
    #[kani::proof]
    fn vk_c20_permissions_from_ffi() {
        let (f, v) = any_ffi_permission_set();
        let n: dnp3::app::PermissionSet = f.into();
        assert!(n.execute == v[0] && n.write == v[1] && n.read == v[2]);
        let b: ffi::PermissionSet = n.into();
        assert!(b.execute == v[0] && b.write == v[1] && b.read == v[2]);

        let (w, wv) = any_ffi_permission_set();
        let (g, gv) = any_ffi_permission_set();
        let (o, ov) = any_ffi_permission_set();
        let n: dnp3::app::Permissions = ffi::Permissions { world: w, group: g, owner: o }.into();
        let same = |p: dnp3::app::PermissionSet, v: [bool; 3]| p.execute == v[0] && p.write == v[1] && p.read == v[2];
        assert!(same(n.world, wv), "world");
        assert!(same(n.group, gv), "group");
        assert!(same(n.owner, ov), "owner");
        kani::cover!(v[0] && !v[1] && !v[2]);
        kani::cover!(wv[0] && !gv[0] && ov[2] && !wv[2]);
    }

    // @harness ids=C20,C01 tier=quick kind=proof package=dnp3-ffi units=dnp3-ffi::master::futures::From<Permissions>for<ffi::Permissions> timeout=60 note="native->binding permissions (file info reported to the user): world/group/owner sets must land in their like-named fields"
    #[kani::proof]
    fn vk_c20_permissions_to_ffi() {
        let wv: [bool; 3] = kani::any();
        let gv: [bool; 3] = kani::any();
        let ov: [bool; 3] = kani::any();
        let mk = |v: [bool; 3]| dnp3::app::PermissionSet { execute: v[0], write: v[1], read: v[2] };
        let out: ffi::Permissions = dnp3::app::Permissions { world: mk(wv), group: mk(gv), owner: mk(ov) }.into();
        let same = |p: &ffi::PermissionSet, v: [bool; 3]| p.execute == v[0] && p.write == v[1] && p.read == v[2];
        assert!(same(&out.world, wv), "world");
        assert!(same(&out.group, gv), "group");
        assert!(same(&out.owner, ov), "owner");
        kani::cover!(wv[0] && !gv[0] && ov[2] && !wv[2]);
    }

    // @harness ids=C20,C01 tier=quick kind=proof package=dnp3-ffi units=dnp3-ffi::master::functions::From<ffi::FileReadConfig>for<FileReadConfig>,dnp3-ffi::master::functions::From<ffi::DirReadConfig>for<DirReadConfig>,dnp3-ffi::master::futures::From<OpenFile>for<ffi::OpenFile> timeout=60 note="file/dir read config: max_block_size and max_file_size identical (u32 widened to usize); open file: handle, size, block size identical"
    #[kani::proof]
    fn vk_c20_file_read_config() {
        let bs: u16 = kani::any();
        let fs: u32 = kani::any();
        let f: dnp3::master::FileReadConfig = ffi::FileReadConfig { max_block_size: bs, max_file_size: fs }.into();
        assert!(f.max_block_size == bs && f.max_file_size as u64 == fs as u64);
        let d: dnp3::master::DirReadConfig = ffi::DirReadConfig { max_block_size: bs, max_file_size: fs }.into();
        assert!(d.max_block_size == bs && d.max_file_size as u64 == fs as u64);
        let h: u32 = kani::any();
        let o: ffi::OpenFile = dnp3::master::OpenFile { file_handle: dnp3::master::FileHandle::new(h), file_size: fs, max_block_size: bs }.into();
        assert!(o.file_handle == h && o.file_size == fs && o.max_block_size == bs);
        kani::cover!(bs == 65535 && fs == u32::MAX && h == 7);
        kani::cover!(bs == 0 && fs == 0);
    }

    /// Stand-in for `Duration::from_millis` (64-bit division by 1000, intractable when two copies must be proved equal):
    /// an injective bit-split. Injectivity is all the field-pairing argument needs: two Durations built by it are
    /// equal iff the millisecond counts are equal. std's own arithmetic is trusted.
    fn stub_from_millis(ms: u64) -> std::time::Duration {
        std::time::Duration::new(ms >> 20, (ms & 0xF_FFFF) as u32)
    }

    // @harness ids=C20,C01 tier=quick kind=proof stubs=1 package=dnp3-ffi units=dnp3-ffi::master::functions::From<ffi::RetryStrategy>for<RetryStrategy>,dnp3-ffi::master::functions::From<ffi::ConnectStrategy>for<ConnectStrategy> timeout=120 note="retry strategy (min_delay, max_delay) and connect strategy (min_connect_delay, max_connect_delay, reconnect_delay): each millisecond count of the binding arrives, as Duration::from_millis(count), in the like-named native field, all u64 values. Native fields are crate-private: read through a [Duration;N] view whose slot order is learned from Strategy::new(1ms,2ms[,3ms]). Duration::from_millis is replaced by an injective stand-in (std arithmetic trusted)"
    #[kani::proof]
    #[kani::stub(std::time::Duration::from_millis, stub_from_millis)]
    fn vk_c20_retry_connect_strategy() {
        use std::time::Duration;
        let ms = |x: u64| Duration::from_millis(x);
        // which slot of the view holds which field
        let probe: [Duration; 2] = unsafe { std::mem::transmute(dnp3::app::RetryStrategy::new(ms(1), ms(2))) };
        let imin = if probe[0] == ms(1) { 0 } else { 1 };
        assert!(probe[imin] == ms(1) && probe[1 - imin] == ms(2));
        let min_ms: u64 = kani::any();
        let max_ms: u64 = kani::any();
        let out: dnp3::app::RetryStrategy = ffi::RetryStrategy { min_delay: min_ms, max_delay: max_ms }.into();
        let a: [Duration; 2] = unsafe { std::mem::transmute(out) };
        assert!(a[imin] == ms(min_ms), "min_delay");
        assert!(a[1 - imin] == ms(max_ms), "max_delay");

        let probe: [Duration; 3] = unsafe { std::mem::transmute(dnp3::app::ConnectStrategy::new(ms(1), ms(2), ms(3))) };
        let find = |d: Duration| if probe[0] == d { 0 } else if probe[1] == d { 1 } else { 2 };
        let (i1, i2, i3) = (find(ms(1)), find(ms(2)), find(ms(3)));
        assert!(probe[i1] == ms(1) && probe[i2] == ms(2) && probe[i3] == ms(3));
        let r_ms: u64 = kani::any();
        let out: dnp3::app::ConnectStrategy = ffi::ConnectStrategy { min_connect_delay: min_ms, max_connect_delay: max_ms, reconnect_delay: r_ms }.into();
        let c: [Duration; 3] = unsafe { std::mem::transmute(out) };
        assert!(c[i1] == ms(min_ms), "min_connect_delay");
        assert!(c[i2] == ms(max_ms), "max_connect_delay");
        assert!(c[i3] == ms(r_ms), "reconnect_delay");
        kani::cover!(min_ms == 1000 && max_ms == 10_000 && r_ms == 1);
        kani::cover!(min_ms == u64::MAX && max_ms == 0);
    }

    // ---------------------------------------------------------------------------------------------------------
    // Errors that cross the boundary as constants / integers
    // ---------------------------------------------------------------------------------------------------------

    // @harness ids=C20,C01 tier=quick kind=proof package=dnp3-ffi units=dnp3-ffi::From<RuntimeError>for<c_int> timeout=60 note="runtime error as C int = the integer of the like-named param_error (via the proved RuntimeError->ParamError map)"
    #[kani::proof]
    fn vk_c20_runtime_error_int() {
        let k: u8 = kani::any();
        kani::assume(k < 3);
        let (e, p) = match k {
            0 => (crate::runtime::RuntimeError::RuntimeDestroyed, ffi::ParamError::RuntimeDestroyed),
            1 => (crate::runtime::RuntimeError::CannotBlockWithinAsync, ffi::ParamError::RuntimeCannotBlockWithinAsync),
            _ => (crate::runtime::RuntimeError::FailedToCreateRuntime, ffi::ParamError::RuntimeCreationFailure),
        };
        let i: std::os::raw::c_int = e.into();
        let pi: std::os::raw::c_int = p.into();
        assert!(i == pi);
        assert!(ffi::ParamError::from(i) == p);
        kani::cover!(k == 0);
        kani::cover!(k == 2);
    }

    // @harness ids=C20,C01 tier=quick kind=proof package=dnp3-ffi units=dnp3-ffi::From<Shutdown>for<ffi::ParamError>,dnp3-ffi::master::functions::From<SpecialAddressError>for<ffi::ParamError> timeout=60 note="Shutdown => master_already_shutdown ('Master was already shutdown'); SpecialAddressError => invalid_dnp3_address ('Invalid link-layer DNP3 address') for every reserved address"
    #[kani::proof]
    fn vk_c20_const_errors() {
        let p: ffi::ParamError = dnp3::app::Shutdown.into();
        assert!(p == ffi::ParamError::MasterAlreadyShutdown);
        let address: u16 = kani::any();
        let q: ffi::ParamError = dnp3::link::SpecialAddressError { address }.into();
        assert!(q == ffi::ParamError::InvalidDnp3Address);
        // and the error really is what the native constructor produces for reserved addresses
        if let Err(e) = dnp3::link::EndpointAddress::try_new(address) {
            let r: ffi::ParamError = e.into();
            assert!(r == ffi::ParamError::InvalidDnp3Address);
            kani::cover!(address == 0xFFFF);
        }
        kani::cover!(address == 1024);
    }
