    use crate::verif_spec as spec;
    use crate::app::parse::range::verif_kani_c09_range::any_range;

    // @harness ids=C09,C01 tier=thorough kind=proof units=app::gen::ranged::RangedVariation::parse_non_read timeout=300 note="arm g110vN with N symbolic, every range, 63 bytes available: variant g110 with the same N, N*count bytes consumed; Err without consuming if they are absent or N = 0 (zero-length strings off)"
    #[kani::proof]
    fn vk_c09_arm_ranged_g110vx() {
        const L: usize = 64;
        let buf = [0u8; L];
        let range = any_range();
        let x: u8 = kani::any();
        let options = ParseOptions { parse_zero_length_strings: kani::any() };
        let q = if kani::any() { QualifierCode::Range8 } else { QualifierCode::Range16 };
        let mut c = ReadCursor::new(&buf);
        assert!(c.read_u8().is_ok());
        let need = x as usize * range.get_count();
        match RangedVariation::parse_non_read(Variation::Group110(x), q, range, options, &mut c) {
            Ok(RangedVariation::Group110VarX(n, seq)) => {
                assert!(n == x && need <= L - 1 && (x != 0 || options.parse_zero_length_strings));
                assert!(c.position() == 1 + need);
                assert!(seq.iter().size_hint() == (range.get_count(), Some(range.get_count())));
                kani::cover!(x == 63 && range.get_count() == 1);
                kani::cover!(x == 0);
            }
            Ok(_) => assert!(false),
            Err(_) => {
                assert!(need > L - 1 || (x == 0 && !options.parse_zero_length_strings));
                assert!(c.position() == 1);
                kani::cover!(x == 0);
                kani::cover!(x == 255);
            }
        }
    }
