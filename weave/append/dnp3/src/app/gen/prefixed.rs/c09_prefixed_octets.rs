    use crate::verif_spec as spec;

    fn g111_arm<I: FixedSize + Index + std::fmt::Display>(p: usize) {
        const L: usize = 64;
        let buf = [0u8; L];
        let count: u16 = kani::any();
        let x: u8 = kani::any();
        let options = ParseOptions { parse_zero_length_strings: kani::any() };
        let mut c = ReadCursor::new(&buf);
        assert!(c.read_u8().is_ok());
        let need = (x as usize + p) * count as usize;
        match PrefixedVariation::<I>::parse(Variation::Group111(x), count, options, &mut c) {
            Ok(PrefixedVariation::Group111VarX(n, seq)) => {
                assert!(n == x && need <= L - 1 && (x != 0 || options.parse_zero_length_strings));
                assert!(c.position() == 1 + need);
                assert!(seq.iter().size_hint() == (count as usize, Some(count as usize)));
                kani::cover!(x == 5 && count == 2);
                kani::cover!(x == 0);
            }
            Ok(_) => assert!(false),
            Err(_) => {
                assert!(need > L - 1 || (x == 0 && !options.parse_zero_length_strings));
                assert!(c.position() == 1);
                kani::cover!(x == 0);
                kani::cover!(x == 255);
            }
        }
    }

    // @harness ids=C09,C01 tier=thorough kind=proof units=app::gen::prefixed::PrefixedVariation::parse timeout=300 note="arm g111vN with N symbolic, every count, u8 and u16 index, 63 bytes available: variant g111 with the same N, (index+N)*count bytes consumed; Err without consuming if absent or N = 0 (zero-length strings off)"
    #[kani::proof]
    fn vk_c09_arm_prefixed_g111vx() {
        g111_arm::<u8>(1);
        g111_arm::<u16>(2);
    }
