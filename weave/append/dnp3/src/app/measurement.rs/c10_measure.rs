    // C10: analog narrowing (AnalogConversions), wire flag octet of binary / double-bit points, 48-bit time arithmetic.
    // Shared generators and checkers used by the other C10 fragments are `pub(crate)` here.
    use crate::verif_spec as spec;
    use std::time::Duration;

    // ------------------------------------------------------------------ generators (full domain, no assumptions)

    /// any of None / Synchronized(t) / Unsynchronized(t) for every 48-bit t (Timestamp::new masks to 48 bits, so every
    /// u64 maps onto the whole 48-bit domain)
    pub(crate) fn any_time() -> Option<Time> {
        let k: u8 = kani::any();
        let raw: u64 = kani::any();
        match k % 3 {
            0 => None,
            1 => Some(Time::Synchronized(Timestamp::new(raw))),
            _ => Some(Time::Unsynchronized(Timestamp::new(raw))),
        }
    }

    /// all 2^64 bit patterns: finite, subnormal, -0.0, infinities, every NaN payload
    pub(crate) fn any_f64() -> f64 {
        f64::from_bits(kani::any::<u64>())
    }

    pub(crate) fn any_double_bit() -> DoubleBit {
        let k: u8 = kani::any();
        match k & 3 {
            0 => DoubleBit::Intermediate,
            1 => DoubleBit::DeterminedOff,
            2 => DoubleBit::DeterminedOn,
            _ => DoubleBit::Indeterminate,
        }
    }

    /// state code of the standard (Annex A g3/g4): 0 intermediate, 1 determined off, 2 determined on, 3 indeterminate
    pub(crate) fn double_bit_code(d: DoubleBit) -> u8 {
        match d {
            DoubleBit::Intermediate => 0,
            DoubleBit::DeterminedOff => 1,
            DoubleBit::DeterminedOn => 2,
            DoubleBit::Indeterminate => 3,
        }
    }

    // ------------------------------------------------------------------ checkers for "database value -> variation -> handler value"

    /// time as delivered versus time as stored, for a variation with time capability `cap` (0 none, 1 absolute 48 bit).
    /// An absolute-time object carries the 48-bit count only (no synchronisation quality on the wire, no "absent" code):
    /// a stored time arrives with exactly the same count; a variation without time delivers no time.
    pub(crate) fn check_time(cap: u8, stored: Option<Time>, got: Option<Time>) {
        if cap == 0 {
            assert!(got.is_none(), "C10 time: a variation without time field must deliver time None");
        } else {
            match stored {
                Some(t) => match got {
                    Some(g) => assert!(
                        g.timestamp().raw_value() == t.timestamp().raw_value(),
                        "C10 time: absolute 48-bit time must arrive unchanged"
                    ),
                    None => assert!(false, "C10 time: a variation with time field must deliver the stored time"),
                },
                None => {} // nothing stored: the variation cannot say "no time"; only absence of panics is required
            }
        }
    }

    /// flags as delivered for a value-carrying (non state-in-flags) object
    pub(crate) fn check_plain_flags(caps: spec::VarCaps, stored: u8, over: bool, got: u8) {
        if caps.flags {
            assert!(
                got == spec::flags_after_narrowing(stored, over),
                "C10 flags: every flag bit untouched, OVER_RANGE added iff the value is outside the target range"
            );
        } else {
            assert!(
                got == spec::implied_flags_without_octet(),
                "C10 flags: a variation without flag octet implies ONLINE and nothing else"
            );
        }
    }

    /// analog value + flags as delivered (rv, rf) for stored (v, f) through a variation of capability `caps`.
    /// `wire_nan_flags`: for a NaN sent through an INTEGER variation the obligation "flagged OVER_RANGE" is discharged on the
    /// conversion function itself (harnesses vk_c10_nan_to_i16_* / vk_c10_nan_to_i32_*, defect D4); here the pair is
    /// only required to deliver exactly what that conversion function produced (`conv` = its result widened to f64 / its flags).
    pub(crate) fn check_analog(caps: spec::VarCaps, v: f64, f: u8, rv: f64, rf: u8, conv_nan: Option<(f64, u8)>) {
        let is_nan = v != v;
        if caps.kind == spec::K_F64 {
            assert!(rv.to_bits() == v.to_bits(), "C10 value: a double arrives bit-identical");
            check_plain_flags(caps, f, false, rf);
        } else if caps.kind == spec::K_F32 {
            let (x, over) = spec::sat_f32(v);
            if is_nan {
                assert!(rv != rv, "C10 value: NaN stays NaN in single precision");
            } else {
                assert!(rv.to_bits() == (x as f64).to_bits(), "C10 value: single precision = saturated / correctly rounded value");
            }
            assert!(over == spec::outside_f32(v));
            check_plain_flags(caps, f, over, rf);
        } else if caps.kind == spec::K_I32 || caps.kind == spec::K_I16 {
            let wide = caps.kind == spec::K_I32;
            let (sat, over) = if wide {
                let (s, o) = spec::sat_i32(v);
                (s as f64, o)
            } else {
                let (s, o) = spec::sat_i16(v);
                (s as f64, o)
            };
            assert!(over == if wide { spec::outside_i32(v) } else { spec::outside_i16(v) });
            if is_nan {
                match conv_nan {
                    Some((cv, cf)) => {
                        assert!(rv.to_bits() == cv.to_bits(), "C10 value: pair delivers what the conversion function produced");
                        if caps.flags {
                            assert!(rf == cf, "C10 flags: pair delivers the flags the conversion function produced");
                        } else {
                            assert!(rf == spec::implied_flags_without_octet());
                        }
                    }
                    None => assert!(false),
                }
            } else {
                if over {
                    assert!(rv == sat, "C10 value: outside the range => saturated to the nearer end (never wrapped / sign-flipped)");
                } else {
                    assert!(spec::int_close(v, rv), "C10 value: inside the range => less than one count away");
                    let (lo, hi) = if wide { (-2147483648.0f64, 2147483647.0f64) } else { (-32768.0f64, 32767.0f64) };
                    assert!(rv >= lo && rv <= hi);
                }
                check_plain_flags(caps, f, over, rf);
            }
        } else {
            assert!(false, "C10: not an analog variation");
        }
    }

    /// counter value + flags as delivered
    pub(crate) fn check_counter(caps: spec::VarCaps, v: u32, f: u8, rv: u32, rf: u8) {
        if caps.kind == spec::K_U32 {
            assert!(rv == v, "C10 value: 32-bit counter arrives unchanged");
        } else if caps.kind == spec::K_U16 {
            assert!(rv == spec::counter_low16(v) as u32, "C10 value: 16-bit counter variation keeps the low 16 bits");
        } else {
            assert!(false, "C10: not a counter variation");
        }
        check_plain_flags(caps, f, false, rf);
    }

    // ------------------------------------------------------------------ AnalogConversions::{to_i16,to_i32,to_f32}

    // to_i16 / to_i32, all real (non-NaN) inputs incl. infinities: saturated + flagged iff outside
    macro_rules! c10_to_int_real {
        ($name:ident, $M:ident, $conv:ident, $sat:ident, $outside:ident, $lo:expr, $hi:expr) => {
            #[kani::proof]
            fn $name() {
                let v = any_f64();
                // @assume: domain split, the complement (v is NaN) is harness vk_c10_nan_* below
                kani::assume(v == v);
                let f: u8 = kani::any();
                let m = $M { value: v, flags: Flags::new(f), time: any_time() };
                let (fl, r) = m.$conv();
                let (s, over) = spec::$sat(v);
                assert!(over == spec::$outside(v));
                assert!(fl.value == spec::flags_after_narrowing(f, over), "C10: OVER_RANGE set iff outside the target range, other flags untouched");
                if over {
                    assert!(r == s, "C10: saturated to the nearer end of the range");
                } else {
                    assert!(spec::int_close(v, r as f64), "C10: in range => less than one count away");
                }
                // source object untouched
                assert!(m.value.to_bits() == v.to_bits() && m.flags.value == f);
                kani::cover!(over && r == $lo && f & 0x20 == 0);
                kani::cover!(over && r == $hi);
                kani::cover!(!over && r == $hi);
                kani::cover!(!over && r == $lo);
                kani::cover!(!over && f & 0x20 != 0 && fl.value == f);
                kani::cover!(!over && r == 0 && v.to_bits() == 0x8000_0000_0000_0000u64);
                kani::cover!(v == f64::INFINITY);
                kani::cover!(v == f64::NEG_INFINITY);
            }
        };
    }

    // to_i16 / to_i32 on NaN: "a non-representable analog is saturated and flagged OVER_RANGE" - a NaN is outside every
    // integer range, so the flag must be raised (the value field is not constrained). EXPECTED TO FAIL on the pinned tree (D4).
    macro_rules! c10_to_int_nan {
        ($name:ident, $M:ident, $conv:ident, $outside:ident) => {
            #[kani::proof]
            fn $name() {
                let v = any_f64();
                // @assume: domain split, the complement (v is not NaN) is harness vk_c10_to_*_real_*
                kani::assume(v != v);
                let f: u8 = kani::any();
                let m = $M { value: v, flags: Flags::new(f), time: any_time() };
                let (fl, _r) = m.$conv();
                assert!(spec::$outside(v));
                assert!(
                    fl.value == spec::flags_after_narrowing(f, true),
                    "C10/D4: NaN sent through an integer variation must be flagged OVER_RANGE (other flags untouched)"
                );
                kani::cover!(f & 0x20 == 0);
                kani::cover!(f == 0x01);
            }
        };
    }

    macro_rules! c10_to_f32 {
        ($name:ident, $M:ident) => {
            #[kani::proof]
            fn $name() {
                let v = any_f64();
                let f: u8 = kani::any();
                let m = $M { value: v, flags: Flags::new(f), time: any_time() };
                let (fl, r) = m.to_f32();
                let (s, over) = spec::sat_f32(v);
                assert!(over == spec::outside_f32(v));
                assert!(fl.value == spec::flags_after_narrowing(f, over), "C10: OVER_RANGE set iff outside the single-precision range");
                if v != v {
                    assert!(r != r, "C10: NaN stays NaN");
                } else {
                    assert!(r.to_bits() == s.to_bits(), "C10: saturated / correctly rounded single");
                }
                kani::cover!(over && r == f32::MAX);
                kani::cover!(over && r == f32::MIN);
                kani::cover!(!over && r == f32::MAX);
                kani::cover!(!over && r.to_bits() == 0x8000_0000u32);
                kani::cover!(v != v);
                kani::cover!(v == f64::INFINITY && over);
                kani::cover!(!over && r == 0.0 && v != 0.0); // underflow to zero is rounding, not range
            }
        };
    }

    // @harness ids=C10,C01 tier=quick kind=proof units=app::measurement::AnalogConversions::to_i16 timeout=300 note="AnalogInput.to_i16, every non-NaN f64 x every flag octet: clamp to [-32768,32767], OVER_RANGE iff outside, other flags untouched, in range less than one count away"
    c10_to_int_real!(vk_c10_to_i16_real_analog_input, AnalogInput, to_i16, sat_i16, outside_i16, i16::MIN, i16::MAX);
    // @harness ids=C10,C01 tier=quick kind=proof units=app::measurement::AnalogConversions::to_i32 timeout=300 note="AnalogInput.to_i32, every non-NaN f64 x every flag octet: clamp to the i32 range, OVER_RANGE iff outside, other flags untouched"
    c10_to_int_real!(vk_c10_to_i32_real_analog_input, AnalogInput, to_i32, sat_i32, outside_i32, i32::MIN, i32::MAX);
    // @harness ids=C10,C01 tier=thorough kind=proof units=app::measurement::AnalogConversions::to_i16 timeout=300 note="FrozenAnalogInput.to_i16, non-NaN domain"
    c10_to_int_real!(vk_c10_to_i16_real_frozen_analog_input, FrozenAnalogInput, to_i16, sat_i16, outside_i16, i16::MIN, i16::MAX);
    // @harness ids=C10,C01 tier=thorough kind=proof units=app::measurement::AnalogConversions::to_i32 timeout=300 note="FrozenAnalogInput.to_i32, non-NaN domain"
    c10_to_int_real!(vk_c10_to_i32_real_frozen_analog_input, FrozenAnalogInput, to_i32, sat_i32, outside_i32, i32::MIN, i32::MAX);
    // @harness ids=C10,C01 tier=thorough kind=proof units=app::measurement::AnalogConversions::to_i16 timeout=300 note="AnalogOutputStatus.to_i16, non-NaN domain"
    c10_to_int_real!(vk_c10_to_i16_real_analog_output_status, AnalogOutputStatus, to_i16, sat_i16, outside_i16, i16::MIN, i16::MAX);
    // @harness ids=C10,C01 tier=thorough kind=proof units=app::measurement::AnalogConversions::to_i32 timeout=300 note="AnalogOutputStatus.to_i32, non-NaN domain"
    c10_to_int_real!(vk_c10_to_i32_real_analog_output_status, AnalogOutputStatus, to_i32, sat_i32, outside_i32, i32::MIN, i32::MAX);

    // @harness ids=C10,C01 tier=quick kind=proof units=app::measurement::AnalogConversions::to_i16 timeout=300 note="D4: AnalogInput.to_i16 on every NaN payload x every flag octet must raise OVER_RANGE (property: non-representable => saturated and flagged)"
    c10_to_int_nan!(vk_c10_nan_to_i16_analog_input, AnalogInput, to_i16, outside_i16);
    // @harness ids=C10,C01 tier=quick kind=proof units=app::measurement::AnalogConversions::to_i32 timeout=300 note="D4: AnalogInput.to_i32 on NaN must raise OVER_RANGE"
    c10_to_int_nan!(vk_c10_nan_to_i32_analog_input, AnalogInput, to_i32, outside_i32);
    // @harness ids=C10,C01 tier=thorough kind=proof units=app::measurement::AnalogConversions::to_i16 timeout=300 note="D4: FrozenAnalogInput.to_i16 on NaN must raise OVER_RANGE"
    c10_to_int_nan!(vk_c10_nan_to_i16_frozen_analog_input, FrozenAnalogInput, to_i16, outside_i16);
    // @harness ids=C10,C01 tier=thorough kind=proof units=app::measurement::AnalogConversions::to_i32 timeout=300 note="D4: FrozenAnalogInput.to_i32 on NaN must raise OVER_RANGE"
    c10_to_int_nan!(vk_c10_nan_to_i32_frozen_analog_input, FrozenAnalogInput, to_i32, outside_i32);
    // @harness ids=C10,C01 tier=thorough kind=proof units=app::measurement::AnalogConversions::to_i16 timeout=300 note="D4: AnalogOutputStatus.to_i16 on NaN must raise OVER_RANGE"
    c10_to_int_nan!(vk_c10_nan_to_i16_analog_output_status, AnalogOutputStatus, to_i16, outside_i16);
    // @harness ids=C10,C01 tier=thorough kind=proof units=app::measurement::AnalogConversions::to_i32 timeout=300 note="D4: AnalogOutputStatus.to_i32 on NaN must raise OVER_RANGE"
    c10_to_int_nan!(vk_c10_nan_to_i32_analog_output_status, AnalogOutputStatus, to_i32, outside_i32);

    // @harness ids=C10,C01 tier=quick kind=proof units=app::measurement::AnalogConversions::to_f32 timeout=300 note="AnalogInput.to_f32, all 2^64 doubles x every flag octet: clamp to [-f32::MAX,f32::MAX] (infinities included), OVER_RANGE iff outside, round-to-nearest inside, NaN stays NaN unflagged"
    c10_to_f32!(vk_c10_to_f32_analog_input, AnalogInput);
    // @harness ids=C10,C01 tier=thorough kind=proof units=app::measurement::AnalogConversions::to_f32 timeout=300 note="FrozenAnalogInput.to_f32, full domain"
    c10_to_f32!(vk_c10_to_f32_frozen_analog_input, FrozenAnalogInput);
    // @harness ids=C10,C01 tier=thorough kind=proof units=app::measurement::AnalogConversions::to_f32 timeout=300 note="AnalogOutputStatus.to_f32, full domain"
    c10_to_f32!(vk_c10_to_f32_analog_output_status, AnalogOutputStatus);

    // @harness ids=C10,C01 tier=thorough kind=proof units= timeout=120 note="spec self-check: 32-bit analog narrowed to 16 bit by the integer rule equals the real-number rule (sat_i32_to_i16 == sat_i16 on every i32)"
    #[kani::proof]
    fn vk_c10_spec_i32_to_i16_consistent() {
        let x: i32 = kani::any();
        let (a, oa) = spec::sat_i32_to_i16(x);
        let (b, ob) = spec::sat_i16(x as f64);
        assert!(a == b && oa == ob);
        kani::cover!(oa && a == i16::MIN);
        kani::cover!(oa && a == i16::MAX);
        kani::cover!(!oa && a == -1);
    }

    // ------------------------------------------------------------------ wire flag octet and its inverse

    // @harness ids=C10,C01 tier=quick kind=proof units=app::measurement::WireFlags::get_wire_flags,app::measurement::Flags::state timeout=120 note="BinaryInput / BinaryOutputStatus: wire octet = flags with bit 7 replaced by the value; Flags::state of that octet gives the value back; bits 0..6 untouched"
    #[kani::proof]
    fn vk_c10_wire_flags_binary() {
        let f: u8 = kani::any();
        let value: bool = kani::any();
        let t = any_time();
        let bi = BinaryInput { value, flags: Flags::new(f), time: t };
        let bo = BinaryOutputStatus { value, flags: Flags::new(f), time: t };
        let w1 = bi.get_wire_flags();
        let w2 = bo.get_wire_flags();
        assert!(w1 == spec::wire_flags_binary(f, value));
        assert!(w2 == spec::wire_flags_binary(f, value));
        assert!(Flags::new(w1).state() == value);
        assert!(spec::state_of_binary_octet(w1) == value);
        assert!(w1 & 0x7F == f & 0x7F);
        // inverse for every octet
        let o: u8 = kani::any();
        assert!(Flags::new(o).state() == spec::state_of_binary_octet(o));
        kani::cover!(value && f & 0x80 == 0);
        kani::cover!(!value && f & 0x80 != 0);
        kani::cover!(f == 0xFF);
    }

    // @harness ids=C10,C01 tier=quick kind=proof units=app::measurement::WireFlags::get_wire_flags,app::measurement::Flags::double_bit_state timeout=120 note="DoubleBitBinaryInput: wire octet = flags with bits 7..6 replaced by the state code (0 intermediate,1 off,2 on,3 indeterminate); double_bit_state is the inverse; bits 0..5 untouched"
    #[kani::proof]
    fn vk_c10_wire_flags_double_bit() {
        let f: u8 = kani::any();
        let value = any_double_bit();
        let m = DoubleBitBinaryInput { value, flags: Flags::new(f), time: any_time() };
        let w = m.get_wire_flags();
        assert!(w == spec::wire_flags_double(f, double_bit_code(value)));
        assert!(Flags::new(w).double_bit_state() == value);
        assert!(w & 0x3F == f & 0x3F);
        let o: u8 = kani::any();
        assert!(double_bit_code(Flags::new(o).double_bit_state()) == spec::state_code_of_double_octet(o));
        kani::cover!(value == DoubleBit::DeterminedOn && f & 0xC0 == 0x40);
        kani::cover!(value == DoubleBit::Intermediate && f & 0xC0 == 0xC0);
        kani::cover!(value == DoubleBit::Indeterminate);
        kani::cover!(value == DoubleBit::DeterminedOff);
    }

    // @harness ids=C10,C01 tier=thorough kind=proof units=app::measurement::WireFlags::get_wire_flags timeout=120 note="Counter, FrozenCounter, AnalogInput, AnalogOutputStatus: wire octet = flag octet unchanged"
    #[kani::proof]
    fn vk_c10_wire_flags_passthrough() {
        let f: u8 = kani::any();
        let t = any_time();
        let c: u32 = kani::any();
        let v = any_f64();
        assert!(Counter { value: c, flags: Flags::new(f), time: t }.get_wire_flags() == f);
        assert!(FrozenCounter { value: c, flags: Flags::new(f), time: t }.get_wire_flags() == f);
        assert!(AnalogInput { value: v, flags: Flags::new(f), time: t }.get_wire_flags() == f);
        assert!(AnalogOutputStatus { value: v, flags: Flags::new(f), time: t }.get_wire_flags() == f);
        kani::cover!(f == 0xFF);
        kani::cover!(f == 0);
    }

    // ------------------------------------------------------------------ 48-bit time arithmetic

    // @harness ids=C10,C01,C18 tier=quick kind=proof units=app::measurement::Time::checked_add timeout=120 note="Time + u16 ms: Some(same synchronisation kind, exact sum) iff the sum fits in 48 bits, else None; never wraps"
    #[kani::proof]
    fn vk_c10_time_checked_add() {
        let raw: u64 = kani::any();
        let sync: bool = kani::any();
        let x: u16 = kani::any();
        let ts = Timestamp::new(raw);
        let t48 = raw & spec::TIME_MAX;
        assert!(ts.raw_value() == t48);
        let t = if sync { Time::Synchronized(ts) } else { Time::Unsynchronized(ts) };
        let r = t.checked_add(x);
        match spec::time48_add(t48, x as u64) {
            None => assert!(r.is_none()),
            Some(s) => match r {
                None => assert!(false),
                Some(g) => {
                    assert!(g.is_synchronized() == sync);
                    assert!(g.timestamp().raw_value() == s);
                }
            },
        }
        kani::cover!(r.is_none() && x == 1);
        kani::cover!(r.is_some() && x == 65535 && sync);
        kani::cover!(r.is_some() && !sync && t48 + x as u64 == spec::TIME_MAX);
    }

    // @harness ids=C10,C01,C18 tier=thorough kind=proof units=app::types::Timestamp::checked_add timeout=300 note="Timestamp + any Duration (any seconds, any nanoseconds; whole milliseconds count): Some(exact sum) iff it fits in 48 bits, None otherwise; never wraps, never panics"
    #[kani::proof]
    fn vk_c10_timestamp_checked_add() {
        let raw: u64 = kani::any();
        let secs: u64 = kani::any();
        let nanos: u32 = kani::any();
        // @assume: Duration's own invariant (sub-second part below one second); Duration::new would carry otherwise
        kani::assume(nanos < 1_000_000_000);
        let ts = Timestamp::new(raw);
        let t48 = raw & spec::TIME_MAX;
        let r = ts.checked_add(Duration::new(secs, nanos));
        // whole milliseconds of the duration, computed without overflow
        let ms: u128 = (secs as u128) * 1000u128 + ((nanos / 1_000_000) as u128);
        if ms <= spec::TIME_MAX as u128 {
            match spec::time48_add(t48, ms as u64) {
                None => assert!(r.is_none()),
                Some(s) => assert!(r.map(|x| x.raw_value()) == Some(s)),
            }
        } else {
            assert!(r.is_none());
        }
        kani::cover!(r.is_some() && ms > 65535);
        kani::cover!(r.is_none() && ms <= spec::TIME_MAX as u128);
        kani::cover!(r.is_none() && secs == u64::MAX);
        kani::cover!(r.map(|x| x.raw_value()) == Some(spec::TIME_MAX) && nanos == 999_999_999);
    }

    // @harness ids=C10,C01 tier=thorough kind=proof units=app::measurement::Time::timestamp timeout=120 note="Option<Time> -> Timestamp used by every variation with absolute time: Some(t) gives exactly t's 48-bit count"
    #[kani::proof]
    fn vk_c10_time_into_timestamp() {
        let t = any_time();
        let ts: Timestamp = t.into();
        match t {
            Some(x) => {
                assert!(ts.raw_value() == x.timestamp().raw_value());
                assert!(ts.raw_value() <= spec::TIME_MAX);
            }
            None => {}
        }
        kani::cover!(t.is_none());
        kani::cover!(matches!(t, Some(Time::Unsynchronized(_))) && ts.raw_value() == spec::TIME_MAX);
    }
