    // C20 support (no harness): `Sequence::new` is crate-private; the C20 harnesses in ffi/dnp3-ffi need native
    // ControlField values with any 4-bit sequence number. A trait impl is visible across crates.
    impl kani::Arbitrary for Sequence {
        fn any() -> Self {
            Sequence::new(kani::any())
        }
    }
