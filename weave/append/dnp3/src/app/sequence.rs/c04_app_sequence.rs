    use crate::verif_spec as spec;

    // @harness ids=C04,C01 tier=quick kind=proof units=app::sequence::Sequence::new,app::sequence::Sequence::next,app::sequence::Sequence::increment,app::sequence::Sequence::value timeout=120 note="application sequence numbers are modulo 16: new masks to 4 bits, next == (v+1) mod 16, increment returns the old value and stores the successor"
    #[kani::proof]
    fn vk_c04_app_sequence_mod16() {
        let v: u8 = kani::any();
        let mut s = Sequence::new(v);
        assert!(s.value() == v % 16);
        assert!(s.next() == ((v % 16) + 1) % 16);
        assert!(s.next() == spec::app_seq_next(v));
        let old = s.increment();
        assert!(old.value() == v % 16);
        assert!(s.value() == ((v as u16 + 1) % 16) as u8);
        assert!(s.value() < 16);
        assert!(Sequence::default().value() == 0);
        kani::cover!(v == 15 && s.value() == 0);
        kani::cover!(v == 255);
        kani::cover!(v == 0 && s.value() == 1);
    }
