    use crate::verif_spec as spec;

    // @harness ids=C18,C01 tier=quick kind=proof units=app::types::Timestamp::checked_add,app::types::Timestamp::new timeout=300 note="every 48-bit timestamp x every Duration: Some(t + floor(ms)) iff the sum is <= 2^48-1, else None; result keeps the 48-bit invariant; no overflow/panic"
    #[kani::proof]
    fn vk_c18_timestamp_checked_add() {
        let raw: u64 = kani::any();
        let t = Timestamp::new(raw);
        // constructor invariant: 48 bits
        assert!(t.raw_value() <= spec::ts_max());
        assert!(raw > spec::ts_max() || t.raw_value() == raw);
        let secs: u64 = kani::any();
        let nanos: u32 = kani::any();
        kani::assume(nanos < 1_000_000_000); // @assume: type invariant of Duration
        let d = Duration::new(secs, nanos);
        let r = t.checked_add(d);
        let (fits, want) = spec::ts_add(t.raw_value(), secs, nanos);
        match r {
            Some(x) => { assert!(fits); assert!(x.raw_value() == want); assert!(x.raw_value() <= spec::ts_max()); assert!(x.raw_value() >= t.raw_value()); }
            None => assert!(!fits),
        }
        kani::cover!(r.is_some() && nanos >= 1_000_000 && secs > 0);
        kani::cover!(r.is_some() && r.unwrap().raw_value() == spec::ts_max() && secs > 0);
        kani::cover!(r.is_none() && secs < 1000);
        kani::cover!(r.is_none() && secs == u64::MAX);
    }
