    use crate::verif_spec as spec;
    use crate::app::variations::{Group1Var2, Group30Var1, Group32Var8, Group2Var3};

    // @harness ids=C09,C01 tier=quick kind=proof units=app::parse::range::Range::from,app::parse::range::Range::empty timeout=120 note="all 2^32 start/stop pairs: Err iff stop < start; otherwise start kept and count = stop-start+1 (0..=65535 -> 65536)"
    #[kani::proof]
    fn vk_c09_range_from() {
        let start: u16 = kani::any();
        let stop: u16 = kani::any();
        match Range::from(start, stop) {
            Ok(r) => {
                assert!(spec::range_count(start, stop) == Some(r.get_count()));
                assert!(r.get_start() == start);
                assert!(r.get_count() >= 1 && r.get_count() <= 65536);
                assert!(r.get_start() as usize + r.get_count() - 1 == stop as usize);
                kani::cover!(r.get_count() == 65536);
                kani::cover!(r.get_count() == 1 && start == 65535);
                kani::cover!(r.get_count() == 255);
            }
            Err(_) => {
                assert!(spec::range_count(start, stop).is_none());
                assert!(stop < start);
                kani::cover!(start == 65535);
            }
        }
        assert!(Range::empty().get_count() == 0);
    }

    /// every Range value that exists: built by `from` (count >= 1, last index <= 65535) or `empty` (count 0)
    pub(crate) fn any_range() -> Range {
        if kani::any() {
            Range::empty()
        } else {
            let start: u16 = kani::any();
            let stop: u16 = kani::any();
            match Range::from(start, stop) {
                Ok(r) => r,
                Err(_) => {
                    // @assume: only well-formed ranges reach the sequence parsers (ObjectParser rejects the others)
                    kani::assume(false);
                    Range::empty()
                }
            }
        }
    }

    /// the N objects starting at index `start` (N >= 1: last index must exist), or the empty range for N = 0
    pub(crate) fn range_of(start: u16, n: usize) -> Range {
        if n == 0 {
            return Range::empty();
        }
        // @assume: a range of n objects beginning at start exists only if its last index is <= 65535
        kani::assume(start as usize + n - 1 <= 65535);
        match Range::from(start, (start as usize + n - 1) as u16) {
            Ok(r) => r,
            Err(_) => {
                assert!(false);
                Range::empty()
            }
        }
    }

    /// RangedSequence<T>::parse on a buffer of L bytes, cursor at 1, for EVERY range (count 0..=65536):
    /// Ok iff SIZE*count bytes are present; then exactly those bytes are consumed and kept (pointer, length), the range is
    /// kept; otherwise nothing is consumed.
    fn ranged_parse_contract<T: FixedSize, const L: usize>() -> (bool, usize) {
        let buf = [0u8; L]; // parse never looks at the contents
        let range = any_range();
        let mut c = ReadCursor::new(&buf);
        assert!(c.read_u8().is_ok());
        let need = T::SIZE as usize * range.get_count();
        match RangedSequence::<T>::parse(range, &mut c) {
            Ok(seq) => {
                assert!(need <= L - 1);
                assert!(c.position() == 1 + need);
                assert!(seq.range == range);
                assert!(seq.data.len() == need);
                assert!(seq.data.as_ptr() == buf[1..].as_ptr());
                kani::cover!(range.get_count() == 0);
                kani::cover!(range.get_count() == 1 && range.get_start() == 65535);
                (true, range.get_count())
            }
            Err(_) => {
                assert!(need > L - 1);
                assert!(c.position() == 1);
                (false, range.get_count())
            }
        }
    }

    // @harness ids=C09,C01 tier=quick kind=proof units=app::parse::range::RangedSequence::parse timeout=300 note="T = g1v2 (1 byte), 65536 bytes available: every range 0..=65536 objects; consumes exactly count bytes or fails without consuming"
    #[kani::proof]
    fn vk_c09_ranged_parse_g1v2_64k() {
        let (ok, n) = ranged_parse_contract::<Group1Var2, 65537>();
        assert!(ok); // 65536 one-byte objects always fit
        kani::cover!(n == 65536);
        kani::cover!(n == 65535);
        kani::cover!(n == 255);
    }

    // @harness ids=C09,C01 tier=thorough kind=proof units=app::parse::range::RangedSequence::parse timeout=300 note="T = g30v1 (5 bytes), 40 bytes available: consumes exactly 5*count bytes or fails without consuming, all ranges"
    #[kani::proof]
    fn vk_c09_ranged_parse_g30v1() {
        let (ok, n) = ranged_parse_contract::<Group30Var1, 41>();
        kani::cover!(ok && n == 8);
        kani::cover!(!ok && n == 9);
        kani::cover!(!ok && n == 65536);
    }

    // @harness ids=C09,C01 tier=thorough kind=proof units=app::parse::range::RangedSequence::parse timeout=300 note="T = g32v8 (15 bytes), 33 bytes available (2 objects + 2 spare): consumes exactly 15*count bytes or fails without consuming, all ranges incl. 65536 objects (983040 bytes needed)"
    #[kani::proof]
    fn vk_c09_ranged_parse_g32v8() {
        let (ok, n) = ranged_parse_contract::<Group32Var8, 33>();
        kani::cover!(ok && n == 2);
        kani::cover!(!ok && n == 3);
        kani::cover!(!ok && n == 65536);
    }

    /// RangeIterator over a sequence of N objects (NB = N*SIZE bytes, any contents) starting at ANY index such that the
    /// last index is <= 65535: yields exactly N items, the k-th with index start+k and the value T::read gives at byte
    /// offset k*SIZE (what the validating pass would see), then None for good; size_hint counts down.
    pub(crate) fn range_iter_contract<T: FixedSize, F: Fn(&T, &T) -> bool, const N: usize, const NB: usize>(same: F) {
        let size = T::SIZE as usize;
        assert!(NB == N * size);
        let data: [u8; NB] = kani::any();
        let start: u16 = kani::any();
        let range = range_of(start, N);
        let mut c = ReadCursor::new(&data);
        let seq = match RangedSequence::<T>::parse(range, &mut c) {
            Ok(s) => s,
            Err(_) => {
                assert!(false);
                return;
            }
        };
        assert!(c.is_empty());
        let mut it = seq.iter();
        let mut k = 0;
        while k < N {
            assert!(it.size_hint() == (N - k, Some(N - k)));
            let mut direct = ReadCursor::new(&data[k * size..(k + 1) * size]);
            let expect = T::read(&mut direct);
            match (it.next(), expect) {
                (Some((x, idx)), Ok(e)) => {
                    assert!(idx as usize == start as usize + k);
                    assert!(same(&x, &e));
                }
                _ => assert!(false),
            }
            k += 1;
        }
        assert!(it.next().is_none());
        assert!(it.next().is_none());
        assert!(it.size_hint() == (0, Some(0)));
        // a second iterator sees the same thing as the first (re-iteration = what the validating pass saw)
        let mut it2 = seq.iter();
        if N > 0 {
            match it2.next() {
                Some((_, idx)) => assert!(idx == start),
                None => assert!(false),
            }
        }
        kani::cover!(N == 0 || start as usize + N - 1 == 65535);
        kani::cover!(N == 0 || start == 0);
    }

    // @harness ids=C09,C01 tier=quick kind=bounded bound="3 objects in the sequence (next touches only [pos, pos+SIZE)); start index full u16 domain incl. ranges ending at 65535" units=app::parse::range::RangeIterator::next,app::parse::range::RangedSequence::iter timeout=300 note="g30v1: exactly 3 items with indices start..start+2 and the values T::read gives at offsets 0,5,10; then None"
    #[kani::proof]
    #[kani::unwind(5)]
    fn vk_c09_range_iter_g30v1_n3() {
        range_iter_contract::<Group30Var1, _, 3, 15>(|a: &Group30Var1, b: &Group30Var1| a.flags == b.flags && a.value == b.value);
    }

    // @harness ids=C09,C01 tier=thorough kind=bounded bound="1 object in the sequence; start index full u16 domain incl. 65535..=65535" units=app::parse::range::RangeIterator::next timeout=300 note="g1v2: single object at any index incl. 65535"
    #[kani::proof]
    #[kani::unwind(3)]
    fn vk_c09_range_iter_g1v2_n1() {
        range_iter_contract::<Group1Var2, _, 1, 1>(|a: &Group1Var2, b: &Group1Var2| a.flags == b.flags);
    }

    // @harness ids=C09,C01 tier=thorough kind=proof units=app::parse::range::RangeIterator::next,app::parse::range::RangedSequence::empty timeout=300 note="empty sequence (READ request header): no items"
    #[kani::proof]
    #[kani::unwind(3)]
    fn vk_c09_range_iter_empty() {
        range_iter_contract::<Group30Var1, _, 0, 0>(|a: &Group30Var1, b: &Group30Var1| a.flags == b.flags && a.value == b.value);
        let e = RangedSequence::<Group30Var1>::empty();
        assert!(e.iter().next().is_none());
    }

    // @harness ids=C09,C01 tier=thorough kind=bounded bound="2 objects in the sequence; start index full u16 domain" units=app::parse::range::RangeIterator::next timeout=300 note="g32v8 (15 bytes, f64 compared by bits): 2 items with indices start, start+1 and the values at offsets 0, 15"
    #[kani::proof]
    #[kani::unwind(4)]
    fn vk_c09_range_iter_g32v8_n2() {
        range_iter_contract::<Group32Var8, _, 2, 30>(|a: &Group32Var8, b: &Group32Var8| {
            a.flags == b.flags && a.value.to_bits() == b.value.to_bits() && a.time.raw_value() == b.time.raw_value()
        });
    }

    /// One step of RangeIterator from ANY position k of a 4-object window (inductive form): pre-state = the state k calls
    /// of next() produce (index = start+k saturating, remaining = N-k, cursor at k*SIZE); post-state = the state for k+1.
    // @harness ids=C09,C01 tier=thorough kind=bounded bound="window of 4 objects, symbolic position k in 0..=4; start index full u16 domain" units=app::parse::range::RangeIterator::next timeout=300 note="g2v3 (3 bytes): inductive step from a symbolic position: item k has index start+k and the bytes at 3k; the successor state is the invariant state for k+1; at k = N: None and the state is unchanged"
    #[kani::proof]
    #[kani::unwind(6)]
    fn vk_c09_range_iter_step_symbolic_pos() {
        const N: usize = 4;
        let data: [u8; 12] = kani::any();
        let start: u16 = kani::any();
        let range = range_of(start, N);
        let k: usize = kani::any();
        // @assume: position reached by k <= N calls of next
        kani::assume(k <= N);
        let mut cursor = ReadCursor::new(&data);
        assert!(cursor.read_bytes(3 * k).is_ok());
        let mut it = RangeIterator::<Group2Var3> {
            index: if start as usize + k > 65535 { 65535 } else { start + k as u16 },
            remaining: N - k,
            cursor,
            phantom: std::marker::PhantomData {},
        };
        match it.next() {
            Some((x, idx)) => {
                assert!(k < N);
                assert!(idx as usize == start as usize + k);
                assert!(x.flags == data[3 * k]);
                assert!(x.time == (data[3 * k + 1] as u16) | ((data[3 * k + 2] as u16) << 8));
                assert!(it.remaining == N - k - 1);
                assert!(it.cursor.position() == 3 * (k + 1));
                assert!(it.index as usize == if start as usize + k + 1 > 65535 { 65535 } else { start as usize + k + 1 });
                kani::cover!(idx == 65535);
                kani::cover!(k == 0);
            }
            None => {
                assert!(k == N);
                assert!(it.remaining == 0 && it.cursor.position() == 3 * N);
                kani::cover!(true);
            }
        }
    }
