    use crate::verif_spec as spec;
    use crate::app::parse::range::verif_kani_c09_range::{any_range, range_of};

    // @harness ids=C09,C01 tier=thorough kind=proof units=app::parse::bit::BitSequence::parse,app::parse::bit::DoubleBitSequence::parse timeout=300 note="packed single-bit / double-bit objects, 8192 bytes available, every range (0..=65536 objects): consume exactly ceil(count/8) resp. ceil(count/4) bytes and keep exactly those, or fail without consuming"
    #[kani::proof]
    fn vk_c09_bit_sequences_parse() {
        const L: usize = 8193;
        let buf = [0u8; L]; // parse never looks at the contents
        let range = any_range();
        let n = range.get_count();
        {
            let mut c = ReadCursor::new(&buf);
            assert!(c.read_u8().is_ok());
            let need = spec::packed_bits_len(n);
            match BitSequence::parse(range, &mut c) {
                Ok(seq) => {
                    assert!(need <= L - 1); // always: 65536 bits = 8192 bytes
                    assert!(c.position() == 1 + need);
                    assert!(seq.range == range && seq.bytes.len() == need && seq.bytes.as_ptr() == buf[1..].as_ptr());
                    kani::cover!(n == 65536);
                    kani::cover!(n == 0);
                    kani::cover!(n == 9);
                }
                Err(_) => assert!(false),
            }
        }
        {
            let mut c = ReadCursor::new(&buf);
            assert!(c.read_u8().is_ok());
            let need = spec::packed_double_bits_len(n);
            match DoubleBitSequence::parse(range, &mut c) {
                Ok(seq) => {
                    assert!(need <= L - 1);
                    assert!(c.position() == 1 + need);
                    assert!(seq.range == range && seq.bytes.len() == need && seq.bytes.as_ptr() == buf[1..].as_ptr());
                    kani::cover!(n == 32768);
                    kani::cover!(n == 5);
                }
                Err(_) => {
                    assert!(need > L - 1);
                    assert!(c.position() == 1);
                    kani::cover!(n == 65536);
                    kani::cover!(n == 32769);
                }
            }
        }
    }

    // @harness ids=C09,C01 tier=thorough kind=proof units=app::parse::bit::BitSequence::parse,app::parse::bit::DoubleBitSequence::parse timeout=300 note="3 bytes available: Ok iff ceil(count/8) resp. ceil(count/4) <= 3, nothing consumed on failure"
    #[kani::proof]
    fn vk_c09_bit_sequences_parse_short() {
        let buf = [0u8; 3];
        let range = any_range();
        let n = range.get_count();
        let mut c = ReadCursor::new(&buf);
        match BitSequence::parse(range, &mut c) {
            Ok(seq) => {
                assert!(n <= 24 && c.position() == spec::packed_bits_len(n) && seq.bytes.len() == c.position());
                kani::cover!(n == 24);
                kani::cover!(n == 17);
            }
            Err(_) => {
                assert!(n > 24 && c.position() == 0);
                kani::cover!(n == 25);
            }
        }
        let mut c = ReadCursor::new(&buf);
        match DoubleBitSequence::parse(range, &mut c) {
            Ok(seq) => {
                assert!(n <= 12 && c.position() == spec::packed_double_bits_len(n) && seq.bytes.len() == c.position());
                kani::cover!(n == 12);
            }
            Err(_) => {
                assert!(n > 12 && c.position() == 0);
                kani::cover!(n == 13);
            }
        }
    }

    /// state of a bit iterator after `pos` calls of next on a sequence of `count` objects starting at `start`
    /// (inductive invariant; the index stays on the last object instead of running past it)
    fn inv_index(start: u16, count: usize, pos: usize) -> u16 {
        if count == 0 {
            start
        } else if pos < count {
            (start as usize + pos) as u16
        } else {
            (start as usize + count - 1) as u16
        }
    }

    // CBMC cost grows steeply with the size of a SYMBOLIC array (8192 symbolic bytes: 100-220 s), not with a constant one
    // (4 s).  So each bit iterator gets two inductive harnesses: (a) the whole count/start/position domain over a fixed
    // pseudo-random byte pattern, (b) fully symbolic bytes in a 64-byte window.
    const fn pattern_byte(i: usize) -> u8 {
        ((i * 151 + (i >> 8) * 7) ^ 0xA5) as u8
    }
    const fn mk_pattern() -> [u8; 16384] {
        let mut a = [0u8; 16384];
        let mut i = 0;
        while i < 16384 {
            a[i] = pattern_byte(i);
            i += 1;
        }
        a
    }
    static PATTERN: [u8; 16384] = mk_pattern();

    fn expect_double_bit(code: u8) -> DoubleBit {
        match code & 3 {
            0 => DoubleBit::Intermediate,
            1 => DoubleBit::DeterminedOff,
            2 => DoubleBit::DeterminedOn,
            _ => DoubleBit::Indeterminate,
        }
    }

    /// inductive step of BitIterator / base case of iter(), bytes = the first ceil(count/8) bytes of `arr`
    fn bit_iter_step(arr: &[u8], max_count: usize, byte_at: impl Fn(usize) -> u8) {
        let range = any_range();
        let (start, count) = (range.get_start(), range.get_count());
        // @assume: harness bound on the number of objects (65536 = none)
        kani::assume(count <= max_count);
        let bytes = &arr[..spec::packed_bits_len(count)];
        // base: what iter() creates is the invariant state for pos = 0
        let seq = BitSequence { bytes, range };
        let it0 = seq.iter();
        assert!(it0.index == inv_index(start, count, 0) && it0.count == count && it0.pos == 0);
        assert!(it0.bytes.as_ptr() == bytes.as_ptr() && it0.bytes.len() == bytes.len());
        // step: from any reachable state
        let pos: usize = kani::any();
        // @assume: inductive invariant (pos <= count, index as in inv_index)
        kani::assume(pos <= count);
        let mut it = BitIterator { index: inv_index(start, count, pos), bytes, count, pos };
        assert!(it.size_hint() == (count - pos, Some(count - pos)));
        match it.next() {
            Some((v, idx)) => {
                assert!(pos < count);
                assert!(idx as usize == start as usize + pos);
                assert!(v == ((byte_at(pos / 8) >> (pos % 8)) & 1 == 1));
                assert!(it.pos == pos + 1 && it.count == count);
                assert!(it.index == inv_index(start, count, pos + 1));
                assert!(it.bytes.as_ptr() == bytes.as_ptr() && it.bytes.len() == bytes.len());
                kani::cover!(idx == 65535);
                kani::cover!(pos == 0 && v);
                kani::cover!(pos % 8 == 7 && !v);
                kani::cover!(pos + 1 == count && count == max_count);
            }
            None => {
                assert!(pos == count);
                assert!(it.pos == pos && it.count == count && it.index == inv_index(start, count, pos));
                kani::cover!(count == 0);
                kani::cover!(count == max_count);
            }
        }
    }

    fn double_bit_iter_step(arr: &[u8], max_count: usize, byte_at: impl Fn(usize) -> u8) {
        let range = any_range();
        let (start, count) = (range.get_start(), range.get_count());
        // @assume: harness bound on the number of objects (65536 = none)
        kani::assume(count <= max_count);
        let bytes = &arr[..spec::packed_double_bits_len(count)];
        let seq = DoubleBitSequence { bytes, range };
        let it0 = seq.iter();
        assert!(it0.index == inv_index(start, count, 0) && it0.count == count && it0.pos == 0);
        assert!(it0.bytes.as_ptr() == bytes.as_ptr() && it0.bytes.len() == bytes.len());
        let pos: usize = kani::any();
        // @assume: inductive invariant (pos <= count, index as in inv_index)
        kani::assume(pos <= count);
        let mut it = DoubleBitIterator { index: inv_index(start, count, pos), bytes, count, pos };
        assert!(it.size_hint() == (count - pos, Some(count - pos)));
        match it.next() {
            Some((v, idx)) => {
                assert!(pos < count);
                assert!(idx as usize == start as usize + pos);
                let code = (byte_at(pos / 4) >> (2 * (pos % 4))) & 3;
                assert!(v == expect_double_bit(code));
                assert!(it.pos == pos + 1 && it.count == count);
                assert!(it.index == inv_index(start, count, pos + 1));
                assert!(it.bytes.as_ptr() == bytes.as_ptr() && it.bytes.len() == bytes.len());
                kani::cover!(idx == 65535);
                kani::cover!(pos % 4 == 3 && code == 2);
                kani::cover!(pos == 0 && code == 1);
                kani::cover!(pos + 1 == count && count == max_count);
            }
            None => {
                assert!(pos == count);
                assert!(it.pos == pos && it.count == count && it.index == inv_index(start, count, pos));
                kani::cover!(count == 0);
                kani::cover!(count == max_count);
            }
        }
    }

    // @harness ids=C09,C01 tier=quick kind=proof units=app::parse::bit::BitIterator::next,app::parse::bit::BitSequence::iter timeout=300 note="inductive over the whole count/start/position domain (count 0..=65536, any start with last index <= 65535; bytes = fixed pseudo-random pattern): iter() establishes the invariant; next yields (bit pos%8 of byte pos/8, LSB first; index start+pos) and re-establishes it; after count items None and nothing changes"
    #[kani::proof]
    fn vk_c09_bit_iter_inductive() {
        bit_iter_step(&PATTERN[..8192], 65536, pattern_byte);
    }

    // @harness ids=C09,C01 tier=thorough kind=bounded bound="count <= 512 objects (64 fully symbolic bytes); start index full u16 domain incl. ranges ending at 65535" units=app::parse::bit::BitIterator::next timeout=300 note="same inductive step with every byte value: the bit delivered is bit pos%8 of byte pos/8"
    #[kani::proof]
    fn vk_c09_bit_iter_inductive_symbolic_bytes() {
        let arr: [u8; 64] = kani::any();
        bit_iter_step(&arr, 512, |i| arr[i]);
    }

    // @harness ids=C09,C01 tier=quick kind=proof units=app::parse::bit::DoubleBitIterator::next,app::parse::bit::DoubleBitSequence::iter timeout=300 note="inductive over the whole count/start/position domain (bytes = fixed pseudo-random pattern): next yields the 2-bit code at bits 2*(pos%4).. of byte pos/4 (00 intermediate, 01 off, 10 on, 11 indeterminate) with index start+pos; after count items None and nothing changes"
    #[kani::proof]
    fn vk_c09_double_bit_iter_inductive() {
        double_bit_iter_step(&PATTERN, 65536, pattern_byte);
    }

    // @harness ids=C09,C01 tier=thorough kind=bounded bound="count <= 256 objects (64 fully symbolic bytes); start index full u16 domain incl. ranges ending at 65535" units=app::parse::bit::DoubleBitIterator::next timeout=300 note="same inductive step with every byte value"
    #[kani::proof]
    fn vk_c09_double_bit_iter_inductive_symbolic_bytes() {
        let arr: [u8; 64] = kani::any();
        double_bit_iter_step(&arr, 256, |i| arr[i]);
    }
