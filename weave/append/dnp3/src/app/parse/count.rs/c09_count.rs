    use crate::verif_spec as spec;
    use crate::app::parse::prefix::Prefix;
    use crate::app::variations::{Group50Var1, Group52Var2, Group2Var3, Group12Var1, Group43Var8};

    /// CountSequence<T>::parse on a buffer of L bytes, cursor at 1, for EVERY count 0..=65535:
    /// Ok iff SIZE*count bytes are present; then exactly those bytes are consumed and kept; otherwise nothing is consumed.
    fn count_parse_contract<T: FixedSize, const L: usize>(spec_size: usize) -> (bool, usize) {
        let buf = [0u8; L]; // parse never looks at the contents
        let count: u16 = kani::any();
        let mut c = ReadCursor::new(&buf);
        assert!(c.read_u8().is_ok());
        assert!(T::SIZE as usize == spec_size);
        let need = spec_size * count as usize;
        match CountSequence::<T>::parse(count, &mut c) {
            Ok(seq) => {
                assert!(need <= L - 1);
                assert!(c.position() == 1 + need);
                assert!(seq.count == count as usize);
                assert!(seq.data.len() == need);
                assert!(seq.data.as_ptr() == buf[1..].as_ptr());
                kani::cover!(count == 0);
                kani::cover!(count == 1);
                (true, count as usize)
            }
            Err(_) => {
                assert!(need > L - 1);
                assert!(c.position() == 1);
                (false, count as usize)
            }
        }
    }

    // @harness ids=C09,C01 tier=quick kind=proof units=app::parse::count::CountSequence::parse timeout=300 note="T = g52v2 (2 bytes), 131070 bytes available: every count 0..=65535 (255, 65535 included) consumes exactly 2*count bytes"
    #[kani::proof]
    fn vk_c09_count_parse_g52v2_128k() {
        let (ok, n) = count_parse_contract::<Group52Var2, 131071>(spec::object_size(52, 2));
        assert!(ok); // 65535 two-byte objects always fit
        kani::cover!(n == 65535);
        kani::cover!(n == 255);
    }

    // @harness ids=C09,C01 tier=thorough kind=proof units=app::parse::count::CountSequence::parse timeout=300 note="T = g50v1 (6 bytes), 20 bytes available: consumes exactly 6*count bytes or fails without consuming, all counts"
    #[kani::proof]
    fn vk_c09_count_parse_g50v1() {
        let (ok, n) = count_parse_contract::<Group50Var1, 21>(spec::object_size(50, 1));
        kani::cover!(ok && n == 3);
        kani::cover!(!ok && n == 4);
        kani::cover!(!ok && n == 65535);
    }

    // @harness ids=C09,C01 tier=thorough kind=proof units=app::parse::count::CountSequence::parse timeout=300 note="prefixed objects, T = Prefix<u16, g12v1> (2+11 bytes), 40 bytes available: consumes exactly 13*count bytes or fails without consuming, all counts"
    #[kani::proof]
    fn vk_c09_prefixed_parse_u16_g12v1() {
        let (ok, n) = count_parse_contract::<Prefix<u16, Group12Var1>, 41>(2 + spec::object_size(12, 1));
        kani::cover!(ok && n == 3);
        kani::cover!(!ok && n == 4);
        kani::cover!(!ok && n == 65535);
    }

    // @harness ids=C09,C01 tier=thorough kind=proof units=app::parse::count::CountSequence::parse timeout=300 note="prefixed objects, T = Prefix<u8, g43v8> (1+15 bytes), 50 bytes available: consumes exactly 16*count bytes or fails without consuming, all counts"
    #[kani::proof]
    fn vk_c09_prefixed_parse_u8_g43v8() {
        let (ok, n) = count_parse_contract::<Prefix<u8, Group43Var8>, 51>(1 + spec::object_size(43, 8));
        kani::cover!(ok && n == 3);
        kani::cover!(!ok && n == 4);
        kani::cover!(!ok && n == 65535);
    }

    /// CountIterator over N objects (NB = N*SIZE bytes, any contents): yields exactly N items, the k-th being what T::read
    /// gives at byte offset k*SIZE; then None for good; `single()` is Some exactly for N = 1.
    pub(crate) fn count_iter_contract<T: FixedSize, F: Fn(&T, &T) -> bool, const N: usize, const NB: usize>(same: F) {
        let size = T::SIZE as usize;
        assert!(NB == N * size);
        let data: [u8; NB] = kani::any();
        let mut c = ReadCursor::new(&data);
        let seq = match CountSequence::<T>::parse(N as u16, &mut c) {
            Ok(s) => s,
            Err(_) => {
                assert!(false);
                return;
            }
        };
        assert!(c.is_empty());
        let mut it = seq.iter();
        let mut k = 0;
        while k < N {
            assert!(it.size_hint() == (N - k, Some(N - k)));
            let mut direct = ReadCursor::new(&data[k * size..(k + 1) * size]);
            match (it.next(), T::read(&mut direct)) {
                (Some(x), Ok(e)) => assert!(same(&x, &e)),
                _ => assert!(false),
            }
            k += 1;
        }
        assert!(it.next().is_none());
        assert!(it.next().is_none());
        assert!(it.size_hint() == (0, Some(0)));
        match seq.single() {
            Some(x) => {
                assert!(N == 1);
                let mut direct = ReadCursor::new(&data[..size]);
                match T::read(&mut direct) {
                    Ok(e) => assert!(same(&x, &e)),
                    Err(_) => assert!(false),
                }
            }
            None => assert!(N != 1),
        }
        kani::cover!(true);
    }

    // @harness ids=C09,C01 tier=quick kind=bounded bound="3 prefixed objects in the sequence" units=app::parse::count::CountIterator::next,app::parse::count::CountSequence::iter,app::parse::prefix::Prefix::read timeout=300 note="Prefix<u16, g2v3>: 3 items, each the (index, object) pair found at offset 5k: indices are the transmitted ones; then None"
    #[kani::proof]
    #[kani::unwind(5)]
    fn vk_c09_count_iter_prefix_u16_g2v3_n3() {
        count_iter_contract::<Prefix<u16, Group2Var3>, _, 3, 15>(|a: &Prefix<u16, Group2Var3>, b: &Prefix<u16, Group2Var3>| {
            a.index == b.index && a.value.flags == b.value.flags && a.value.time == b.value.time
        });
    }

    // @harness ids=C09,C01 tier=thorough kind=bounded bound="0, 1 and 2 objects in the sequence" units=app::parse::count::CountIterator::next,app::parse::count::CountSequence::single timeout=300 note="g50v1 (time): N = 0, 1, 2: exactly N items with the values at offsets 6k; single() is Some iff N = 1"
    #[kani::proof]
    #[kani::unwind(4)]
    fn vk_c09_count_iter_g50v1_n012() {
        count_iter_contract::<Group50Var1, _, 0, 0>(|a: &Group50Var1, b: &Group50Var1| a.time.raw_value() == b.time.raw_value());
        count_iter_contract::<Group50Var1, _, 1, 6>(|a: &Group50Var1, b: &Group50Var1| a.time.raw_value() == b.time.raw_value());
        count_iter_contract::<Group50Var1, _, 2, 12>(|a: &Group50Var1, b: &Group50Var1| a.time.raw_value() == b.time.raw_value());
    }

    // @harness ids=C09,C01 tier=thorough kind=bounded bound="window of 4 objects, symbolic position k in 0..=4" units=app::parse::count::CountIterator::next timeout=300 note="Prefix<u8, g2v3> (4 bytes): inductive step from a symbolic position: item k is the (index, object) at offset 4k; the successor state is the invariant state for k+1; at k = N: None, state unchanged"
    #[kani::proof]
    #[kani::unwind(6)]
    fn vk_c09_count_iter_step_symbolic_pos() {
        const N: usize = 4;
        let data: [u8; 16] = kani::any();
        let k: usize = kani::any();
        // @assume: position reached by k <= N calls of next
        kani::assume(k <= N);
        let mut cursor = ReadCursor::new(&data);
        assert!(cursor.read_bytes(4 * k).is_ok());
        let mut it = CountIterator::<Prefix<u8, Group2Var3>> { cursor, remaining: N - k, phantom: std::marker::PhantomData {} };
        match it.next() {
            Some(x) => {
                assert!(k < N);
                assert!(x.index == data[4 * k]);
                assert!(x.value.flags == data[4 * k + 1]);
                assert!(x.value.time == (data[4 * k + 2] as u16) | ((data[4 * k + 3] as u16) << 8));
                assert!(it.remaining == N - k - 1);
                assert!(it.cursor.position() == 4 * (k + 1));
                kani::cover!(k == 3);
                kani::cover!(k == 0);
            }
            None => {
                assert!(k == N);
                assert!(it.remaining == 0 && it.cursor.position() == 4 * N);
                kani::cover!(true);
            }
        }
    }
