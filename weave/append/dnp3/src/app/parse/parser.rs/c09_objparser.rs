    // C09 (part b): the glue of the application-layer parser
    //  * fragment framing (control, function, IIN) of ParsedFragment::parse_no_logging
    //  * ObjectParser::parse_<qualifier> : width and byte order of the count / range field, what is passed on to the
    //    variation-level parsers (real ones, with a cheap variation fixed)
    //  * parse_free_format_u16: count must be 1, the object's sub-cursor must be consumed exactly
    //  * round trips: what HeaderWriter::write_* emits is parsed by parse_one_inner into the header that was encoded
    use crate::verif_spec as spec;
    use crate::app::app_enums::verif_kani_c09_enums as ae;
    use crate::app::file::verif_kani_c09_file as ff;
    use crate::app::variations::verif_kani_c09_fixed as fx;
    use crate::app::file::{Group70Var4, Group70Var5, Group70Var7};
    use crate::app::format::write::HeaderWriter;
    use crate::app::variations::{Group12Var1, Group50Var1};
    use scursor::WriteCursor;

    fn any_options() -> ParseOptions {
        ParseOptions { parse_zero_length_strings: kani::any() }
    }

    fn parser_over<'a>(function: FunctionCode, data: &'a [u8]) -> ObjectParser<'a> {
        ObjectParser::one_pass(any_options(), function, data)
    }

    // ================================================================ fragment framing
    /// C09 for the application header of a fragment of N octets whose object area is `frag[header_len..]`
    fn framing_contract<const N: usize>() -> (u8, u8, u8) {
        let frag: [u8; N] = kani::any();
        let options = any_options();
        match ParsedFragment::parse_no_logging(options, &frag) {
            Ok(f) => {
                assert!(N >= 2);
                assert!(spec::function_code_supported(frag[1]));
                let hl = spec::app_header_len(frag[1]);
                assert!(N >= hl);
                // decoded exactly as ControlField::to_u8 / FunctionCode::as_u8 / Iin::write encode
                assert!(f.control.to_u8() == frag[0]);
                assert!(f.control == ControlField::from(frag[0]));
                assert!(f.function.as_u8() == frag[1]);
                match f.iin {
                    Some(iin) => {
                        assert!(hl == 4);
                        assert!(iin.iin1.value == frag[2] && iin.iin2.value == frag[3]);
                        let mut out = [0u8; 2];
                        {
                            let mut w = WriteCursor::new(&mut out);
                            assert!(iin.write(&mut w).is_ok());
                        }
                        assert!(out[0] == frag[2] && out[1] == frag[3]);
                    }
                    None => assert!(hl == 2),
                }
                // raw_fragment / raw_objects cover exactly the input / exactly the object area
                assert!(f.raw_fragment.as_ptr() == frag.as_ptr() && f.raw_fragment.len() == N);
                assert!(f.raw_objects.len() == N - hl);
                assert!(f.raw_objects.as_ptr() == frag[hl..].as_ptr());
                (if f.iin.is_some() { 1 } else { 0 }, frag[0], frag[1])
            }
            Err(HeaderParseError::InsufficientBytes) => {
                assert!(N < 2 || (N < 4 && (frag[1] == 129 || frag[1] == 130)));
                (2, 0, if N >= 2 { frag[1] } else { 0 })
            }
            Err(HeaderParseError::UnknownFunction(seq, raw)) => {
                assert!(N >= 2 && !spec::function_code_supported(frag[1]));
                assert!(raw == frag[1] && seq.value() == frag[0] & 0x0F);
                (3, frag[0], frag[1])
            }
        }
    }

    // @harness ids=C09,C01 tier=quick kind=proof stubs=1 units=app::parse::parser::ParsedFragment::parse_no_logging,app::header::Iin::parse,app::header::Iin::write timeout=300 note="fragments of 0, 1, 2, 3 and 4 arbitrary octets (object area empty or 1-2 octets of a request): Ok iff >= 2 octets, a defined function code and, for RESPONSE/UNSOLICITED_RESPONSE, >= 4 octets; control octet, function and IIN decoded exactly as the encoders write them; InsufficientBytes / UnknownFunction exactly in the complementary cases; raw_fragment = the input, raw_objects = the octets behind the header; (the object-header pass itself is behind the contract stub of vk_c09_fragment_framing_with_objects)"
    #[kani::proof]
    #[kani::unwind(4)]
    #[kani::stub(HeaderCollection::parse, HeaderCollection::verif_stub_parse)]
    fn vk_c09_fragment_framing_short() {
        let r0 = framing_contract::<0>();
        let r1 = framing_contract::<1>();
        let r2 = framing_contract::<2>();
        let r3 = framing_contract::<3>();
        let r4 = framing_contract::<4>();
        assert!(r0.0 == 2 && r1.0 == 2);
        kani::cover!(r2 == (0, 0xC5, 0)); // CONFIRM, FIR FIN, seq 5
        kani::cover!(r2.0 == 2 && r2.2 == 129); // response header cut after the function code
        kani::cover!(r2.0 == 3 && r2.2 == 31);
        kani::cover!(r3.0 == 2 && r3.2 == 130);
        kani::cover!(r3.0 == 0 && r3.2 == 1); // READ with one stray octet in the object area
        kani::cover!(r4.0 == 1 && r4.2 == 130);
        kani::cover!(r4.0 == 0 && r4.2 == 13);
        kani::cover!(r4.0 == 3 && r4.2 == 128);
    }

    // ---- the same with a non-empty object area: the object-header pass is replaced by a logged contract stub
    static mut STUB_CALLS: usize = 0;
    static mut STUB_FUNCTION: u8 = 0;
    static mut STUB_DATA_PTR: usize = 0;
    static mut STUB_DATA_LEN: usize = 0;

    impl<'a> HeaderCollection<'a> {
        /// contract stub of HeaderCollection::parse: either a collection over exactly the arguments, or some error
        fn verif_stub_parse(options: ParseOptions, function: FunctionCode, data: &'a [u8]) -> Result<Self, ObjectParseError> {
            unsafe {
                STUB_CALLS += 1;
                STUB_FUNCTION = function.as_u8();
                STUB_DATA_PTR = data.as_ptr() as usize;
                STUB_DATA_LEN = data.len();
            }
            let sel: u8 = kani::any();
            match sel {
                0 => Ok(HeaderCollection { options, function, data }),
                1 => Err(ObjectParseError::InsufficientBytes),
                2 => Err(ObjectParseError::BadEncoding),
                3 => Err(ObjectParseError::UnknownQualifier(kani::any())),
                4 => Err(ObjectParseError::UnknownGroupVariation(kani::any(), kani::any())),
                5 => Err(ObjectParseError::InvalidRange(kani::any(), kani::any())),
                6 => Err(ObjectParseError::UnsupportedFreeFormatCount(kani::any())),
                _ => Err(ObjectParseError::ZeroLengthOctetData),
            }
        }
    }

    // @harness ids=C09,C01 tier=quick kind=proof stubs=1 units=app::parse::parser::ParsedFragment::parse_no_logging timeout=300 note="fragment of 9 arbitrary octets, object-header pass behind a logged contract stub: header decoded as encoded; the object parser is called exactly once with the decoded function code and exactly the octets behind the 2- or 4-octet header, and its verdict is passed on unchanged; raw_fragment / raw_objects cover exactly the input / the object area"
    #[kani::proof]
    #[kani::stub(HeaderCollection::parse, HeaderCollection::verif_stub_parse)]
    fn vk_c09_fragment_framing_with_objects() {
        const N: usize = 9;
        let frag: [u8; N] = kani::any();
        let options = any_options();
        match ParsedFragment::parse_no_logging(options, &frag) {
            Ok(f) => {
                assert!(spec::function_code_supported(frag[1]));
                let hl = spec::app_header_len(frag[1]);
                assert!(f.control.to_u8() == frag[0] && f.function.as_u8() == frag[1]);
                match f.iin {
                    Some(iin) => assert!(hl == 4 && iin.iin1.value == frag[2] && iin.iin2.value == frag[3]),
                    None => assert!(hl == 2),
                }
                assert!(f.raw_fragment.as_ptr() == frag.as_ptr() && f.raw_fragment.len() == N);
                assert!(f.raw_objects.as_ptr() == frag[hl..].as_ptr() && f.raw_objects.len() == N - hl);
                unsafe {
                    assert!(STUB_CALLS == 1);
                    assert!(STUB_FUNCTION == frag[1]);
                    assert!(STUB_DATA_PTR == frag[hl..].as_ptr() as usize && STUB_DATA_LEN == N - hl);
                }
                match f.objects {
                    Ok(hc) => {
                        assert!(hc.data.as_ptr() == frag[hl..].as_ptr() && hc.data.len() == N - hl && hc.function == f.function);
                        kani::cover!(hl == 4);
                        kani::cover!(hl == 2);
                    }
                    Err(_) => kani::cover!(true),
                }
            }
            Err(HeaderParseError::InsufficientBytes) => assert!(false),
            Err(HeaderParseError::UnknownFunction(seq, raw)) => {
                assert!(!spec::function_code_supported(frag[1]));
                assert!(raw == frag[1] && seq.value() == frag[0] & 0x0F);
                unsafe {
                    assert!(STUB_CALLS == 0);
                }
                kani::cover!(raw == 31);
            }
        }
    }

    // ================================================================ count / range fields
    const L: usize = 32;

    /// buffer whose first K octets (the count / range field) are symbolic; object data is irrelevant to the glue
    fn field_buffer<const K: usize>() -> [u8; L] {
        let f: [u8; K] = kani::any();
        let mut buf = [0u8; L];
        let mut i = 0;
        while i < K {
            buf[i] = f[i];
            i += 1;
        }
        buf
    }

    fn any_non_read() -> FunctionCode {
        let f = ae::any_functioncode();
        kani::assume(f != FunctionCode::Read);
        f
    }

    // @harness ids=C09,C01 tier=thorough kind=proof units=app::parse::parser::ObjectParser::parse_count_u8 timeout=300 note="qualifier 0x07, variation fixed to g50v1 (6-octet objects), any function code, every count: the count is read from exactly 1 octet and passed on unchanged: the header reports it, the sequence holds count objects and exactly 6*count further octets are consumed; fewer octets available: error; no count octet: error"
    #[kani::proof]
    #[kani::unwind(4)]
    fn vk_c09_objparser_count_u8() {
        let function = ae::any_functioncode();
        let buf = field_buffer::<1>();
        let count = buf[0];
        let mut p = parser_over(function, &buf);
        match p.parse_count_u8(Variation::Group50Var1) {
            Ok(h) => {
                assert!(1 + 6 * (count as usize) <= L);
                assert!(p.cursor.position() == 1 + spec::range_field_len(0x07) - 1 + 6 * (count as usize));
                assert!(h.variation == Variation::Group50Var1);
                match h.details {
                    HeaderDetails::OneByteCount(c, CountVariation::Group50Var1(seq)) => {
                        assert!(c == count);
                        assert!(seq.iter().size_hint() == (count as usize, Some(count as usize)));
                    }
                    _ => assert!(false),
                }
                kani::cover!(count == 5);
                kani::cover!(count == 0);
            }
            Err(_) => {
                assert!(1 + 6 * (count as usize) > L);
                kani::cover!(count == 255);
                kani::cover!(count == 6);
            }
        }
        let mut e = parser_over(function, &buf[..0]);
        assert!(e.parse_count_u8(Variation::Group50Var1).is_err());
    }

    // @harness ids=C09,C01 tier=thorough kind=proof units=app::parse::parser::ObjectParser::parse_count_u16 timeout=300 note="qualifier 0x08, variation fixed to g50v1, any function code, every count: the count is read from exactly 2 octets little endian and passed on unchanged; exactly 6*count further octets consumed or error; count field cut short: error"
    #[kani::proof]
    #[kani::unwind(4)]
    fn vk_c09_objparser_count_u16() {
        let function = ae::any_functioncode();
        let buf = field_buffer::<2>();
        let count = spec::le16(buf[0], buf[1]);
        let mut p = parser_over(function, &buf);
        match p.parse_count_u16(Variation::Group50Var1) {
            Ok(h) => {
                assert!(2 + 6 * (count as usize) <= L);
                assert!(p.cursor.position() == spec::range_field_len(0x08) + 6 * (count as usize));
                assert!(h.variation == Variation::Group50Var1);
                match h.details {
                    HeaderDetails::TwoByteCount(c, CountVariation::Group50Var1(seq)) => {
                        assert!(c == count);
                        assert!(seq.iter().size_hint() == (count as usize, Some(count as usize)));
                    }
                    _ => assert!(false),
                }
                kani::cover!(count == 5);
            }
            Err(_) => {
                assert!(2 + 6 * (count as usize) > L);
                kani::cover!(count == 0x0100); // would be "0" if only the low octet were used, "1" if big endian
                kani::cover!(count == 65535);
            }
        }
        let mut e = parser_over(function, &buf[..1]);
        assert!(e.parse_count_u16(Variation::Group50Var1).is_err());
    }

    // @harness ids=C09,C01 tier=quick kind=proof units=app::parse::parser::ObjectParser::parse_start_stop_u8 timeout=300 note="qualifier 0x00, variation fixed to g1v2 (1-octet objects), any function code incl. READ, every start/stop: read from exactly 2 octets; stop < start is rejected as InvalidRange(start, stop) for READ too; otherwise the header reports start and stop unchanged, a READ consumes nothing more, any other function consumes exactly stop-start+1 object octets (error if absent) and the sequence starts at index start; field cut short: error"
    #[kani::proof]
    #[kani::unwind(6)]
    fn vk_c09_objparser_start_stop_u8() {
        let function = ae::any_functioncode();
        let read = function == FunctionCode::Read;
        let buf = field_buffer::<2>();
        let (start, stop) = (buf[0], buf[1]);
        let mut p = parser_over(function, &buf);
        match p.parse_start_stop_u8(Variation::Group1Var2) {
            Ok(h) => {
                assert!(start <= stop);
                let n = (stop - start) as usize + 1;
                assert!(Some(n) == spec::range_count(start as u16, stop as u16));
                assert!(read || 2 + n <= L);
                assert!(p.cursor.position() == spec::range_field_len(0x00) + if read { 0 } else { n });
                assert!(h.variation == Variation::Group1Var2);
                match h.details {
                    HeaderDetails::OneByteStartStop(a, b, RangedVariation::Group1Var2(seq)) => {
                        assert!(a == start && b == stop);
                        let mut it = seq.iter();
                        if read {
                            assert!(it.next().is_none());
                        } else {
                            assert!(it.size_hint() == (n, Some(n)));
                            match it.next() {
                                Some((_, idx)) => assert!(idx == start as u16),
                                None => assert!(false),
                            }
                        }
                    }
                    _ => assert!(false),
                }
                kani::cover!(read && start == 0 && stop == 255);
                kani::cover!(!read && start == 250 && stop == 255);
                kani::cover!(start == stop);
            }
            Err(e) => {
                if stop < start {
                    assert!(matches!(e, ObjectParseError::InvalidRange(a, b) if a == start as u16 && b == stop as u16));
                    kani::cover!(read);
                    kani::cover!(!read);
                } else {
                    assert!(!read && 2 + (stop - start) as usize + 1 > L);
                    kani::cover!(true);
                }
            }
        }
        let mut e = parser_over(function, &buf[..1]);
        assert!(e.parse_start_stop_u8(Variation::Group1Var2).is_err());
    }

    // @harness ids=C09,C01 tier=quick kind=proof units=app::parse::parser::ObjectParser::parse_start_stop_u16 timeout=300 note="qualifier 0x01, variation fixed to g1v2, any function code incl. READ, every start/stop: read from exactly 4 octets, little endian each; stop < start rejected as InvalidRange for READ too; otherwise start/stop reported unchanged, READ consumes nothing more, other functions exactly stop-start+1 octets (error if absent), first index = start; field cut short: error"
    #[kani::proof]
    #[kani::unwind(6)]
    fn vk_c09_objparser_start_stop_u16() {
        let function = ae::any_functioncode();
        let read = function == FunctionCode::Read;
        let buf = field_buffer::<4>();
        let (start, stop) = (spec::le16(buf[0], buf[1]), spec::le16(buf[2], buf[3]));
        let mut p = parser_over(function, &buf);
        match p.parse_start_stop_u16(Variation::Group1Var2) {
            Ok(h) => {
                assert!(start <= stop);
                let n = (stop - start) as usize + 1;
                assert!(read || 4 + n <= L);
                assert!(p.cursor.position() == spec::range_field_len(0x01) + if read { 0 } else { n });
                assert!(h.variation == Variation::Group1Var2);
                match h.details {
                    HeaderDetails::TwoByteStartStop(a, b, RangedVariation::Group1Var2(seq)) => {
                        assert!(a == start && b == stop);
                        let mut it = seq.iter();
                        if read {
                            assert!(it.next().is_none());
                        } else {
                            assert!(it.size_hint() == (n, Some(n)));
                            match it.next() {
                                Some((_, idx)) => assert!(idx == start),
                                None => assert!(false),
                            }
                        }
                    }
                    _ => assert!(false),
                }
                kani::cover!(read && start == 0 && stop == 65535);
                kani::cover!(!read && start == 0x0100 && stop == 0x0102);
            }
            Err(e) => {
                if stop < start {
                    assert!(matches!(e, ObjectParseError::InvalidRange(a, b) if a == start && b == stop));
                    kani::cover!(read && start == 0x0100 && stop == 0x00FF); // stop > start if read big endian
                    kani::cover!(!read);
                } else {
                    assert!(!read && 4 + (stop - start) as usize + 1 > L);
                    kani::cover!(true);
                }
            }
        }
        let mut e = parser_over(function, &buf[..3]);
        assert!(e.parse_start_stop_u16(Variation::Group1Var2).is_err());
    }

    // @harness ids=C09,C01 tier=thorough kind=proof units=app::parse::parser::ObjectParser::parse_count_and_prefix_u8 timeout=300 note="qualifier 0x17, variation fixed to g12v1 (11-octet objects), any function code, every count: count read from exactly 1 octet, passed on unchanged; the sequence holds count (index, object) pairs and exactly (1+11)*count further octets are consumed; fewer available: error; no count octet: error"
    #[kani::proof]
    #[kani::unwind(4)]
    fn vk_c09_objparser_count_and_prefix_u8() {
        let function = ae::any_functioncode();
        let buf = field_buffer::<1>();
        let count = buf[0];
        let need = (spec::object_prefix_len(0x17) + spec::object_size(12, 1)) * (count as usize);
        let mut p = parser_over(function, &buf);
        match p.parse_count_and_prefix_u8(Variation::Group12Var1) {
            Ok(h) => {
                assert!(1 + need <= L);
                assert!(p.cursor.position() == spec::range_field_len(0x17) + need);
                assert!(h.variation == Variation::Group12Var1);
                match h.details {
                    HeaderDetails::OneByteCountAndPrefix(c, PrefixedVariation::Group12Var1(seq)) => {
                        assert!(c == count);
                        assert!(seq.iter().size_hint() == (count as usize, Some(count as usize)));
                    }
                    _ => assert!(false),
                }
                kani::cover!(count == 2);
                kani::cover!(count == 0);
            }
            Err(_) => {
                assert!(1 + need > L);
                kani::cover!(count == 3);
            }
        }
        let mut e = parser_over(function, &buf[..0]);
        assert!(e.parse_count_and_prefix_u8(Variation::Group12Var1).is_err());
    }

    // @harness ids=C09,C01 tier=thorough kind=proof units=app::parse::parser::ObjectParser::parse_count_and_prefix_u16 timeout=300 note="qualifier 0x28, variation fixed to g12v1, any function code, every count: count read from exactly 2 octets little endian, passed on unchanged; exactly (2+11)*count further octets consumed or error; count field cut short: error"
    #[kani::proof]
    #[kani::unwind(4)]
    fn vk_c09_objparser_count_and_prefix_u16() {
        let function = ae::any_functioncode();
        let buf = field_buffer::<2>();
        let count = spec::le16(buf[0], buf[1]);
        let need = (spec::object_prefix_len(0x28) + spec::object_size(12, 1)) * (count as usize);
        let mut p = parser_over(function, &buf);
        match p.parse_count_and_prefix_u16(Variation::Group12Var1) {
            Ok(h) => {
                assert!(2 + need <= L);
                assert!(p.cursor.position() == spec::range_field_len(0x28) + need);
                assert!(h.variation == Variation::Group12Var1);
                match h.details {
                    HeaderDetails::TwoByteCountAndPrefix(c, PrefixedVariation::Group12Var1(seq)) => {
                        assert!(c == count);
                        assert!(seq.iter().size_hint() == (count as usize, Some(count as usize)));
                    }
                    _ => assert!(false),
                }
                kani::cover!(count == 2);
            }
            Err(_) => {
                assert!(2 + need > L);
                kani::cover!(count == 0x0100);
            }
        }
        let mut e = parser_over(function, &buf[..1]);
        assert!(e.parse_count_and_prefix_u16(Variation::Group12Var1).is_err());
    }

    // ================================================================ free format
    // @harness ids=C09,C01 tier=thorough kind=proof units=app::parse::parser::ObjectParser::parse_free_format_u16,app::parse::free_format::FreeFormatVariation::parse timeout=300 note="free-format header (qualifier 0x5B) with the variation fixed to g70v5, 3 + 12 arbitrary octets: accepted iff the count octet is 1, the 16-bit little-endian length fits the octets present and covers the 8 fixed octets of the object; then exactly 3 + length octets are consumed and the object is the one laid out in exactly `length` octets (handle, block, length-8 data octets); count 0 or 2..255: rejected"
    #[kani::proof]
    #[kani::unwind(4)]
    fn vk_c09_objparser_free_format_g70v5() {
        const D: usize = 12;
        let buf: [u8; 3 + D] = kani::any();
        let count = buf[0];
        let len = spec::le16(buf[1], buf[2]) as usize;
        let mut p = parser_over(ae::any_functioncode(), &buf);
        match p.parse_free_format_u16(Variation::Group70Var5) {
            Ok(h) => {
                assert!(count == 1);
                assert!(len <= D && len >= spec::file_fixed_len(5));
                assert!(p.cursor.position() == 3 + len);
                assert!(h.variation == Variation::Group70Var5);
                match h.details {
                    HeaderDetails::TwoByteFreeFormat(c, FreeFormatVariation::Group70Var5(x)) => {
                        assert!(c == 1);
                        assert!(x.file_handle == spec::le32(buf[3], buf[4], buf[5], buf[6]));
                        assert!(x.block_number == spec::le32(buf[7], buf[8], buf[9], buf[10]));
                        assert!(x.file_data.len() == len - 8);
                        assert!(x.file_data.as_ptr() == buf[11..].as_ptr());
                    }
                    _ => assert!(false),
                }
                kani::cover!(len == 8);
                kani::cover!(len == 12);
            }
            Err(e) => {
                assert!(count != 1 || len > D || len < spec::file_fixed_len(5));
                if count != 1 {
                    assert!(matches!(e, ObjectParseError::UnsupportedFreeFormatCount(c) if c == count));
                }
                kani::cover!(count == 0);
                kani::cover!(count == 2);
                kani::cover!(count == 1 && len == 13);
                kani::cover!(count == 1 && len == 7);
                kani::cover!(count == 1 && len == 0x0108); // low octet alone would fit
            }
        }
        let mut e = parser_over(FunctionCode::Write, &buf[..2]);
        assert!(e.parse_free_format_u16(Variation::Group70Var5).is_err());
    }

    /// g70v7 descriptor with a 2-octet name inside a free-format header that declares `DECL` octets (22 = exact)
    fn free_format_g70v7_declared<const DECL: usize>() -> bool {
        const N: usize = 2;
        let mut buf: [u8; 3 + 24] = kani::any();
        buf[0] = 1;
        buf[1] = DECL as u8;
        buf[2] = 0;
        // the object's own fields declare 20 + N octets
        buf[3] = 20;
        buf[4] = 0;
        buf[5] = N as u8;
        buf[6] = 0;
        let name = [buf[23], buf[24]];
        let _ = ff::utf8_spec(&name);
        let mut p = parser_over(FunctionCode::Response, &buf);
        match p.parse_free_format_u16(Variation::Group70Var7) {
            Ok(h) => {
                assert!(p.cursor.position() == 3 + DECL);
                match h.details {
                    HeaderDetails::TwoByteFreeFormat(1, FreeFormatVariation::Group70Var7(x)) => {
                        assert!(ff::same_bytes(x.file_name.as_bytes(), &name));
                        assert!(x.request_id == spec::le16(buf[21], buf[22]));
                    }
                    _ => assert!(false),
                }
                true
            }
            Err(_) => false,
        }
    }

    // @harness ids=C09,C01 tier=thorough kind=proof units=app::parse::parser::ObjectParser::parse_free_format_u16,app::parse::free_format::FreeFormatVariation::parse timeout=300 note="free-format header around a g70v7 descriptor whose own offset/size fields declare 22 octets (2-octet UTF-8 name): accepted when the header's length field is exactly 22 (declared_long / declared_short: 23 and 21 are rejected)"
    #[kani::proof]
    #[kani::unwind(6)]
    fn vk_c09_objparser_free_format_exact_consumption() {
        assert!(free_format_g70v7_declared::<22>());
        kani::cover!(true);
    }

    // @harness ids=C09,C01 tier=quick kind=proof units=app::parse::parser::ObjectParser::parse_free_format_u16,app::parse::free_format::FreeFormatVariation::parse timeout=300 note="as vk_c09_objparser_free_format_exact_consumption with the header declaring 23 octets for a 22-octet descriptor (one trailing octet inside the declared object): rejected"
    #[kani::proof]
    #[kani::unwind(6)]
    fn vk_c09_objparser_free_format_declared_long() {
        assert!(!free_format_g70v7_declared::<23>());
        kani::cover!(true);
    }

    // @harness ids=C09,C01 tier=quick kind=proof units=app::parse::parser::ObjectParser::parse_free_format_u16,app::parse::free_format::FreeFormatVariation::parse timeout=300 note="as vk_c09_objparser_free_format_exact_consumption with the header declaring 21 octets for a 22-octet descriptor (name cut): rejected"
    #[kani::proof]
    #[kani::unwind(6)]
    fn vk_c09_objparser_free_format_declared_short() {
        assert!(!free_format_g70v7_declared::<21>());
        kani::cover!(true);
    }

    // @harness ids=C09,C01 tier=quick kind=proof units=app::parse::free_format::FreeFormatVariation::parse timeout=300 note="qualifier 0x5B with any variation other than g70v2..g70v8 (all other 128 variants): rejected, nothing consumed; each of g70v2..g70v8 yields the variant of the same number or an error (4 arbitrary octets)"
    #[kani::proof]
    #[kani::unwind(7)]
    fn vk_c09_free_format_variation_dispatch() {
        let v = fx::any_variation();
        let buf: [u8; 4] = kani::any();
        let mut c = ReadCursor::new(&buf);
        let (g, var) = v.to_group_and_var();
        let r = FreeFormatVariation::parse(v, &mut c);
        if g == 70 && var >= 2 && var <= 8 {
            match r {
                Ok(FreeFormatVariation::Group70Var2(_)) => assert!(var == 2),
                Ok(FreeFormatVariation::Group70Var3(_)) => assert!(var == 3),
                Ok(FreeFormatVariation::Group70Var4(_)) => assert!(var == 4),
                Ok(FreeFormatVariation::Group70Var5(_)) => assert!(var == 5),
                Ok(FreeFormatVariation::Group70Var6(_)) => assert!(var == 6),
                Ok(FreeFormatVariation::Group70Var7(_)) => assert!(var == 7),
                Ok(FreeFormatVariation::Group70Var8(_)) => {
                    assert!(var == 8);
                    kani::cover!(true);
                }
                Err(_) => kani::cover!(var == 2),
            }
        } else {
            assert!(matches!(r, Err(ObjectParseError::InvalidQualifierForVariation(x, QualifierCode::FreeFormat16)) if x == v));
            assert!(c.position() == 0);
            kani::cover!(matches!(v, Variation::Group60Var1));
            kani::cover!(matches!(v, Variation::Group1Var2));
        }
    }

    // ================================================================ qualifier dispatch (parse_one_inner) with the eight arms behind logged stubs
    static mut ARM: u8 = 0;
    static mut ARM_CALLS: usize = 0;
    static mut ARM_POS: usize = 0;
    static mut ARM_V: Variation = Variation::Group1Var0;

    impl<'a> ObjectParser<'a> {
        /// logging stub shared by the eight arms: records which arm ran, with which variation, at which cursor position
        /// (the arms themselves are proved by vk_c09_objparser_* / the gen::* arm harnesses)
        fn verif_arm(&mut self, arm: u8, v: Variation) -> Result<ObjectHeader<'a>, ObjectParseError> {
            unsafe {
                ARM = arm;
                ARM_CALLS += 1;
                ARM_POS = self.cursor.position();
                ARM_V = v;
            }
            // (only error verdicts, one per arm: building header values here makes the proof run out of time; parse_one_inner
            //  returns the arm's value as its tail expression)
            Err(ObjectParseError::UnsupportedFreeFormatCount(arm))
        }
        fn verif_stub_all_objects(&mut self, v: Variation) -> Result<ObjectHeader<'a>, ObjectParseError> {
            self.verif_arm(0x06, v)
        }
        fn verif_stub_start_stop_u8(&mut self, v: Variation) -> Result<ObjectHeader<'a>, ObjectParseError> {
            self.verif_arm(0x00, v)
        }
        fn verif_stub_start_stop_u16(&mut self, v: Variation) -> Result<ObjectHeader<'a>, ObjectParseError> {
            self.verif_arm(0x01, v)
        }
        fn verif_stub_count_u8(&mut self, v: Variation) -> Result<ObjectHeader<'a>, ObjectParseError> {
            self.verif_arm(0x07, v)
        }
        fn verif_stub_count_u16(&mut self, v: Variation) -> Result<ObjectHeader<'a>, ObjectParseError> {
            self.verif_arm(0x08, v)
        }
        fn verif_stub_count_and_prefix_u8(&mut self, v: Variation) -> Result<ObjectHeader<'a>, ObjectParseError> {
            self.verif_arm(0x17, v)
        }
        fn verif_stub_count_and_prefix_u16(&mut self, v: Variation) -> Result<ObjectHeader<'a>, ObjectParseError> {
            self.verif_arm(0x28, v)
        }
        fn verif_stub_free_format_u16(&mut self, v: Variation) -> Result<ObjectHeader<'a>, ObjectParseError> {
            self.verif_arm(0x5B, v)
        }
    }

    // @harness ids=C09,C01 tier=thorough kind=proof stubs=1 units=app::parse::parser::ObjectParser::parse_one_inner,app::parse::parser::Variation::parse,app::parse::parser::QualifierCode::parse timeout=300 note="object header dispatch on 3 arbitrary octets (group, variation, qualifier), the eight qualifier arms behind logged stubs: an unknown group/variation or an unsupported qualifier octet is rejected without running any arm; otherwise exactly the arm of that qualifier octet runs once, with the variation those two octets denote and the cursor right behind the third octet, and its (error) verdict is returned unchanged"
    #[kani::proof]
    #[kani::stub(ObjectParser::parse_all_objects, ObjectParser::verif_stub_all_objects)]
    #[kani::stub(ObjectParser::parse_start_stop_u8, ObjectParser::verif_stub_start_stop_u8)]
    #[kani::stub(ObjectParser::parse_start_stop_u16, ObjectParser::verif_stub_start_stop_u16)]
    #[kani::stub(ObjectParser::parse_count_u8, ObjectParser::verif_stub_count_u8)]
    #[kani::stub(ObjectParser::parse_count_u16, ObjectParser::verif_stub_count_u16)]
    #[kani::stub(ObjectParser::parse_count_and_prefix_u8, ObjectParser::verif_stub_count_and_prefix_u8)]
    #[kani::stub(ObjectParser::parse_count_and_prefix_u16, ObjectParser::verif_stub_count_and_prefix_u16)]
    #[kani::stub(ObjectParser::parse_free_format_u16, ObjectParser::verif_stub_free_format_u16)]
    fn vk_c09_objparser_qualifier_dispatch() {
        let buf: [u8; 5] = kani::any();
        let (g, var, q) = (buf[0], buf[1], buf[2]);
        let mut p = parser_over(FunctionCode::Response, &buf);
        let r = p.parse_one_inner();
        let known = Variation::lookup(g, var);
        let (calls, arm, pos, av) = unsafe { (ARM_CALLS, ARM, ARM_POS, ARM_V) };
        match known {
            None => {
                assert!(matches!(r, Err(ObjectParseError::UnknownGroupVariation(a, b)) if a == g && b == var));
                assert!(calls == 0);
                kani::cover!(true);
            }
            Some(v) => {
                if !spec::qualifier_supported(q) {
                    assert!(matches!(r, Err(ObjectParseError::UnknownQualifier(x)) if x == q));
                    assert!(calls == 0);
                    kani::cover!(q == 0x02);
                } else {
                    assert!(calls == 1 && arm == q && pos == 3);
                    assert!(av == v);
                    assert!(matches!(r, Err(ObjectParseError::UnsupportedFreeFormatCount(a)) if a == q));
                    kani::cover!(q == 0x00);
                    kani::cover!(q == 0x01);
                    kani::cover!(q == 0x06);
                    kani::cover!(q == 0x07);
                    kani::cover!(q == 0x08);
                    kani::cover!(q == 0x17);
                    kani::cover!(q == 0x28);
                    kani::cover!(q == 0x5B);
                }
            }
        }
    }

    // @harness ids=C09,C01 tier=thorough kind=proof stubs=1 units=app::parse::parser::ObjectParser::parse_one_inner timeout=300 note="an object header cut behind its variation octet (2 arbitrary octets left) is rejected and no qualifier arm runs (arms behind the logging stubs of vk_c09_objparser_qualifier_dispatch)"
    #[kani::proof]
    #[kani::stub(ObjectParser::parse_all_objects, ObjectParser::verif_stub_all_objects)]
    #[kani::stub(ObjectParser::parse_start_stop_u8, ObjectParser::verif_stub_start_stop_u8)]
    #[kani::stub(ObjectParser::parse_start_stop_u16, ObjectParser::verif_stub_start_stop_u16)]
    #[kani::stub(ObjectParser::parse_count_u8, ObjectParser::verif_stub_count_u8)]
    #[kani::stub(ObjectParser::parse_count_u16, ObjectParser::verif_stub_count_u16)]
    #[kani::stub(ObjectParser::parse_count_and_prefix_u8, ObjectParser::verif_stub_count_and_prefix_u8)]
    #[kani::stub(ObjectParser::parse_count_and_prefix_u16, ObjectParser::verif_stub_count_and_prefix_u16)]
    #[kani::stub(ObjectParser::parse_free_format_u16, ObjectParser::verif_stub_free_format_u16)]
    fn vk_c09_objparser_header_cut_short() {
        let buf: [u8; 2] = kani::any();
        let mut e2 = parser_over(FunctionCode::Response, &buf);
        assert!(e2.parse_one_inner().is_err());
        unsafe {
            assert!(ARM_CALLS == 0);
        }
        kani::cover!(Variation::lookup(buf[0], buf[1]).is_some());
    }

    // ================================================================ round trips: HeaderWriter -> header parser
    // (the three header octets are decoded with Variation::parse / QualifierCode::parse, then the arm that
    //  vk_c09_objparser_qualifier_dispatch proves parse_one_inner selects for that qualifier is run for real)
    fn expect_header<'a>(r: Result<ObjectHeader<'a>, ObjectParseError>) -> ObjectHeader<'a> {
        match r {
            Ok(h) => h,
            Err(_) => {
                assert!(false);
                ObjectHeader::new(Variation::Group1Var0, HeaderDetails::AllObjects(AllObjectsVariation::Group1Var0))
            }
        }
    }

    fn decode_gvq(p: &mut ObjectParser) -> (Variation, QualifierCode) {
        let v = match Variation::parse(&mut p.cursor) {
            Ok(v) => v,
            Err(_) => {
                assert!(false);
                Variation::Group1Var0
            }
        };
        let q = match QualifierCode::parse(&mut p.cursor) {
            Ok(q) => q,
            Err(_) => {
                assert!(false);
                QualifierCode::AllObjects
            }
        };
        (v, q)
    }

    // @harness ids=C09,C01 tier=quick kind=proof units=app::format::write::HeaderWriter::write_all_objects_header,app::format::write::HeaderWriter::write_range_only,app::parse::parser::ObjectParser::parse_all_objects,app::parse::parser::ObjectParser::parse_start_stop_u8 timeout=300 note="READ request as the master builds it: class poll header (g60v2, all objects) and a g1v2 8-bit range (every start <= stop): the outstation-side header parser returns the same variation, qualifier and start/stop and consumes every octet"
    #[kani::proof]
    fn vk_c09_roundtrip_read_all_objects_and_range8() {
        {
            let mut buf = [0u8; 3];
            {
                let mut c = WriteCursor::new(&mut buf);
                assert!(HeaderWriter::new(&mut c).write_all_objects_header(Variation::Group60Var2).is_ok());
            }
            let mut p = parser_over(FunctionCode::Read, &buf);
            let (v, q) = decode_gvq(&mut p);
            assert!(q == QualifierCode::AllObjects);
            let h = expect_header(p.parse_all_objects(v));
            assert!(h.variation == Variation::Group60Var2);
            assert!(matches!(h.details, HeaderDetails::AllObjects(AllObjectsVariation::Group60Var2)));
            assert!(p.cursor.is_empty());
        }
        {
            let (start, stop): (u8, u8) = (kani::any(), kani::any());
            kani::assume(start <= stop);
            let mut buf = [0u8; 5];
            {
                let mut c = WriteCursor::new(&mut buf);
                assert!(HeaderWriter::new(&mut c).write_range_only(Variation::Group1Var2, start, stop).is_ok());
            }
            let mut p = parser_over(FunctionCode::Read, &buf);
            let (v, q) = decode_gvq(&mut p);
            assert!(q == QualifierCode::Range8);
            let h = expect_header(p.parse_start_stop_u8(v));
            assert!(h.variation == Variation::Group1Var2);
            assert!(matches!(h.details, HeaderDetails::OneByteStartStop(a, b, RangedVariation::Group1Var2(_)) if a == start && b == stop));
            assert!(p.cursor.is_empty());
            kani::cover!(start == 3 && stop == 200);
        }
    }

    // @harness ids=C09,C01 tier=quick kind=proof units=app::format::write::HeaderWriter::write_range_only,app::parse::parser::ObjectParser::parse_start_stop_u16 timeout=300 note="READ request: g30v1 16-bit range, every start <= stop: the header parser returns the same variation, qualifier 0x01 and start/stop, every octet consumed"
    #[kani::proof]
    fn vk_c09_roundtrip_read_range16() {
        let (start, stop): (u16, u16) = (kani::any(), kani::any());
        kani::assume(start <= stop);
        let mut buf = [0u8; 7];
        {
            let mut c = WriteCursor::new(&mut buf);
            assert!(HeaderWriter::new(&mut c).write_range_only(Variation::Group30Var1, start, stop).is_ok());
        }
        let mut p = parser_over(FunctionCode::Read, &buf);
        let (v, q) = decode_gvq(&mut p);
        assert!(q == QualifierCode::Range16);
        let h = expect_header(p.parse_start_stop_u16(v));
        assert!(h.variation == Variation::Group30Var1);
        assert!(matches!(h.details, HeaderDetails::TwoByteStartStop(a, b, RangedVariation::Group30Var1(_)) if a == start && b == stop));
        assert!(p.cursor.is_empty());
        kani::cover!(start == 0x0100 && stop == 0xFFFF);
    }

    // @harness ids=C09,C01 tier=thorough kind=proof units=app::format::write::HeaderWriter::write_limited_count,app::parse::parser::ObjectParser::parse_count_u8,app::parse::parser::ObjectParser::parse_count_u16 timeout=300 note="READ request: g2v0 limited count, 8-bit and 16-bit, every count: the header parser returns the same variation, qualifier and count, every octet consumed"
    #[kani::proof]
    fn vk_c09_roundtrip_read_limited_count() {
        {
            let count: u8 = kani::any();
            let mut buf = [0u8; 4];
            {
                let mut c = WriteCursor::new(&mut buf);
                assert!(HeaderWriter::new(&mut c).write_limited_count(Variation::Group2Var0, count).is_ok());
            }
            let mut p = parser_over(FunctionCode::Read, &buf);
            let (v, q) = decode_gvq(&mut p);
            assert!(q == QualifierCode::Count8);
            let h = expect_header(p.parse_count_u8(v));
            assert!(h.variation == Variation::Group2Var0);
            assert!(matches!(h.details, HeaderDetails::OneByteCount(c, CountVariation::Group2Var0) if c == count));
            assert!(p.cursor.is_empty());
        }
        {
            let count: u16 = kani::any();
            let mut buf = [0u8; 5];
            {
                let mut c = WriteCursor::new(&mut buf);
                assert!(HeaderWriter::new(&mut c).write_limited_count(Variation::Group2Var0, count).is_ok());
            }
            let mut p = parser_over(FunctionCode::Read, &buf);
            let (v, q) = decode_gvq(&mut p);
            assert!(q == QualifierCode::Count16);
            let h = expect_header(p.parse_count_u16(v));
            assert!(h.variation == Variation::Group2Var0);
            assert!(matches!(h.details, HeaderDetails::TwoByteCount(c, CountVariation::Group2Var0) if c == count));
            assert!(p.cursor.is_empty());
            kani::cover!(count == 0x0100);
        }
    }

    // @harness ids=C09,C01 tier=thorough kind=bounded bound="2 commands" units=app::format::write::HeaderWriter::write_prefixed_items,app::parse::parser::ObjectParser::parse_count_and_prefix_u8 timeout=300 note="SELECT/OPERATE with 2 CROBs (all fields and both 8-bit indices symbolic): the outstation-side header parser returns g12v1, qualifier 0x17, count 2, and iterating the header yields the encoded indices and objects in order; every octet consumed"
    #[kani::proof]
    #[kani::unwind(6)]
    fn vk_c09_roundtrip_crob_u8_n2() {
        let items: [(Group12Var1, u8); 2] = [
            (Group12Var1 { code: fx::any_control_code(), count: kani::any(), on_time: kani::any(), off_time: kani::any(), status: fx::any_command_status() }, kani::any()),
            (Group12Var1 { code: fx::any_control_code(), count: kani::any(), on_time: kani::any(), off_time: kani::any(), status: fx::any_command_status() }, kani::any()),
        ];
        let mut buf = [0u8; 28];
        {
            let mut c = WriteCursor::new(&mut buf);
            assert!(HeaderWriter::new(&mut c).write_prefixed_items(items.iter()).is_ok());
            assert!(c.remaining() == 0);
        }
        // (solver hint, no change of value: vk_c09_write_prefixed_* proves the patched count)
        assert!(buf[3] == 2);
        buf[3] = 2;
        let function = if kani::any() { FunctionCode::Select } else { FunctionCode::Operate };
        let mut p = parser_over(function, &buf);
        let (v, q) = decode_gvq(&mut p);
        assert!(q == QualifierCode::CountAndPrefix8);
        let h = expect_header(p.parse_count_and_prefix_u8(v));
        assert!(h.variation == Variation::Group12Var1);
        match h.details {
            HeaderDetails::OneByteCountAndPrefix(2, PrefixedVariation::Group12Var1(seq)) => {
                let mut it = seq.iter();
                let mut k = 0;
                while k < 2 {
                    match it.next() {
                        Some(x) => {
                            assert!(x.index == items[k].1);
                            assert!(fx::same_control_code(&x.value.code, &items[k].0.code));
                            assert!(x.value.count == items[k].0.count && x.value.on_time == items[k].0.on_time);
                            assert!(x.value.off_time == items[k].0.off_time && x.value.status == items[k].0.status);
                        }
                        None => assert!(false),
                    }
                    k += 1;
                }
                assert!(it.next().is_none());
            }
            _ => assert!(false),
        }
        assert!(p.cursor.is_empty());
        kani::cover!(items[0].1 == 255 && items[1].1 == 0);
    }

    // @harness ids=C09,C01 tier=thorough kind=proof units=app::format::write::HeaderWriter::write_count_of_one,app::parse::parser::ObjectParser::parse_count_u8 timeout=300 note="WRITE request: g50v1 absolute time as a count of one (every time value): the outstation-side header parser returns g50v1, qualifier 0x07, count 1, and the single object carries the encoded time; every octet consumed"
    #[kani::proof]
    #[kani::unwind(4)]
    fn vk_c09_roundtrip_write_time() {
        let item = Group50Var1 { time: fx::any_timestamp() };
        let mut buf = [0u8; 10];
        {
            let mut c = WriteCursor::new(&mut buf);
            assert!(HeaderWriter::new(&mut c).write_count_of_one(item).is_ok());
            assert!(c.remaining() == 0);
        }
        assert!(buf[3] == 1);
        buf[3] = 1;
        let mut p = parser_over(FunctionCode::Write, &buf);
        let (v, q) = decode_gvq(&mut p);
        assert!(q == QualifierCode::Count8);
        let h = expect_header(p.parse_count_u8(v));
        assert!(h.variation == Variation::Group50Var1);
        match h.details {
            HeaderDetails::OneByteCount(1, CountVariation::Group50Var1(seq)) => match seq.single() {
                Some(x) => assert!(x.time.raw_value() == item.time.raw_value()),
                None => assert!(false),
            },
            _ => assert!(false),
        }
        assert!(p.cursor.is_empty());
        kani::cover!(true);
    }

    // @harness ids=C09,C01 tier=quick kind=proof units=app::format::write::HeaderWriter::write_clear_restart,app::parse::parser::ObjectParser::parse_start_stop_u8 timeout=300 note="WRITE request clear-restart (g80v1 7..7 = 0): the outstation-side header parser returns g80v1, qualifier 0x00, range 7..7, and iterating yields one bit (index 7, false); every octet consumed"
    #[kani::proof]
    #[kani::unwind(4)]
    fn vk_c09_roundtrip_clear_restart() {
        let mut buf = [0xFFu8; 6];
        {
            let mut c = WriteCursor::new(&mut buf);
            assert!(HeaderWriter::new(&mut c).write_clear_restart().is_ok());
            assert!(c.remaining() == 0);
        }
        let mut p = parser_over(FunctionCode::Write, &buf);
        let (v, q) = decode_gvq(&mut p);
        assert!(q == QualifierCode::Range8);
        let h = expect_header(p.parse_start_stop_u8(v));
        assert!(h.variation == Variation::Group80Var1);
        match h.details {
            HeaderDetails::OneByteStartStop(7, 7, RangedVariation::Group80Var1(seq)) => {
                let mut it = seq.iter();
                assert!(matches!(it.next(), Some((false, 7))));
                assert!(it.next().is_none());
            }
            _ => assert!(false),
        }
        assert!(p.cursor.is_empty());
        kani::cover!(true);
    }

    // @harness ids=C09,C01 tier=thorough kind=proof units=app::format::write::HeaderWriter::write_free_format,app::parse::parser::ObjectParser::parse_free_format_u16 timeout=300 note="file transport request: write_free_format(g70v5: handle, block symbolic, 3 data octets) then the header parser: same variation, qualifier 0x5B, count 1, object with the same handle, block and data octets; every octet consumed"
    #[kani::proof]
    #[kani::unwind(6)]
    fn vk_c09_roundtrip_free_format_g70v5() {
        let data: [u8; 3] = kani::any();
        let obj = Group70Var5 { file_handle: kani::any(), block_number: kani::any(), file_data: &data };
        let mut buf = [0u8; 17];
        {
            let mut c = WriteCursor::new(&mut buf);
            assert!(HeaderWriter::new(&mut c).write_free_format(&obj).is_ok());
            assert!(c.remaining() == 0);
        }
        // (solver hint, no change of value: vk_c09_write_free_format_* proves these header octets)
        assert!(buf[3] == 1 && buf[4] == 11 && buf[5] == 0);
        buf[4] = 11;
        buf[5] = 0;
        let mut p = parser_over(FunctionCode::Write, &buf);
        let (v, q) = decode_gvq(&mut p);
        assert!(q == QualifierCode::FreeFormat16);
        let h = expect_header(p.parse_free_format_u16(v));
        assert!(h.variation == Variation::Group70Var5);
        match h.details {
            HeaderDetails::TwoByteFreeFormat(1, FreeFormatVariation::Group70Var5(x)) => {
                assert!(x.file_handle == obj.file_handle && x.block_number == obj.block_number);
                assert!(ff::same_bytes(x.file_data, &data));
            }
            _ => assert!(false),
        }
        assert!(p.cursor.is_empty());
        kani::cover!(data[0] == 0xFF && obj.block_number == 0x8000_0000);
    }

    // @harness ids=C09,C01 tier=thorough kind=proof units=app::format::write::HeaderWriter::write_free_format,app::parse::parser::ObjectParser::parse_free_format_u16 timeout=300 note="file status response: g70v4 (all fields symbolic, 2 UTF-8 text octets) through write_free_format then the header parser: same variation, count 1, every field and the text octets equal; every octet consumed"
    #[kani::proof]
    #[kani::unwind(6)]
    fn vk_c09_roundtrip_free_format_g70v4() {
        let tb: [u8; 2] = kani::any();
        let obj = Group70Var4 {
            file_handle: kani::any(),
            file_size: kani::any(),
            max_block_size: kani::any(),
            request_id: kani::any(),
            status_code: ff::any_file_status(),
            text: ff::utf8_spec(&tb),
        };
        let mut buf = [0u8; 21];
        {
            let mut c = WriteCursor::new(&mut buf);
            assert!(HeaderWriter::new(&mut c).write_free_format(&obj).is_ok());
            assert!(c.remaining() == 0);
        }
        assert!(buf[3] == 1 && buf[4] == 15 && buf[5] == 0);
        buf[4] = 15;
        buf[5] = 0;
        let mut p = parser_over(FunctionCode::Response, &buf);
        let (v, q) = decode_gvq(&mut p);
        assert!(q == QualifierCode::FreeFormat16);
        let h = expect_header(p.parse_free_format_u16(v));
        assert!(h.variation == Variation::Group70Var4);
        match h.details {
            HeaderDetails::TwoByteFreeFormat(1, FreeFormatVariation::Group70Var4(x)) => {
                assert!(x.file_handle == obj.file_handle && x.file_size == obj.file_size);
                assert!(x.max_block_size == obj.max_block_size && x.request_id == obj.request_id);
                assert!(x.status_code == obj.status_code);
                assert!(ff::same_bytes(x.text.as_bytes(), &tb));
            }
            _ => assert!(false),
        }
        assert!(p.cursor.is_empty());
        kani::cover!(tb[0] == 0xC3 && tb[1] == 0xA9);
    }

    // @harness ids=C09,C01 tier=thorough kind=proof units=app::format::write::HeaderWriter::write_free_format,app::parse::parser::ObjectParser::parse_free_format_u16 timeout=300 note="file descriptor: g70v7 (all fields symbolic, 2 UTF-8 name octets) through write_free_format then the header parser: same variation, count 1, every field and the name octets equal; every octet consumed"
    #[kani::proof]
    #[kani::unwind(6)]
    fn vk_c09_roundtrip_free_format_g70v7() {
        let nb: [u8; 2] = kani::any();
        let obj = Group70Var7 {
            file_type: ff::any_file_type(),
            file_size: kani::any(),
            time_of_creation: fx::any_timestamp(),
            permissions: ff::any_permissions(),
            request_id: kani::any(),
            file_name: ff::utf8_spec(&nb),
        };
        let mut buf = [0u8; 28];
        {
            let mut c = WriteCursor::new(&mut buf);
            assert!(HeaderWriter::new(&mut c).write_free_format(&obj).is_ok());
            assert!(c.remaining() == 0);
        }
        assert!(buf[3] == 1 && buf[4] == 22 && buf[5] == 0 && buf[8] == 2 && buf[9] == 0);
        buf[4] = 22;
        buf[5] = 0;
        buf[8] = 2;
        buf[9] = 0;
        let mut p = parser_over(FunctionCode::Response, &buf);
        let (v, q) = decode_gvq(&mut p);
        assert!(q == QualifierCode::FreeFormat16);
        let h = expect_header(p.parse_free_format_u16(v));
        assert!(h.variation == Variation::Group70Var7);
        match h.details {
            HeaderDetails::TwoByteFreeFormat(1, FreeFormatVariation::Group70Var7(x)) => {
                assert!(x.file_type == obj.file_type && x.file_size == obj.file_size);
                assert!(x.time_of_creation.raw_value() == obj.time_of_creation.raw_value());
                assert!(x.permissions == obj.permissions && x.request_id == obj.request_id);
                assert!(ff::same_bytes(x.file_name.as_bytes(), &nb));
            }
            _ => assert!(false),
        }
        assert!(p.cursor.is_empty());
        kani::cover!(nb[0] == 0xC3 && nb[1] == 0xA9);
    }
