    // Harness-side constructors/accessors for private fields (no logic).
    pub(crate) fn mk_header_collection<'a>(function: FunctionCode, data: &'a [u8]) -> HeaderCollection<'a> {
        HeaderCollection { options: ParseOptions::parse_everything(), function, data }
    }
    pub(crate) fn hc_data<'a>(hc: &HeaderCollection<'a>) -> &'a [u8] { hc.data }
    pub(crate) fn hc_function(hc: &HeaderCollection) -> FunctionCode { hc.function }
