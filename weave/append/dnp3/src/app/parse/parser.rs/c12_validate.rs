    use crate::verif_spec as spec;
    use crate::app::app_enums::verif_kani_c09_enums::any_functioncode;
    use crate::app::header::{Iin1, Iin2};

    fn any_objects<'a>(function: FunctionCode, data: &'a [u8]) -> (Result<HeaderCollection<'a>, ObjectParseError>, bool) {
        let bad: bool = kani::any();
        if bad {
            (Err(ObjectParseError::InsufficientBytes), true)
        } else {
            (Ok(HeaderCollection { options: ParseOptions::parse_everything(), function, data }), false)
        }
    }

    fn same_objects(a: &Result<HeaderCollection, ObjectParseError>, data: &[u8], function: FunctionCode, bad: bool) -> bool {
        match a {
            Ok(hc) => !bad && hc.data.as_ptr() == data.as_ptr() && hc.data.len() == data.len() && hc.function == function,
            Err(e) => bad && *e == ObjectParseError::InsufficientBytes,
        }
    }

    fn any_fragment<'a>(raw: &'a [u8; 8]) -> (ParsedFragment<'a>, u8, bool, bool) {
        let ctrl: u8 = kani::any();
        let function = any_functioncode();
        let has_iin: bool = kani::any();
        let iin = if has_iin { Some(Iin::new(Iin1::new(kani::any()), Iin2::new(kani::any()))) } else { None };
        let raw_objects: &[u8] = if has_iin { &raw[4..] } else { &raw[2..] };
        let (objects, bad) = any_objects(function, raw_objects);
        let f = ParsedFragment {
            control: ControlField::from(ctrl),
            function,
            options: ParseOptions::parse_everything(),
            iin,
            objects,
            raw_fragment: &raw[..],
            raw_objects,
        };
        (f, ctrl, has_iin, bad)
    }

    // @harness ids=C12,C01 tier=quick kind=proof units=app::parse::parser::ParsedFragment::to_request timeout=120 note="every control octet x every function code x IIN present/absent x objects ok/malformed: accepted as a request IFF no IIN / not a response code, FIR and FIN, UNS only on CONFIRM; header, raw fragment and object headers are carried through unchanged"
    #[kani::proof]
    fn vk_c12_to_request() {
        let raw: [u8; 8] = kani::any();
        let (f, ctrl, has_iin, bad) = any_fragment(&raw);
        let function = f.function;
        let code = function.as_u8();
        let raw_objects = f.raw_objects;
        // fragments as the parser produces them: IIN present exactly for the two response codes
        kani::assume(has_iin == (code == 129 || code == 130));
        match f.to_request() {
            Ok(r) => {
                assert!(spec::request_fragment_valid(ctrl, code, has_iin));
                assert!(r.header.control == ControlField::from(ctrl) && r.header.control.to_u8() == ctrl);
                assert!(r.header.function == function);
                assert!(r.raw_fragment.as_ptr() == raw.as_ptr() && r.raw_fragment.len() == 8);
                assert!(same_objects(&r.objects, raw_objects, function, bad));
                kani::cover!(code == 0 && r.header.control.uns);
                kani::cover!(code == 1 && bad);
                kani::cover!(code == 2 && !bad);
            }
            Err(_) => {
                assert!(!spec::request_fragment_valid(ctrl, code, has_iin));
                kani::cover!(code == 129);
                kani::cover!(code == 1 && ctrl & 0xC0 == 0x80);
                kani::cover!(code == 1 && ctrl & 0xD0 == 0xD0);
            }
        }
    }

    // @harness ids=C12,C01 tier=quick kind=proof units=app::parse::parser::ParsedFragment::to_request timeout=120 note="robustness beyond what the parser produces: a fragment record that carries IIN is never accepted as a request, whatever its function code"
    #[kani::proof]
    fn vk_c12_to_request_any_iin() {
        let raw: [u8; 8] = kani::any();
        let (f, ctrl, has_iin, _bad) = any_fragment(&raw);
        let code = f.function.as_u8();
        let ok = f.to_request().is_ok();
        if has_iin { assert!(!ok); }
        if ok { assert!(ctrl & 0xC0 == 0xC0 && (ctrl & 0x10 == 0 || code == 0)); }
        kani::cover!(ok);
        kani::cover!(has_iin && code == 1);
    }

    // @harness ids=C12,C01 tier=quick kind=proof units=app::parse::parser::ParsedFragment::to_response timeout=120 note="every control octet x every function code x IIN present/absent x objects ok/malformed: accepted as a response IFF RESPONSE with UNS clear or UNSOLICITED_RESPONSE with UNS, FIR and FIN (both with IIN); control, function, IIN, raw objects and object headers are carried through unchanged"
    #[kani::proof]
    fn vk_c12_to_response() {
        let raw: [u8; 8] = kani::any();
        let (f, ctrl, has_iin, bad) = any_fragment(&raw);
        let function = f.function;
        let code = function.as_u8();
        let iin = f.iin;
        let raw_objects = f.raw_objects;
        match f.to_response() {
            Ok(r) => {
                assert!(spec::response_fragment_valid(ctrl, code, has_iin));
                assert!(r.header.control.to_u8() == ctrl);
                assert!(<FunctionCode as From<ResponseFunction>>::from(r.header.function) == function);
                assert!(r.header.function.is_unsolicited() == (code == 130));
                assert!(Some(r.header.iin) == iin);
                assert!(r.raw_objects.as_ptr() == raw_objects.as_ptr() && r.raw_objects.len() == raw_objects.len());
                assert!(same_objects(&r.objects, raw_objects, function, bad));
                kani::cover!(code == 129 && ctrl & 0xC0 == 0x00);
                kani::cover!(code == 130 && bad);
            }
            Err(_) => {
                assert!(!spec::response_fragment_valid(ctrl, code, has_iin));
                kani::cover!(code == 129 && has_iin);
                kani::cover!(code == 130 && has_iin && ctrl & 0x10 != 0);
                kani::cover!(code == 130 && has_iin && ctrl & 0x10 == 0);
                kani::cover!(code == 1);
                kani::cover!(code == 129 && !has_iin);
            }
        }
    }
