    use crate::verif_spec as spec;
    use crate::app::parse::range::verif_kani_c09_range::any_range;

    fn any_options() -> ParseOptions {
        ParseOptions { parse_zero_length_strings: kani::any() }
    }

    // @harness ids=C09,C01 tier=thorough kind=proof units=app::parse::bytes::RangedBytesSequence::parse timeout=300 note="octet strings g110vN by range, 600 bytes available, every N 0..=255 and every range (0..=65536 objects): Ok iff N*count bytes present (and N != 0 unless zero-length strings are enabled); consumes and keeps exactly those bytes, remembers start index, size, count; else consumes nothing"
    #[kani::proof]
    fn vk_c09_ranged_bytes_parse() {
        const L: usize = 601;
        let buf = [0u8; L]; // parse never looks at the contents
        let options = any_options();
        let variation: u8 = kani::any();
        let range = any_range();
        let (start, count) = (range.get_start(), range.get_count());
        let mut c = ReadCursor::new(&buf);
        assert!(c.read_u8().is_ok());
        let need = variation as usize * count;
        match RangedBytesSequence::parse(options, variation, start, count, &mut c) {
            Ok(seq) => {
                assert!(need <= L - 1);
                assert!(variation != 0 || options.parse_zero_length_strings);
                assert!(c.position() == 1 + need);
                assert!(seq.bytes.len() == need && seq.bytes.as_ptr() == buf[1..].as_ptr());
                assert!(seq.index == start && seq.size == variation as usize && seq.count == count);
                kani::cover!(variation == 255 && count == 2);
                kani::cover!(variation == 0 && count == 65536);
                kani::cover!(need == L - 1);
                kani::cover!(count == 0);
            }
            Err(_) => {
                assert!(need > L - 1 || (variation == 0 && !options.parse_zero_length_strings));
                assert!(c.position() == 1);
                kani::cover!(variation == 0);
                kani::cover!(variation == 255 && count == 65536);
            }
        }
    }

    // @harness ids=C09,C01 tier=thorough kind=proof units=app::parse::bytes::PrefixedBytesSequence::parse timeout=300 note="octet string events g111vN with 1- and 2-byte index prefix, 600 bytes available, every N and count: Ok iff (N+prefix)*count bytes present (and N != 0 unless enabled); consumes and keeps exactly those bytes; else consumes nothing"
    #[kani::proof]
    fn vk_c09_prefixed_bytes_parse() {
        prefixed_bytes_parse_contract::<u8>(1);
        prefixed_bytes_parse_contract::<u16>(2);
    }

    fn prefixed_bytes_parse_contract<T: FixedSize>(prefix: usize) {
        const L: usize = 601;
        let buf = [0u8; L];
        let options = any_options();
        let variation: u8 = kani::any();
        let count: u16 = kani::any();
        let mut c = ReadCursor::new(&buf);
        assert!(c.read_u8().is_ok());
        let need = (variation as usize + prefix) * count as usize;
        match PrefixedBytesSequence::<T>::parse(options, variation, count, &mut c) {
            Ok(seq) => {
                assert!(need <= L - 1);
                assert!(variation != 0 || options.parse_zero_length_strings);
                assert!(c.position() == 1 + need);
                assert!(seq.bytes.len() == need && seq.bytes.as_ptr() == buf[1..].as_ptr());
                assert!(seq.size == variation as usize && seq.count == count as usize);
                kani::cover!(variation == 255 && count == 2);
                kani::cover!(need == L - 1);
                kani::cover!(count == 0);
            }
            Err(_) => {
                assert!(need > L - 1 || (variation == 0 && !options.parse_zero_length_strings));
                assert!(c.position() == 1);
                kani::cover!(variation == 0);
                kani::cover!(variation == 255 && count == 65535);
            }
        }
    }

    /// RangedBytesIterator over N strings of SZ bytes (NB = N*SZ, any contents) whose first index is `start`:
    /// yields exactly N items, the k-th being (the SZ bytes at offset k*SZ, index start+k); then None for good.
    fn ranged_bytes_iter_contract<const SZ: usize, const N: usize, const NB: usize>(start: u16) {
        assert!(NB == SZ * N && SZ <= 255);
        let data: [u8; NB] = kani::any();
        let mut c = ReadCursor::new(&data);
        let seq = match RangedBytesSequence::parse(ParseOptions::parse_everything(), SZ as u8, start, N, &mut c) {
            Ok(s) => s,
            Err(_) => {
                assert!(false);
                return;
            }
        };
        assert!(c.is_empty());
        let mut it = seq.iter();
        let mut k = 0;
        while k < N {
            assert!(it.size_hint() == (N - k, Some(N - k)));
            match it.next() {
                Some((b, idx)) => {
                    assert!(idx as usize == start as usize + k);
                    assert!(b.len() == SZ);
                    if SZ > 0 {
                        assert!(b.as_ptr() == data[k * SZ..].as_ptr());
                    }
                }
                None => assert!(false),
            }
            k += 1;
        }
        assert!(it.next().is_none());
        assert!(it.next().is_none());
        assert!(it.size_hint() == (0, Some(0)));
    }

    // D1 (DESIGN.md section 4 / C01 findings): EXPECTED TO FAIL on the pinned tree -- `self.index += 1` in
    // RangedBytesIterator::next overflows u16 when the item just yielded has index 65535. Do not weaken.
    // @harness ids=C09,C01 tier=quick kind=bounded bound="2 strings of 3 bytes in the sequence; first index full u16 domain such that the last index is <= 65535 (includes ranges ending at 65535)" units=app::parse::bytes::RangedBytesIterator::next,app::parse::bytes::RangedBytesSequence::iter timeout=300 note="g110v3 x 2 from any start index incl. 65534..=65535: exactly 2 items (bytes at 0..3 / 3..6, indices start, start+1), then None; no panic"
    #[kani::proof]
    #[kani::unwind(4)]
    fn vk_c09_ranged_bytes_iter_any_start() {
        let start: u16 = kani::any();
        // @assume: the range start..=start+1 exists (Range::from guarantees stop <= 65535)
        kani::assume(start <= 65534);
        ranged_bytes_iter_contract::<3, 2, 6>(start);
        // single cover on purpose: while D1 is open it is unreachable, so the only concrete-playback test Kani emits is
        // the one for the failing overflow check (start = 65534)
        kani::cover!(start == 65534);
    }

    // @harness ids=C09,C01 tier=thorough kind=bounded bound="3 strings of 2 bytes / 1 string of 255 bytes / empty sequence; last index < 65535 (the complement of the D1 finding)" units=app::parse::bytes::RangedBytesIterator::next timeout=300 note="the iterator contract holds for every range that does not end at index 65535"
    #[kani::proof]
    #[kani::unwind(5)]
    fn vk_c09_ranged_bytes_iter_below_65535() {
        let start: u16 = kani::any();
        // @assume: last index start+2 < 65535 (ranges ending at 65535 are the D1 harness above)
        kani::assume(start < 65533);
        ranged_bytes_iter_contract::<2, 3, 6>(start);
        ranged_bytes_iter_contract::<255, 1, 255>(start);
        ranged_bytes_iter_contract::<4, 0, 0>(0);
        ranged_bytes_iter_contract::<0, 3, 0>(start);
        kani::cover!(start == 65532);
    }

    /// PrefixedBytesIterator<I> over N items of (index prefix, SZ bytes): yields exactly N items, the k-th being
    /// (the SZ bytes at offset k*(P+SZ)+P, the index I::read gives at offset k*(P+SZ)); then None for good.
    fn prefixed_bytes_iter_contract<I: FixedSize + PartialEq, const SZ: usize, const N: usize, const NB: usize>() {
        let p = I::SIZE as usize;
        assert!(NB == (SZ + p) * N && SZ <= 255);
        let data: [u8; NB] = kani::any();
        let mut c = ReadCursor::new(&data);
        let seq = match PrefixedBytesSequence::<I>::parse(ParseOptions::parse_everything(), SZ as u8, N as u16, &mut c) {
            Ok(s) => s,
            Err(_) => {
                assert!(false);
                return;
            }
        };
        assert!(c.is_empty());
        let mut it = seq.iter();
        let mut k = 0;
        while k < N {
            assert!(it.size_hint() == (N - k, Some(N - k)));
            let off = k * (SZ + p);
            let mut direct = ReadCursor::new(&data[off..off + p]);
            match (it.next(), I::read(&mut direct)) {
                (Some((b, idx)), Ok(e)) => {
                    assert!(idx == e);
                    assert!(b.len() == SZ);
                    if SZ > 0 {
                        assert!(b.as_ptr() == data[off + p..].as_ptr());
                    }
                }
                _ => assert!(false),
            }
            k += 1;
        }
        assert!(it.next().is_none());
        assert!(it.next().is_none());
        assert!(it.size_hint() == (0, Some(0)));
        kani::cover!(true);
    }

    // @harness ids=C09,C01 tier=quick kind=bounded bound="2 strings of 3 bytes (u16 prefix), 3 strings of 1 byte (u8 prefix), 2 strings of 0 bytes, empty sequence" units=app::parse::bytes::PrefixedBytesIterator::next,app::parse::bytes::PrefixedBytesSequence::iter timeout=300 note="g111vN: exactly N items, each (the transmitted index incl. 65535 / 255, the N bytes behind it); then None"
    #[kani::proof]
    #[kani::unwind(5)]
    fn vk_c09_prefixed_bytes_iter() {
        prefixed_bytes_iter_contract::<u16, 3, 2, 10>();
        prefixed_bytes_iter_contract::<u8, 1, 3, 6>();
        prefixed_bytes_iter_contract::<u16, 0, 2, 4>();
        prefixed_bytes_iter_contract::<u8, 7, 0, 0>();
    }
