    use crate::verif_spec as spec;
    use crate::app::variations::verif_kani_c09_fixed as fx;
    use crate::app::variations::{Group2Var3, Group12Var1, Group41Var4};

    // @harness ids=C09,C01 tier=thorough kind=proof units=app::parse::prefix::Prefix::read,app::parse::prefix::Prefix::write,app::parse::traits::FixedSize::read,app::parse::traits::FixedSize::write timeout=300 note="Prefix<u16, g12v1> (index + CROB, 13 bytes): same contract as the bare objects: index and every object field bit-identical after write/read, cursor moves by 2+11, one byte short rejected by both, bytes -> value -> bytes is the identity"
    #[kani::proof]
    #[kani::unwind(18)]
    fn vk_c09_fixed_prefix_u16_g12v1() {
        let v = Prefix::<u16, Group12Var1> {
            index: kani::any(),
            value: Group12Var1 { code: fx::any_control_code(), count: kani::any(), on_time: kani::any(), off_time: kani::any(), status: fx::any_command_status() },
        };
        fx::fixed_contract::<Prefix<u16, Group12Var1>, _>(v, 2 + spec::object_size(12, 1), |a: &Prefix<u16, Group12Var1>, b: &Prefix<u16, Group12Var1>| {
            a.index == b.index
                && fx::same_control_code(&a.value.code, &b.value.code)
                && a.value.count == b.value.count
                && a.value.on_time == b.value.on_time
                && a.value.off_time == b.value.off_time
                && a.value.status == b.value.status
        });
    }

    // @harness ids=C09,C01 tier=thorough kind=proof units=app::parse::prefix::Prefix::read,app::parse::prefix::Prefix::write timeout=300 note="Prefix<u8, g2v3> (4 bytes): write/read round trip contract"
    #[kani::proof]
    #[kani::unwind(18)]
    fn vk_c09_fixed_prefix_u8_g2v3() {
        let v = Prefix::<u8, Group2Var3> { index: kani::any(), value: Group2Var3 { flags: kani::any(), time: kani::any() } };
        fx::fixed_contract::<Prefix<u8, Group2Var3>, _>(v, 1 + spec::object_size(2, 3), |a: &Prefix<u8, Group2Var3>, b: &Prefix<u8, Group2Var3>| {
            a.index == b.index && a.value.flags == b.value.flags && a.value.time == b.value.time
        });
    }

    // @harness ids=C09,C01 tier=thorough kind=proof units=app::parse::prefix::Prefix::read,app::parse::prefix::Prefix::write timeout=300 note="Prefix<u16, g41v4> (2 + f64 + status = 11 bytes): write/read round trip contract, double compared by bits"
    #[kani::proof]
    #[kani::unwind(18)]
    fn vk_c09_fixed_prefix_u16_g41v4() {
        let v = Prefix::<u16, Group41Var4> { index: kani::any(), value: Group41Var4 { value: f64::from_bits(kani::any()), status: fx::any_command_status() } };
        fx::fixed_contract::<Prefix<u16, Group41Var4>, _>(v, 2 + spec::object_size(41, 4), |a: &Prefix<u16, Group41Var4>, b: &Prefix<u16, Group41Var4>| {
            a.index == b.index && a.value.value.to_bits() == b.value.value.to_bits() && a.value.status == b.value.status
        });
    }

    // @harness ids=C09,C01 tier=thorough kind=proof units=app::parse::traits::FixedSize::read,app::parse::traits::FixedSize::write timeout=300 note="u8 and u16 as object indices / counts: round trip contract (1 and 2 bytes, little endian both ways)"
    #[kani::proof]
    #[kani::unwind(18)]
    fn vk_c09_fixed_index_u8_u16() {
        fx::fixed_contract::<u8, _>(kani::any(), 1, |a: &u8, b: &u8| *a == *b);
        fx::fixed_contract::<u16, _>(kani::any(), 2, |a: &u16, b: &u16| *a == *b);
        // the standard's byte order: least significant octet first
        let x: u16 = kani::any();
        let mut buf = [0u8; 2];
        {
            let mut w = WriteCursor::new(&mut buf);
            assert!(x.write(&mut w).is_ok());
        }
        assert!(buf[0] == (x & 0xFF) as u8 && buf[1] == (x >> 8) as u8);
    }
