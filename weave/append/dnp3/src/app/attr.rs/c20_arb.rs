    // C20 support (no harness): `TypeError` (payload of the public `AttrDefError::BadType`) has crate-private fields and
    // constructor, so the binding crate cannot build one. A trait impl is visible across crates: the C20 harness in
    // ffi/dnp3-ffi writes `AttrDefError::BadType(kani::any())`.
    impl kani::Arbitrary for TypeError {
        fn any() -> Self {
            let pick = |k: u8| match k % 6 {
                0 => AttrDataType::VisibleString,
                1 => AttrDataType::UnsignedInt,
                2 => AttrDataType::SignedInt,
                3 => AttrDataType::FloatingPoint,
                4 => AttrDataType::OctetString,
                _ => AttrDataType::BitString,
            };
            TypeError::new(pick(kani::any()), pick(kani::any()))
        }
    }
