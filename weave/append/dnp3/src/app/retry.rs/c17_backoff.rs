    use crate::verif_spec as spec;

    // ---- helpers shared with the association fragment (fields of ExponentialBackOff are private to this module)
    pub(crate) fn mk_backoff(min: Duration, max: Duration, last: Option<Duration>) -> ExponentialBackOff {
        ExponentialBackOff { strategy: RetryStrategy { min_delay: min, max_delay: max }, last }
    }
    pub(crate) fn last_of(b: &ExponentialBackOff) -> Option<Duration> { b.last }
    pub(crate) fn min_of(b: &ExponentialBackOff) -> Duration { b.strategy.min_delay }
    pub(crate) fn max_of(b: &ExponentialBackOff) -> Duration { b.strategy.max_delay }

    pub(crate) fn any_duration() -> Duration {
        let s: u64 = kani::any();
        let n: u32 = kani::any();
        kani::assume(n < 1_000_000_000); // @assume: type invariant of Duration (sub-second part below one second)
        Duration::new(s, n)
    }

    /// type invariant of a live back-off object under the property's precondition min <= max:
    /// no failure yet, or the last delay lies within [min, max]
    pub(crate) fn backoff_inv(b: &ExponentialBackOff) -> bool {
        b.strategy.min_delay <= b.strategy.max_delay
            && match b.last { None => true, Some(l) => b.strategy.min_delay <= l && l <= b.strategy.max_delay }
    }

    // The scalar spec `backoff_next(min,max,last)` is unit-agnostic (doubling and capping commute with the choice of unit). It is
    // checked here with the unit = 1 s (whole-second configurations, all of u64) and the unit = 1 ns (sub-second configurations).
    // Whole-MILLISECOND configurations in general are covered by vk_c17_backoff_full_domain against the (seconds,nanoseconds)
    // form of the same rule; the equivalence of the two spec forms on ms-multiples is a linear-arithmetic lemma that SAT does
    // not decide in reasonable time (measured: 176 s at 32 bits, > 240 s at 64 bits) and is left to the Verus lemma L-C17.
    // @harness ids=C17,C01 tier=quick kind=proof units=app::retry::ExponentialBackOff::on_failure,app::retry::ExponentialBackOff::on_success,app::retry::ExponentialBackOff::new timeout=300 note="whole-second configurations (any u64 seconds) and sub-second configurations (any ns < 10^9), min<=max, any state within the invariant: next delay = spec backoff_next (min first, then min(2*last,max)), stored as new last, min<=delay<=max, configuration unchanged; new/on_success give the no-failure state and the sequence restarts at min"
    #[kani::proof]
    fn vk_c17_backoff_scalar_spec() {
        let (min, max, last): (u64, u64, u64) = (kani::any(), kani::any(), kani::any());
        let has_last: bool = kani::any();
        let unit_is_second: bool = kani::any();
        kani::assume(min <= max); // @assume: property precondition min <= max (RetryStrategy::new does not enforce it: observation)
        kani::assume(!has_last || (min <= last && last <= max)); // @assume: invariant established by new/on_failure (proved in vk_c17_backoff_full_domain)
        if !unit_is_second { kani::assume(max < 1_000_000_000); } // @assume: harness domain of the nanosecond instance: sub-second delays
        let mk = |x: u64| if unit_is_second { Duration::new(x, 0) } else { Duration::new(0, x as u32) };
        let (dmin, dmax) = (mk(min), mk(max));
        let mut b = if has_last { mk_backoff(dmin, dmax, Some(mk(last))) } else { ExponentialBackOff::new(RetryStrategy::new(dmin, dmax)) };
        assert!(backoff_inv(&b));
        if !has_last { assert!(b.last.is_none()); }
        let d = b.on_failure();
        let want = spec::backoff_next(min, max, has_last, last);
        assert!(d == mk(want));
        assert!(b.last == Some(d));
        assert!(dmin <= d && d <= dmax);
        assert!(b.strategy.min_delay == dmin && b.strategy.max_delay == dmax);
        assert!(backoff_inv(&b));
        kani::cover!(!has_last && unit_is_second);
        kani::cover!(has_last && want == max && last < max && unit_is_second);
        kani::cover!(has_last && want == max && last < max && !unit_is_second);
        kani::cover!(has_last && want < max && (want as u128) == 2u128 * (last as u128) && last > 0 && unit_is_second);
        kani::cover!(has_last && want < max && last > 0 && !unit_is_second);
        kani::cover!(has_last && unit_is_second && last > u64::MAX / 2);
        b.on_success();
        assert!(b.last.is_none());
        assert!(b.strategy.min_delay == dmin && b.strategy.max_delay == dmax);
        // after a success the sequence starts again at the minimum
        assert!(b.on_failure() == dmin);
    }

    // @harness ids=C17,C01 tier=quick kind=proof units=app::retry::ExponentialBackOff::on_failure timeout=600 note="every representable Duration configuration with min<=max and any state within the invariant, at full (seconds,nanoseconds) resolution: delay = min first, then min(2*last,max) in unbounded arithmetic (doubling beyond the Duration range yields max), min<=delay<=max, invariant preserved, no panic"
    #[kani::proof]
    fn vk_c17_backoff_full_domain() {
        let dmin = any_duration();
        let dmax = any_duration();
        let has_last: bool = kani::any();
        let dlast = any_duration();
        kani::assume(dmin <= dmax); // @assume: property precondition min <= max
        kani::assume(!has_last || (dmin <= dlast && dlast <= dmax)); // @assume: invariant (proved preserved here, established by new)
        let mut b = mk_backoff(dmin, dmax, if has_last { Some(dlast) } else { None });
        let d = b.on_failure();
        let (ws, wn) = spec::backoff_next_sn(dmin.as_secs(), dmin.subsec_nanos(), dmax.as_secs(), dmax.subsec_nanos(), has_last, dlast.as_secs(), dlast.subsec_nanos());
        assert!(d.as_secs() == ws && d.subsec_nanos() == wn);
        assert!(b.last == Some(d));
        assert!(dmin <= d && d <= dmax);
        assert!(b.strategy.min_delay == dmin && b.strategy.max_delay == dmax);
        assert!(backoff_inv(&b));
        kani::cover!(!has_last);
        kani::cover!(has_last && d == dmax && dlast < dmax);
        kani::cover!(has_last && d < dmax && dlast.subsec_nanos() > 500_000_000);
        kani::cover!(has_last && dlast.as_secs() > u64::MAX / 2); // doubling overflows the Duration range
    }

    // @harness ids=C17 tier=quick kind=bounded bound="first 4 consecutive failures" units=app::retry::ExponentialBackOff::on_failure,app::retry::ExponentialBackOff::on_success timeout=300 note="from a fresh object with a whole-second configuration the k-th consecutive failure (k=1..4) is delayed min(min*2^(k-1),max); a success in between restarts the sequence at min"
    #[kani::proof]
    fn vk_c17_backoff_sequence() {
        let (min, max): (u64, u64) = (kani::any(), kani::any());
        kani::assume(min <= max); // @assume: property precondition min <= max
        let (dmin, dmax) = (Duration::new(min, 0), Duration::new(max, 0));
        let mut b = ExponentialBackOff::new(RetryStrategy::new(dmin, dmax));
        let d1 = b.on_failure();
        let d2 = b.on_failure();
        let d3 = b.on_failure();
        let d4 = b.on_failure();
        assert!(d1 == Duration::new(spec::backoff_kth(min, max, 1), 0));
        assert!(d2 == Duration::new(spec::backoff_kth(min, max, 2), 0));
        assert!(d3 == Duration::new(spec::backoff_kth(min, max, 3), 0));
        assert!(d4 == Duration::new(spec::backoff_kth(min, max, 4), 0));
        assert!(d1 <= d2 && d2 <= d3 && d3 <= d4 && d4 <= dmax);
        b.on_success();
        assert!(b.on_failure() == d1);
        kani::cover!(d4 == dmax && d3 < d4);
        kani::cover!(d4 < dmax && min > 0);
    }
