    use crate::verif_spec as spec;

    // @harness ids=C12,C11,C01 tier=quick kind=proof units=app::header::ControlField::response,app::header::ControlField::single_response,app::header::ControlField::request,app::header::ControlField::unsolicited,app::header::ControlField::unsolicited_response timeout=120 note="solicited constructors: UNS clear, sequence and FIR/FIN/CON exactly as given (single response/request: FIR FIN, no CON); unsolicited constructors: UNS set, FIR FIN, unsolicited_response asks for confirmation; encoded octet equals the standard's bit layout"
    #[kani::proof]
    fn vk_c12_control_constructors() {
        let s: u8 = kani::any();
        let seq = Sequence::new(s);
        assert!(seq.value() == s & 0x0F);
        let (fir, fin, con): (bool, bool, bool) = (kani::any(), kani::any(), kani::any());
        let r = ControlField::response(seq, fir, fin, con);
        assert!(r.fir == fir && r.fin == fin && r.con == con && !r.uns && r.seq == seq);
        assert!(r.to_u8() == spec::app_control_octet(fir, fin, con, false, s));
        let sr = ControlField::single_response(seq);
        assert!(sr.fir && sr.fin && !sr.con && !sr.uns && sr.seq == seq);
        assert!(sr.to_u8() == spec::app_control_octet(true, true, false, false, s));
        let rq = ControlField::request(seq);
        assert!(rq.fir && rq.fin && !rq.con && !rq.uns && rq.seq == seq);
        let un = ControlField::unsolicited(seq);
        assert!(un.fir && un.fin && !un.con && un.uns && un.seq == seq);
        assert!(un.to_u8() == spec::app_control_octet(true, true, false, true, s));
        let ur = ControlField::unsolicited_response(seq);
        assert!(ur.fir && ur.fin && ur.con && ur.uns && ur.seq == seq);
        assert!(ur.to_u8() == spec::app_control_octet(true, true, true, true, s));
        assert!(ur.is_fir_and_fin() && (r.is_fir_and_fin() == (fir && fin)));
        kani::cover!(fir && !fin && con && s == 0xFF);
        kani::cover!(!fir && fin && !con);
    }

    // @harness ids=C12,C11,C01 tier=quick kind=proof units=app::sequence::Sequence::new,app::sequence::Sequence::increment,app::sequence::Sequence::next timeout=120 note="sequence numbers are 4 bit; increment hands out the current number and advances by one modulo 16 (consecutive numbering)"
    #[kani::proof]
    fn vk_c12_sequence_consecutive() {
        let s: u8 = kani::any();
        let mut seq = Sequence::new(s);
        let before = seq.value();
        assert!(before < 16 && before == s & 0x0F);
        assert!(seq.next() == spec::app_seq_next(s));
        let handed = seq.increment();
        assert!(handed.value() == before);
        assert!(seq.value() == spec::app_seq_next(s));
        assert!(seq.value() < 16 && seq.value() != before);
        assert!(seq.value() == (before + 1) % 16);
        kani::cover!(before == 15 && seq.value() == 0);
        kani::cover!(before == 0);
    }

    // @harness ids=C12,C01 tier=quick kind=proof units=app::header::ControlField::from,app::header::ControlField::to_u8,app::header::ControlField::parse,app::header::ControlField::write timeout=120 note="all 256 control octets: from/to_u8 are inverse; fields are the standard's bits; write emits exactly that one octet and parse reads it back; no room => error, nothing written"
    #[kani::proof]
    fn vk_c12_control_codec() {
        let b: u8 = kani::any();
        let c = ControlField::from(b);
        assert!(c.fir == (b & 0x80 != 0) && c.fin == (b & 0x40 != 0) && c.con == (b & 0x20 != 0) && c.uns == (b & 0x10 != 0));
        assert!(c.seq.value() == b & 0x0F);
        assert!(c.to_u8() == b);
        assert!(b == spec::app_control_octet(c.fir, c.fin, c.con, c.uns, c.seq.value()));
        // any field combination -> octet -> same fields
        let f = ControlField { fir: kani::any(), fin: kani::any(), con: kani::any(), uns: kani::any(), seq: Sequence::new(kani::any()) };
        assert!(ControlField::from(f.to_u8()) == f);
        let mut buf = [0u8; 2];
        buf[1] = 0xA5;
        {
            let mut w = WriteCursor::new(&mut buf[..]);
            assert!(c.write(&mut w).is_ok());
            assert!(w.position() == 1);
        }
        assert!(buf[0] == b && buf[1] == 0xA5);
        let mut r = ReadCursor::new(&buf);
        match ControlField::parse(&mut r) {
            Ok(p) => assert!(p == c),
            Err(_) => assert!(false),
        }
        assert!(r.remaining() == 1);
        let mut empty: [u8; 0] = [];
        let mut w0 = WriteCursor::new(&mut empty);
        assert!(c.write(&mut w0).is_err() && w0.position() == 0);
        let mut r0 = ReadCursor::new(&empty);
        assert!(ControlField::parse(&mut r0).is_err());
        kani::cover!(b == 0xFF);
        kani::cover!(b == 0x00);
        kani::cover!(f.uns && !f.fir);
    }

    fn any_rsp_function() -> ResponseFunction {
        if kani::any() { ResponseFunction::Response } else { ResponseFunction::UnsolicitedResponse }
    }

    fn response_header_contract<const ROOM: usize>() {
        let h = ResponseHeader::new(
            ControlField::from(kani::any()),
            any_rsp_function(),
            Iin::new(Iin1::new(kani::any()), Iin2::new(kani::any())),
        );
        assert!(ResponseHeader::LENGTH == 4);
        let mut buf = [0u8; 8];
        let fill: u8 = kani::any();
        let mut i = 0;
        while i < 8 { buf[i] = fill; i += 1; }
        let (res, pos) = {
            let mut w = WriteCursor::new(&mut buf[..ROOM]);
            let res = h.write(&mut w);
            (res, w.position())
        };
        // never writes behind the room it was given
        let mut i = ROOM;
        while i < 8 { assert!(buf[i] == fill); i += 1; }
        if ROOM >= 4 {
            assert!(res.is_ok() && pos == ResponseHeader::LENGTH);
            assert!(buf[0] == h.control.to_u8());
            assert!(buf[1] == if h.function == ResponseFunction::Response { 0x81 } else { 0x82 });
            assert!(buf[2] == h.iin.iin1.value && buf[3] == h.iin.iin2.value);
            let mut i = 4;
            while i < 8 { assert!(buf[i] == fill); i += 1; }
            // read back the way a receiver does: control, function octet, IIN
            let mut r = ReadCursor::new(&buf[..4]);
            let c = ControlField::parse(&mut r).unwrap();
            let f = FunctionCode::from(r.read_u8().unwrap());
            let iin = Iin::parse(&mut r).unwrap();
            assert!(r.is_empty());
            assert!(c == h.control && iin == h.iin);
            assert!(f == Some(h.function.function()));
            assert!(f == Some(<FunctionCode as From<ResponseFunction>>::from(h.function)));
            assert!(h.function.is_unsolicited() == (buf[1] == 0x82));
        } else {
            assert!(res.is_err());
            assert!(pos <= ROOM);
        }
    }

    // @harness ids=C12,C01 tier=quick kind=proof units=app::header::ResponseHeader::new,app::header::ResponseHeader::write,app::header::Iin::write,app::header::Iin::parse,app::header::ResponseFunction::function timeout=120 note="any response header, room >= 4: exactly LENGTH=4 octets (control, 0x81/0x82, IIN1, IIN2) that read back to the same header; nothing else touched"
    #[kani::proof]
    #[kani::unwind(10)]
    fn vk_c12_response_header_roundtrip() {
        if kani::any() { response_header_contract::<4>(); } else { response_header_contract::<8>(); }
        kani::cover!(true);
    }

    // @harness ids=C12,C01 tier=quick kind=proof units=app::header::ResponseHeader::write timeout=120 note="room 0..3: write fails and never writes past the room"
    #[kani::proof]
    #[kani::unwind(10)]
    fn vk_c12_response_header_no_room() {
        let k: u8 = kani::any();
        match k % 4 {
            0 => response_header_contract::<0>(),
            1 => response_header_contract::<1>(),
            2 => response_header_contract::<2>(),
            _ => response_header_contract::<3>(),
        }
        kani::cover!(k % 4 == 3);
        kani::cover!(k % 4 == 0);
    }

    // @harness ids=C12,C01 tier=quick kind=proof units=app::header::impl_From_RequestError_for_Iin2,app::header::Iin::has_bad_request_error timeout=120 note="an application-level rejection maps to exactly one IIN2 rejection bit (PARAMETER_ERROR bit 2 / NO_FUNC_CODE_SUPPORT bit 0); has_bad_request_error is true iff one of IIN2 bits 0..2 is set; OR-ing indications never clears a bit"
    #[kani::proof]
    fn vk_c12_iin2_from_request_error() {
        let p: Iin2 = RequestError::ParameterError.into();
        let n: Iin2 = RequestError::NotSupported.into();
        assert!(p.value == 0x04 && n.value == 0x01);
        assert!(spec::iin2_is_rejection(p.value) && spec::iin2_is_rejection(n.value));
        assert!(Iin2::NO_FUNC_CODE_SUPPORT.value == 0x01 && Iin2::OBJECT_UNKNOWN.value == 0x02 && Iin2::PARAMETER_ERROR.value == 0x04);
        let (a1, a2, b2): (u8, u8, u8) = (kani::any(), kani::any(), kani::any());
        let iin = Iin::new(Iin1::new(a1), Iin2::new(a2));
        assert!(iin.has_bad_request_error() == spec::iin2_is_rejection(a2));
        let o = iin | Iin2::new(b2);
        assert!(o.iin1.value == a1 && o.iin2.value == a2 | b2);
        let mut m = Iin2::new(a2);
        m.set(Iin2::new(b2));
        assert!(m.value == a2 | b2);
        let mut d = Iin::default();
        assert!(d.iin1.value == 0 && d.iin2.value == 0 && !d.has_bad_request_error());
        d |= p;
        assert!(d.has_bad_request_error() && d.iin2.value == 0x04 && d.iin1.value == 0);
        kani::cover!(a2 == 0x38 && !iin.has_bad_request_error());
        kani::cover!(a2 == 0x02);
    }
