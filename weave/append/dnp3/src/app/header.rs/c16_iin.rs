    // @harness ids=C16,C12,C15,C01 tier=quick kind=proof units=app::header::Iin::has_bad_request_error timeout=120 note="a response rejects the request exactly when one of the three IIN2 rejection bits (NO_FUNC_CODE_SUPPORT, OBJECT_UNKNOWN, PARAMETER_ERROR) is set, for all 65536 IIN values"
    #[kani::proof]
    fn vk_c16_iin_has_bad_request_error() {
        let iin = Iin::new(Iin1::new(kani::any()), Iin2::new(kani::any()));
        assert!(iin.has_bad_request_error() == (iin.iin2.value & 0x07 != 0));
        kani::cover!(iin.iin2.value == 0x02 && iin.iin1.value == 0xFF);
        kani::cover!(iin.iin2.value == 0xF8);
    }
