    use crate::app::variations::Group34Var1;

    // D8 (C09): the count field of a count-and-prefix header has the width of the index; CommandBuilder / dead-band /
    // freeze requests can hold more u8-indexed items than it can represent. The encoder must then FAIL, never emit a
    // header whose count differs from the number of objects that follow (and never panic).
    // @harness ids=C09,C01 tier=thorough kind=proof units=app::format::write::HeaderWriter::write_prefixed_items timeout=3000 note="256 u8-indexed items (one more than the 8-bit count can hold): Err, no overflow panic, never Ok with a wrapped count (thorough tier only: 256 unrolled iterations; fails within seconds when the overflow is present)"
    #[kani::proof]
    #[kani::unwind(258)]
    fn vk_c09_write_prefixed_count_limit() {
        // concrete item: the count limit does not depend on the values, and a concrete run stays cheap for 511 iterations
        let item: (Group34Var1, u8) = (Group34Var1 { value: 0x1234 }, 7);
        let nondet: bool = kani::any(); // the verifier input that playback reports
        let mut buf = [0u8; 800];
        {
            let mut cursor = scursor::WriteCursor::new(&mut buf);
            let mut w = HeaderWriter::new(&mut cursor);
            let r = w.write_prefixed_items(core::iter::repeat(&item).take(256));
            assert!(r.is_err());
        }
        // (255 items -> Ok with count 255 is the same loop one iteration shorter; left out to keep the run affordable:
        //  the harness needs 256 unrolled iterations, measured ~0.75 s each and growing)
        kani::cover!(nondet);
    }
