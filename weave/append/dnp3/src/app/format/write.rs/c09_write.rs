    // C09 (part b): object-header encoders of HeaderWriter. Each harness checks the bytes against clause 4.2.2.7 (group,
    // variation, qualifier octet, range field of the width the qualifier implies, then the objects) and decodes them again with
    // the sequence parsers proved in c09_count / c09_range / c09_bit.
    use crate::verif_spec as spec;
    use crate::app::variations::verif_kani_c09_fixed as fx;
    use crate::app::file::verif_kani_c09_file as ff;
    use crate::app::file::{Group70Var2, Group70Var3, Group70Var4, Group70Var5, Group70Var7};
    use crate::app::parse::count::CountSequence;
    use crate::app::parse::prefix::Prefix;
    use crate::app::parse::range::Range;
    use crate::app::parse::traits::FixedSize;
    use crate::app::variations::{Group12Var1, Group34Var1, Group41Var2, Group50Var1, Group50Var2, Group50Var3, Group52Var1, Group52Var2};
    use scursor::ReadCursor;

    /// runs `w` on a HeaderWriter over exactly `total` bytes of room behind one foreign byte (L = total + 3): must succeed and
    /// fill the room exactly, touching nothing else; with one byte less room it must fail. Returns the buffer.
    fn emit<const L: usize, W: Fn(&mut HeaderWriter) -> bool>(total: usize, init: &[u8; L], w: W) -> [u8; L] {
        assert!(total >= 1 && L == total + 3);
        let mut buf = *init;
        {
            let mut c = WriteCursor::new(&mut buf[..1 + total]);
            assert!(c.skip(1).is_ok());
            {
                let mut hw = HeaderWriter::new(&mut c);
                assert!(w(&mut hw));
            }
            assert!(c.position() == 1 + total);
            assert!(c.remaining() == 0);
        }
        assert!(buf[0] == init[0] && buf[1 + total] == init[1 + total] && buf[2 + total] == init[2 + total]);
        let mut buf2 = *init;
        {
            let mut c = WriteCursor::new(&mut buf2[..total - 1]);
            let mut hw = HeaderWriter::new(&mut c);
            assert!(!w(&mut hw));
        }
        buf
    }

    /// decodes the first three octets of an object header with the library's own parsers
    fn decode_gvq(c: &mut ReadCursor) -> (Variation, QualifierCode) {
        let v = match Variation::parse(c) {
            Ok(v) => v,
            Err(_) => {
                assert!(false);
                Variation::Group1Var0
            }
        };
        let q = match QualifierCode::parse(c) {
            Ok(q) => q,
            Err(_) => {
                assert!(false);
                QualifierCode::AllObjects
            }
        };
        (v, q)
    }

    fn any_variation() -> Variation {
        let v = fx::any_variation();
        // @assume: type invariant of Variation (Group0(v) only for v not in {0, 254})
        kani::assume(fx::variation_inv(v));
        v
    }

    // @harness ids=C09,C01 tier=quick kind=proof units=app::format::write::HeaderWriter::write_all_objects_header,app::format::write::Variation::write timeout=300 note="every variation: exactly 3 octets group, variation, 0x06 (no range field); the library's header parsers give back the same variation and 'all objects', nothing left over; 2 bytes of room: error"
    #[kani::proof]
    fn vk_c09_write_all_objects_header() {
        let v = any_variation();
        let (g, var) = v.to_group_and_var();
        let init: [u8; 6] = kani::any();
        let buf = emit(3, &init, |w| w.write_all_objects_header(v).is_ok());
        assert!(buf[1] == g && buf[2] == var && buf[3] == 0x06);
        assert!(spec::range_field_len(buf[3]) == 0 && spec::object_prefix_len(buf[3]) == 0);
        let mut r = ReadCursor::new(&buf[1..4]);
        let (pv, pq) = decode_gvq(&mut r);
        assert!(pv == v && pq == QualifierCode::AllObjects);
        assert!(r.is_empty());
        kani::cover!(matches!(v, Variation::Group60Var1));
        kani::cover!(matches!(v, Variation::Group0(7)));
        kani::cover!(matches!(v, Variation::Group110(0)));
    }

    // @harness ids=C09,C01 tier=thorough kind=proof units=app::format::write::HeaderWriter::write_range_only timeout=300 note="every variation, every start/stop: 8-bit form = group, variation, 0x00, start, stop (5 octets); 16-bit form = group, variation, 0x01, start and stop little endian (7 octets); decoding gives the same variation, qualifier and, for start <= stop, the range start..=stop (count stop-start+1); one byte less room: error"
    #[kani::proof]
    fn vk_c09_write_range_only() {
        let v = any_variation();
        let (g, var) = v.to_group_and_var();
        {
            let (start, stop): (u8, u8) = (kani::any(), kani::any());
            let init: [u8; 8] = kani::any();
            let buf = emit(5, &init, |w| w.write_range_only(v, start, stop).is_ok());
            assert!(buf[1] == g && buf[2] == var && buf[3] == 0x00 && buf[4] == start && buf[5] == stop);
            assert!(3 + spec::range_field_len(buf[3]) == 5);
            let mut r = ReadCursor::new(&buf[1..6]);
            let (pv, pq) = decode_gvq(&mut r);
            assert!(pv == v && pq == QualifierCode::Range8);
            match (r.read_u8(), r.read_u8()) {
                (Ok(a), Ok(b)) => match Range::from(a as u16, b as u16) {
                    Ok(range) => {
                        assert!(start <= stop);
                        assert!(range.get_start() == start as u16 && range.get_count() == (stop - start) as usize + 1);
                        kani::cover!(start == 0 && stop == 255);
                    }
                    Err(_) => {
                        assert!(stop < start);
                        kani::cover!(true);
                    }
                },
                _ => assert!(false),
            }
            assert!(r.is_empty());
        }
        {
            let (start, stop): (u16, u16) = (kani::any(), kani::any());
            let init: [u8; 10] = kani::any();
            let buf = emit(7, &init, |w| w.write_range_only(v, start, stop).is_ok());
            assert!(buf[1] == g && buf[2] == var && buf[3] == 0x01);
            assert!(spec::le16(buf[4], buf[5]) == start && spec::le16(buf[6], buf[7]) == stop);
            assert!(3 + spec::range_field_len(buf[3]) == 7);
            let mut r = ReadCursor::new(&buf[1..8]);
            let (pv, pq) = decode_gvq(&mut r);
            assert!(pv == v && pq == QualifierCode::Range16);
            match (r.read_u16_le(), r.read_u16_le()) {
                (Ok(a), Ok(b)) => match Range::from(a, b) {
                    Ok(range) => {
                        assert!(start <= stop);
                        assert!(range.get_start() == start && range.get_count() == (stop - start) as usize + 1);
                        kani::cover!(start == 0 && stop == 65535);
                        kani::cover!(start == 0x1234 && stop == 0x1234);
                    }
                    Err(_) => {
                        assert!(stop < start);
                        kani::cover!(true);
                    }
                },
                _ => assert!(false),
            }
            assert!(r.is_empty());
        }
    }

    // @harness ids=C09,C01 tier=quick kind=proof units=app::format::write::HeaderWriter::write_limited_count timeout=300 note="every variation, every count: 8-bit form = group, variation, 0x07, count (4 octets); 16-bit form = group, variation, 0x08, count little endian (5 octets); decoding gives the same variation, qualifier and count; one byte less room: error"
    #[kani::proof]
    fn vk_c09_write_limited_count() {
        let v = any_variation();
        let (g, var) = v.to_group_and_var();
        {
            let count: u8 = kani::any();
            let init: [u8; 7] = kani::any();
            let buf = emit(4, &init, |w| w.write_limited_count(v, count).is_ok());
            assert!(buf[1] == g && buf[2] == var && buf[3] == 0x07 && buf[4] == count);
            assert!(3 + spec::range_field_len(buf[3]) == 4);
            let mut r = ReadCursor::new(&buf[1..5]);
            let (pv, pq) = decode_gvq(&mut r);
            assert!(pv == v && pq == QualifierCode::Count8);
            assert!(matches!(r.read_u8(), Ok(x) if x == count));
            assert!(r.is_empty());
            kani::cover!(count == 255);
        }
        {
            let count: u16 = kani::any();
            let init: [u8; 8] = kani::any();
            let buf = emit(5, &init, |w| w.write_limited_count(v, count).is_ok());
            assert!(buf[1] == g && buf[2] == var && buf[3] == 0x08 && spec::le16(buf[4], buf[5]) == count);
            assert!(3 + spec::range_field_len(buf[3]) == 5);
            let mut r = ReadCursor::new(&buf[1..6]);
            let (pv, pq) = decode_gvq(&mut r);
            assert!(pv == v && pq == QualifierCode::Count16);
            assert!(matches!(r.read_u16_le(), Ok(x) if x == count));
            assert!(r.is_empty());
            kani::cover!(count == 0x0100);
        }
    }

    /// write_count_of_one(item): group, variation, 0x07, 1, then the object as V::write emits it; CountSequence::<V> over the
    /// decoded count consumes the rest and yields exactly that one object
    fn count_of_one_contract<V: FixedSizeVariation + Copy, F: Fn(&V, &V) -> bool, const L: usize>(item: V, g: u8, var: u8, same: F) {
        let size = spec::object_size(g, var);
        assert!(size > 0 && V::SIZE as usize == size);
        let total = 4 + size;
        let init: [u8; L] = kani::any();
        let buf = emit(total, &init, |w| w.write_count_of_one(item).is_ok());
        assert!(buf[1] == g && buf[2] == var && buf[3] == 0x07 && buf[4] == 1);
        assert!(3 + spec::range_field_len(buf[3]) == 4 && spec::object_prefix_len(buf[3]) == 0);
        // the object bytes are the ones V::write produces
        let mut direct = [0u8; 16];
        {
            let mut c = WriteCursor::new(&mut direct);
            assert!(item.write(&mut c).is_ok());
            assert!(c.position() == size);
        }
        let mut i = 0;
        while i < size {
            assert!(buf[5 + i] == direct[i]);
            i += 1;
        }
        let mut r = ReadCursor::new(&buf[1..1 + total]);
        let (pv, pq) = decode_gvq(&mut r);
        assert!(pv == V::VARIATION && pq == QualifierCode::Count8);
        assert!(matches!(r.read_u8(), Ok(x) if x == 1));
        match CountSequence::<V>::parse(1, &mut r) {
            Ok(seq) => {
                assert!(r.is_empty());
                match seq.single() {
                    Some(x) => assert!(same(&x, &item)),
                    None => assert!(false),
                }
                let mut it = seq.iter();
                assert!(it.next().is_some());
                assert!(it.next().is_none());
            }
            Err(_) => assert!(false),
        }
        kani::cover!(true);
    }

    // @harness ids=C09,C01 tier=quick kind=proof units=app::format::write::HeaderWriter::write_count_of_one timeout=300 note="time objects sent as 'count of one' (g50v1 absolute time written by the master, g52v2 fine delay returned by the outstation), all field values: header 4 octets (group, variation, 0x07, 1) + the object's own bytes; the count sequence parser yields exactly that one object and consumes everything; one byte less room: error"
    #[kani::proof]
    #[kani::unwind(18)]
    fn vk_c09_write_count_of_one_g50v1_g52v2() {
        count_of_one_contract::<Group50Var1, _, 13>(Group50Var1 { time: fx::any_timestamp() }, 50, 1, |a: &Group50Var1, b: &Group50Var1| a.time.raw_value() == b.time.raw_value());
        count_of_one_contract::<Group52Var2, _, 9>(Group52Var2 { time: kani::any() }, 52, 2, |a: &Group52Var2, b: &Group52Var2| a.time == b.time);
    }

    // @harness ids=C09,C01 tier=quick kind=proof units=app::format::write::HeaderWriter::write_count_of_one timeout=300 note="the other 'count of one' users: g50v3 last recorded time, g52v1 coarse delay, g50v2 time and interval, all field values: same contract as vk_c09_write_count_of_one_g50v1_g52v2"
    #[kani::proof]
    #[kani::unwind(18)]
    fn vk_c09_write_count_of_one_g50v3_g52v1_g50v2() {
        count_of_one_contract::<Group50Var3, _, 13>(Group50Var3 { time: fx::any_timestamp() }, 50, 3, |a: &Group50Var3, b: &Group50Var3| a.time.raw_value() == b.time.raw_value());
        count_of_one_contract::<Group52Var1, _, 9>(Group52Var1 { time: kani::any() }, 52, 1, |a: &Group52Var1, b: &Group52Var1| a.time == b.time);
        count_of_one_contract::<Group50Var2, _, 17>(Group50Var2 { time: fx::any_timestamp(), interval: kani::any() }, 50, 2, |a: &Group50Var2, b: &Group50Var2| {
            a.time.raw_value() == b.time.raw_value() && a.interval == b.interval
        });
    }

    /// write_prefixed_items of N items: group, variation, qualifier (0x17 / 0x28), count = N in the index width, then per item
    /// index and object; CountSequence::<Prefix<I, V>> over the decoded count yields the same (index, object) pairs in order
    fn prefixed_contract<V, I, F, const N: usize, const L: usize>(items: [(V, I); N], g: u8, var: u8, qualifier: u8, same: F)
    where
        V: FixedSizeVariation + Copy,
        I: Index,
        F: Fn(&V, &V) -> bool,
    {
        let size = spec::object_size(g, var);
        let isz = spec::object_prefix_len(qualifier);
        assert!(size > 0 && V::SIZE as usize == size && I::SIZE as usize == isz);
        assert!(spec::range_field_len(qualifier) == isz);
        let total = 3 + isz + N * (isz + size);
        let init: [u8; L] = kani::any();
        let buf = emit(total, &init, |w| w.write_prefixed_items(items.iter()).is_ok());
        assert!(buf[1] == g && buf[2] == var && buf[3] == qualifier);
        // the count placeholder is patched to the number of items written
        let mut r = ReadCursor::new(&buf[1..1 + total]);
        let (pv, pq) = decode_gvq(&mut r);
        assert!(pv == V::VARIATION && pq == I::COUNT_AND_PREFIX_QUALIFIER && pq.as_u8() == qualifier);
        match I::read(&mut r) {
            Ok(count) => assert!(count.widen_to_u16() as usize == N),
            Err(_) => assert!(false),
        }
        if isz == 1 {
            assert!(buf[4] as usize == N);
        } else {
            assert!(spec::le16(buf[4], buf[5]) as usize == N);
        }
        match CountSequence::<Prefix<I, V>>::parse(N as u16, &mut r) {
            Ok(seq) => {
                assert!(r.is_empty());
                let mut it = seq.iter();
                let mut k = 0;
                while k < N {
                    match it.next() {
                        Some(p) => {
                            assert!(p.index == items[k].1);
                            assert!(same(&p.value, &items[k].0));
                        }
                        None => assert!(false),
                    }
                    k += 1;
                }
                assert!(it.next().is_none());
            }
            Err(_) => assert!(false),
        }
        kani::cover!(true);
    }

    fn any_g12v1() -> Group12Var1 {
        Group12Var1 { code: fx::any_control_code(), count: kani::any(), on_time: kani::any(), off_time: kani::any(), status: fx::any_command_status() }
    }
    fn same_g12v1(a: &Group12Var1, b: &Group12Var1) -> bool {
        fx::same_control_code(&a.code, &b.code) && a.count == b.count && a.on_time == b.on_time && a.off_time == b.off_time && a.status == b.status
    }
    fn any_g41v2() -> Group41Var2 {
        Group41Var2 { value: kani::any(), status: fx::any_command_status() }
    }
    fn same_g41v2(a: &Group41Var2, b: &Group41Var2) -> bool {
        a.value == b.value && a.status == b.status
    }

    // @harness ids=C09,C01 tier=quick kind=bounded bound="2 items" units=app::format::write::HeaderWriter::write_prefixed_items timeout=300 note="2 CROBs (g12v1, all fields symbolic) with 8-bit indices: 70 17-qualifier header with count 2 patched in, items in order; CountSequence<Prefix<u8,g12v1>> yields the same indices and objects, cursor empty; one byte less room: error (no Ok with a short count)"
    #[kani::proof]
    #[kani::unwind(6)]
    fn vk_c09_write_prefixed_g12v1_u8_n2() {
        let items: [(Group12Var1, u8); 2] = [(any_g12v1(), kani::any()), (any_g12v1(), kani::any())];
        prefixed_contract::<Group12Var1, u8, _, 2, 31>(items, 12, 1, 0x17, same_g12v1);
    }

    // @harness ids=C09,C01 tier=thorough kind=bounded bound="0, 1 and 3 items" units=app::format::write::HeaderWriter::write_prefixed_items timeout=300 note="analog outputs g41v2 with 16-bit indices, 0, 1 and 3 items: qualifier 0x28, 16-bit count = number of items, items in order; CountSequence<Prefix<u16,g41v2>> yields the same indices and objects, cursor empty; one byte less room: error"
    #[kani::proof]
    #[kani::unwind(6)]
    fn vk_c09_write_prefixed_g41v2_u16_n013() {
        prefixed_contract::<Group41Var2, u16, _, 0, 8>([], 41, 2, 0x28, same_g41v2);
        prefixed_contract::<Group41Var2, u16, _, 1, 13>([(any_g41v2(), kani::any())], 41, 2, 0x28, same_g41v2);
        prefixed_contract::<Group41Var2, u16, _, 3, 23>([(any_g41v2(), kani::any()), (any_g41v2(), kani::any()), (any_g41v2(), kani::any())], 41, 2, 0x28, same_g41v2);
    }

    // @harness ids=C09,C01 tier=quick kind=bounded bound="3 items" units=app::format::write::HeaderWriter::write_prefixed_items timeout=300 note="dead-bands g34v1 with 8-bit indices, 3 items: qualifier 0x17, count 3, items in order, decoded identically"
    #[kani::proof]
    #[kani::unwind(6)]
    fn vk_c09_write_prefixed_g34v1_u8_n3() {
        let items: [(Group34Var1, u8); 3] =
            [(Group34Var1 { value: kani::any() }, kani::any()), (Group34Var1 { value: kani::any() }, kani::any()), (Group34Var1 { value: kani::any() }, kani::any())];
        prefixed_contract::<Group34Var1, u8, _, 3, 16>(items, 34, 1, 0x17, |a: &Group34Var1, b: &Group34Var1| a.value == b.value);
    }

    // @harness ids=C09,C01 tier=quick kind=proof units=app::parse::traits::Index::next,app::parse::traits::Index::increment timeout=120 note="the item counter of write_prefixed_items: u8/u16 `next` is +1 for every value below the maximum (255 / 65535 items are counted correctly). At the maximum the counter cannot represent the next value: see the finding vk_c09_index_next_at_max"
    #[kani::proof]
    fn vk_c09_index_next_below_max() {
        let a: u8 = kani::any();
        let b: u16 = kani::any();
        kani::assume(a < u8::MAX);
        kani::assume(b < u16::MAX);
        assert!(Index::next(a) as u16 == a as u16 + 1);
        assert!(Index::next(b) as u32 == b as u32 + 1);
        let mut c = a;
        Index::increment(&mut c);
        assert!(c == a + 1);
        assert!(<u8 as Index>::zero() == 0 && <u16 as Index>::zero() == 0 && <u8 as Index>::one() == 1 && <u16 as Index>::one() == 1);
        kani::cover!(a == 254);
        kani::cover!(b == 65534);
    }

    // @harness ids=C09,C01 tier=quick kind=proof units=app::format::write::HeaderWriter::write_clear_restart timeout=120 note="clear-restart WRITE body: exactly 80 01 00 07 07 00 = g80v1, 8-bit start/stop 7..7, one packed bit with value 0; decoding gives g80v1, range 7..=7 (1 object) and one data octet whose bit 0 is clear; 5 bytes of room: error"
    #[kani::proof]
    fn vk_c09_write_clear_restart() {
        let init: [u8; 9] = kani::any();
        let buf = emit(6, &init, |w| w.write_clear_restart().is_ok());
        assert!(buf[1] == 80 && buf[2] == 1 && buf[3] == 0x00 && buf[4] == 7 && buf[5] == 7 && buf[6] == 0);
        let mut r = ReadCursor::new(&buf[1..7]);
        let (pv, pq) = decode_gvq(&mut r);
        assert!(pv == Variation::Group80Var1 && pq == QualifierCode::Range8);
        match (r.read_u8(), r.read_u8()) {
            (Ok(a), Ok(b)) => match Range::from(a as u16, b as u16) {
                Ok(range) => {
                    assert!(range.get_start() == 7 && range.get_count() == 1);
                    assert!(r.remaining() == spec::ranged_objects_len(80, 1, range.get_count()));
                }
                Err(_) => assert!(false),
            },
            _ => assert!(false),
        }
        assert!(matches!(r.read_u8(), Ok(x) if x == 0));
        assert!(r.is_empty());
        kani::cover!(true);
    }

    /// write_free_format(obj): group 70, variation, 0x5B, count 1, 16-bit length = number of object bytes, then the object
    /// exactly as its own `write` emits it (`direct`: the object written on its own, `olen` bytes)
    fn free_format_frame<const L: usize>(buf: &[u8; L], var: u8, olen: usize, direct: &[u8]) {
        assert!(L == 6 + olen + 3);
        assert!(buf[1] == 70 && buf[2] == var && buf[3] == 0x5B && buf[4] == 1);
        assert!(spec::range_field_len(buf[3]) == 1 && spec::object_prefix_len(buf[3]) == 2);
        assert!(spec::le16(buf[5], buf[6]) as usize == olen);
        let mut i = 0;
        while i < olen {
            assert!(buf[7 + i] == direct[i]);
            i += 1;
        }
        let mut r = ReadCursor::new(&buf[1..4]);
        let (pv, pq) = decode_gvq(&mut r);
        assert!(pv.to_group_and_var() == (70, var) && pq == QualifierCode::FreeFormat16);
    }

    // @harness ids=C09,C01 tier=quick kind=proof units=app::format::write::HeaderWriter::write_free_format timeout=300 note="g70v5 (handle, block symbolic, 3 data bytes) and g70v4 (all fields symbolic, 2 text bytes): 70 v 5B 01, length little endian = bytes of the object (patched after writing), then the object exactly as its own write emits it; nothing else touched; one byte less room: error"
    #[kani::proof]
    #[kani::unwind(20)]
    fn vk_c09_write_free_format_g70v5_g70v4() {
        {
            let data: [u8; 3] = kani::any();
            let obj = Group70Var5 { file_handle: kani::any(), block_number: kani::any(), file_data: &data };
            let init: [u8; 20] = kani::any();
            let buf = emit(17, &init, |w| w.write_free_format(&obj).is_ok());
            let mut direct = [0u8; 11];
            {
                let mut c = WriteCursor::new(&mut direct);
                assert!(obj.write(&mut c).is_ok());
                assert!(c.remaining() == 0);
            }
            free_format_frame(&buf, 5, 11, &direct);
            kani::cover!(obj.block_number == 0x8000_0001);
        }
        {
            let tb: [u8; 2] = kani::any();
            let obj = Group70Var4 {
                file_handle: kani::any(),
                file_size: kani::any(),
                max_block_size: kani::any(),
                request_id: kani::any(),
                status_code: ff::any_file_status(),
                text: ff::utf8_spec(&tb),
            };
            let init: [u8; 24] = kani::any();
            let buf = emit(21, &init, |w| w.write_free_format(&obj).is_ok());
            let mut direct = [0u8; 15];
            {
                let mut c = WriteCursor::new(&mut direct);
                assert!(obj.write(&mut c).is_ok());
                assert!(c.remaining() == 0);
            }
            free_format_frame(&buf, 4, 15, &direct);
            kani::cover!(tb[0] == 0xC3 && tb[1] == 0xA9);
        }
    }

    // @harness ids=C09,C01 tier=quick kind=proof units=app::format::write::HeaderWriter::write_free_format timeout=300 note="g70v2 (key symbolic, 2+1 string bytes): 70 02 5B 01, length = bytes of the object, then the object exactly as its own write emits it; one byte less room: error"
    #[kani::proof]
    #[kani::unwind(32)]
    fn vk_c09_write_free_format_g70v2() {
        let ub: [u8; 2] = kani::any();
        let pb: [u8; 1] = kani::any();
        let obj = Group70Var2 { auth_key: kani::any(), user_name: ff::utf8_spec(&ub), password: ff::utf8_spec(&pb) };
        let init: [u8; 24] = kani::any();
        let buf = emit(21, &init, |w| w.write_free_format(&obj).is_ok());
        let mut direct = [0u8; 15];
        {
            let mut c = WriteCursor::new(&mut direct);
            assert!(obj.write(&mut c).is_ok());
            assert!(c.remaining() == 0);
        }
        free_format_frame(&buf, 2, 15, &direct);
        kani::cover!(ub[0] == 0xC3 && ub[1] == 0xA9);
    }

    // @harness ids=C09,C01 tier=thorough kind=proof units=app::format::write::HeaderWriter::write_free_format timeout=300 note="g70v3 and g70v7 (all numeric fields symbolic, 2 name bytes): 70 v 5B 01, length = bytes of the object, then the object exactly as its own write emits it; one byte less room: error"
    #[kani::proof]
    #[kani::unwind(32)]
    fn vk_c09_write_free_format_g70v3_g70v7() {
        {
            let nb: [u8; 2] = kani::any();
            let obj = Group70Var3 {
                time_of_creation: fx::any_timestamp(),
                permissions: ff::any_permissions(),
                auth_key: kani::any(),
                file_size: kani::any(),
                mode: ff::any_file_mode(),
                max_block_size: kani::any(),
                request_id: kani::any(),
                file_name: ff::utf8_spec(&nb),
            };
            let init: [u8; 37] = kani::any();
            let buf = emit(34, &init, |w| w.write_free_format(&obj).is_ok());
            let mut direct = [0u8; 28];
            {
                let mut c = WriteCursor::new(&mut direct);
                assert!(obj.write(&mut c).is_ok());
                assert!(c.remaining() == 0);
            }
            free_format_frame(&buf, 3, 28, &direct);
            kani::cover!(nb[0] == 0xC3 && nb[1] == 0xA9);
        }
        {
            let nb: [u8; 2] = kani::any();
            let obj = Group70Var7 {
                file_type: ff::any_file_type(),
                file_size: kani::any(),
                time_of_creation: fx::any_timestamp(),
                permissions: ff::any_permissions(),
                request_id: kani::any(),
                file_name: ff::utf8_spec(&nb),
            };
            let init: [u8; 31] = kani::any();
            let buf = emit(28, &init, |w| w.write_free_format(&obj).is_ok());
            let mut direct = [0u8; 22];
            {
                let mut c = WriteCursor::new(&mut direct);
                assert!(obj.write(&mut c).is_ok());
                assert!(c.remaining() == 0);
            }
            free_format_frame(&buf, 7, 22, &direct);
            kani::cover!(nb[0] == 0xC3 && nb[1] == 0xA9);
        }
    }
