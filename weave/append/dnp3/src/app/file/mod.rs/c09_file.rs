    // C09 (part b): free-format file objects g70v2..g70v8. Layouts asserted byte by byte against IEEE 1815 Annex A (spec fns
    // in specs/file_objects.rs); strings are built from symbolic bytes assumed to be valid UTF-8 (multi-byte sequences included).
    use crate::verif_spec as spec;
    use crate::app::variations::verif_kani_c09_fixed as fx;
    use crate::app::format::WriteError;
    use crate::app::Timestamp;
    use crate::master::FileMode;
    use scursor::{ReadCursor, WriteCursor};

    /// a `&str` over N symbolic bytes
    pub(crate) fn utf8<const N: usize>(b: &[u8; N]) -> &str {
        match core::str::from_utf8(b) {
            Ok(s) => s,
            Err(_) => {
                // @assume: the type invariant of `str` (contents are valid UTF-8), nothing else
                kani::assume(false);
                ""
            }
        }
    }

    /// well-formedness of N <= 3 octets per RFC 3629 (spec function, loop free)
    pub(crate) fn utf8_valid_spec<const N: usize>(b: &[u8; N]) -> bool {
        match N {
            0 => true,
            1 => spec::utf8_valid_1(b[0]),
            2 => spec::utf8_valid_2(b[0], b[1]),
            3 => spec::utf8_valid_3(b[0], b[1], b[2]),
            _ => {
                assert!(false);
                false
            }
        }
    }

    /// a `&str` over N <= 3 symbolic bytes without running the std validator (for encoder-side harnesses, where the code only
    /// looks at the bytes); vk_c09_file_utf8_spec_is_std proves the assumption is exactly std's notion of valid UTF-8
    pub(crate) fn utf8_spec<const N: usize>(b: &[u8; N]) -> &str {
        // @assume: the type invariant of `str` (contents are valid UTF-8), nothing else
        kani::assume(utf8_valid_spec(b));
        unsafe { core::str::from_utf8_unchecked(b) }
    }

    pub(crate) fn same_bytes(a: &[u8], b: &[u8]) -> bool {
        if a.len() != b.len() {
            return false;
        }
        let mut i = 0;
        while i < a.len() {
            if a[i] != b[i] {
                return false;
            }
            i += 1;
        }
        true
    }

    // ---------------------------------------------------------------- symbolic values of the field types
    pub(crate) fn file_status_inv(s: FileStatus) -> bool {
        match s {
            FileStatus::Other(x) => !spec::file_status_defined(x),
            _ => true,
        }
    }
    pub(crate) fn any_file_status() -> FileStatus {
        let raw: u8 = kani::any();
        let s = if kani::any() { FileStatus::Other(raw) } else { FileStatus::new(raw) };
        // @assume: type invariant of FileStatus (Other(x) only for reserved x)
        kani::assume(file_status_inv(s));
        s
    }
    pub(crate) fn file_mode_inv(m: FileMode) -> bool {
        match m {
            FileMode::Reserved(x) => !spec::file_mode_defined(x),
            _ => true,
        }
    }
    pub(crate) fn any_file_mode() -> FileMode {
        let raw: u16 = kani::any();
        let m = if kani::any() { FileMode::Reserved(raw) } else { FileMode::new(raw) };
        // @assume: type invariant of FileMode (Reserved(x) only for reserved x)
        kani::assume(file_mode_inv(m));
        m
    }
    pub(crate) fn file_type_inv(t: FileType) -> bool {
        match t {
            FileType::Other(x) => !spec::file_type_defined(x),
            _ => true,
        }
    }
    pub(crate) fn any_file_type() -> FileType {
        let raw: u16 = kani::any();
        let t = if kani::any() { FileType::Other(raw) } else { FileType::new(raw) };
        // @assume: type invariant of FileType (Other(x) only for reserved x)
        kani::assume(file_type_inv(t));
        t
    }
    pub(crate) fn any_permissions() -> Permissions {
        Permissions {
            world: PermissionSet { execute: kani::any(), write: kani::any(), read: kani::any() },
            group: PermissionSet { execute: kani::any(), write: kani::any(), read: kani::any() },
            owner: PermissionSet { execute: kani::any(), write: kani::any(), read: kani::any() },
        }
    }
    pub(crate) fn permission_word(p: &Permissions) -> u16 {
        spec::file_permission_word(
            p.world.execute, p.world.write, p.world.read, p.group.execute, p.group.write, p.group.read, p.owner.execute, p.owner.write, p.owner.read,
        )
    }

    // ---------------------------------------------------------------- enumerations
    // @harness ids=C09,C01 tier=quick kind=proof units=app::file::FileStatus::new,app::file::FileStatus::to_u8,app::file::FileType::new,app::file::FileType::to_u16,master::file::FileMode::new,master::file::FileMode::to_u16 timeout=120 note="file status / type / mode: every octet (word) decodes and re-encodes to itself; every value of the type (under 'Other only for reserved codes') encodes and decodes to itself; a reserved variant is produced exactly for the codes the standard leaves reserved; spot values 16 NOT_OPENED, 255 UNDEFINED, mode 3 APPEND, type 1 FILE"
    #[kani::proof]
    fn vk_c09_file_enums_inverse() {
        let b: u8 = kani::any();
        let s = FileStatus::new(b);
        assert!(s.to_u8() == b);
        assert!(file_status_inv(s));
        assert!(matches!(s, FileStatus::Other(_)) == !spec::file_status_defined(b));
        let s2 = any_file_status();
        assert!(FileStatus::new(s2.to_u8()) == s2);
        assert!(FileStatus::new(0) == FileStatus::Success && FileStatus::new(9) == FileStatus::CannotAbort);
        assert!(FileStatus::new(16) == FileStatus::NotOpened && FileStatus::new(20) == FileStatus::BlockSeq);
        assert!(FileStatus::new(255) == FileStatus::Undefined);

        let w: u16 = kani::any();
        let m = FileMode::new(w);
        assert!(m.to_u16() == w);
        assert!(file_mode_inv(m));
        assert!(matches!(m, FileMode::Reserved(_)) == !spec::file_mode_defined(w));
        let m2 = any_file_mode();
        assert!(FileMode::new(m2.to_u16()) == m2);
        assert!(FileMode::new(0) == FileMode::Null && FileMode::new(1) == FileMode::Read);
        assert!(FileMode::new(2) == FileMode::Write && FileMode::new(3) == FileMode::Append);

        let t = FileType::new(w);
        assert!(t.to_u16() == w);
        assert!(file_type_inv(t));
        assert!(matches!(t, FileType::Other(_)) == !spec::file_type_defined(w));
        let t2 = any_file_type();
        assert!(FileType::new(t2.to_u16()) == t2);
        assert!(FileType::new(0) == FileType::Directory && FileType::new(1) == FileType::File);
        kani::cover!(b == 10);
        kani::cover!(b == 255);
        kani::cover!(w == 0xFFFF);
        kani::cover!(matches!(s2, FileStatus::Other(200)));
        kani::cover!(matches!(m2, FileMode::Reserved(4)));
        kani::cover!(matches!(t2, FileType::Other(2)));
    }

    // @harness ids=C09,C01 tier=quick kind=proof units=app::file::permissions::Permissions::write,app::file::permissions::Permissions::read timeout=120 note="permissions word: all 512 permission values encode to the standard's bit positions (little endian, reserved bits 0) and decode to the same nine flags; all 65536 words decode (reserved bits ignored); 1 byte is rejected by both"
    #[kani::proof]
    fn vk_c09_file_permissions_codec() {
        let p = any_permissions();
        let mut buf = [0u8; 3];
        buf[2] = 0xA5;
        {
            let mut w = WriteCursor::new(&mut buf[..2]);
            assert!(p.write(&mut w).is_ok());
            assert!(w.position() == 2);
        }
        assert!(spec::le16(buf[0], buf[1]) == permission_word(&p));
        assert!(buf[2] == 0xA5);
        let mut c = ReadCursor::new(&buf[..2]);
        match Permissions::read(&mut c) {
            Ok(x) => assert!(x == p),
            Err(_) => assert!(false),
        }
        assert!(c.is_empty());
        // any word decodes; the nine defined bits are what is kept
        let raw: [u8; 2] = kani::any();
        let mut c = ReadCursor::new(&raw);
        match Permissions::read(&mut c) {
            Ok(x) => assert!(permission_word(&x) == spec::le16(raw[0], raw[1]) & 0x01FF),
            Err(_) => assert!(false),
        }
        let mut c1 = ReadCursor::new(&raw[..1]);
        assert!(Permissions::read(&mut c1).is_err());
        let mut one = [0u8; 1];
        let mut w1 = WriteCursor::new(&mut one);
        assert!(p.write(&mut w1).is_err());
        kani::cover!(permission_word(&p) == 0x1FF);
        kani::cover!(permission_word(&p) == 0x124);
        kani::cover!(raw[1] == 0xFE);
    }

    // @harness ids=C09,C01 tier=quick kind=proof units=app::file::byte_length timeout=120 note="byte_length is the number of BYTES of the string (3 symbolic bytes, multi-byte UTF-8 included: 3 bytes may be 2 or 1 characters), Ok up to 65535 bytes, an error from 65536 bytes on"
    #[kani::proof]
    #[kani::unwind(7)]
    fn vk_c09_file_byte_length() {
        let b: [u8; 3] = kani::any();
        let s = utf8(&b);
        assert!(byte_length(s) == Ok(3));
        assert!(s.as_bytes().len() == 3);
        kani::cover!(b[0] == 0xC3 && b[1] == 0xA9); // "é" + 1 ASCII: 2 characters in 3 bytes
        kani::cover!(b[0] == 0xE2 && b[1] == 0x82 && b[2] == 0xAC); // "€": 1 character in 3 bytes
        kani::cover!(b[0] == b'a' && b[2] == b'c');
        assert!(byte_length("") == Ok(0));
        static BIG: [u8; 65536] = [b'a'; 65536];
        // SAFETY of the harness: all bytes are ASCII
        let max = unsafe { core::str::from_utf8_unchecked(&BIG[..65535]) };
        let over = unsafe { core::str::from_utf8_unchecked(&BIG[..65536]) };
        assert!(byte_length(max) == Ok(65535));
        assert!(byte_length(over).is_err());
    }

    // @harness ids=C09 tier=quick kind=proof units=app::file::byte_length timeout=120 note="harness support: the loop-free RFC 3629 well-formedness predicate used to build symbolic strings equals core::str::from_utf8(..).is_ok() on all 1-, 2- and 3-byte inputs"
    #[kani::proof]
    #[kani::unwind(7)]
    fn vk_c09_file_utf8_spec_is_std() {
        let b1: [u8; 1] = kani::any();
        let b2: [u8; 2] = kani::any();
        let b3: [u8; 3] = kani::any();
        assert!(utf8_valid_spec(&b1) == core::str::from_utf8(&b1).is_ok());
        assert!(utf8_valid_spec(&b2) == core::str::from_utf8(&b2).is_ok());
        assert!(utf8_valid_spec(&b3) == core::str::from_utf8(&b3).is_ok());
        let e: [u8; 0] = [];
        assert!(utf8_valid_spec(&e) && core::str::from_utf8(&e).is_ok());
        kani::cover!(utf8_valid_spec(&b3) && b3[0] == 0xE2);
        kani::cover!(utf8_valid_spec(&b2) && b2[0] == 0xC3);
        kani::cover!(!utf8_valid_spec(&b3) && b3[0] == 0xED && b3[1] == 0xA0); // surrogate
        kani::cover!(!utf8_valid_spec(&b2) && b2[0] == 0xC0); // overlong
    }

    // ---------------------------------------------------------------- write side, common part
    /// `w` writes the object. Exact room of `total` bytes behind one foreign byte: Ok, cursor at the end, nothing outside the
    /// room changes; one byte less room: Err. Returns the buffer with the object at [1, 1+total).
    pub(crate) fn emit<const L: usize, W: Fn(&mut WriteCursor) -> bool>(total: usize, init: &[u8; L], w: W) -> [u8; L] {
        assert!(total >= 1 && L == total + 3);
        let mut buf = *init;
        {
            let mut c = WriteCursor::new(&mut buf[..1 + total]);
            assert!(c.skip(1).is_ok());
            assert!(w(&mut c));
            assert!(c.position() == 1 + total);
            assert!(c.remaining() == 0);
        }
        assert!(buf[0] == init[0] && buf[1 + total] == init[1 + total] && buf[2 + total] == init[2 + total]);
        let mut buf2 = *init;
        {
            let mut c = WriteCursor::new(&mut buf2[..total - 1]);
            assert!(!w(&mut c));
        }
        buf
    }

    // ---------------------------------------------------------------- g70v2 authentication
    fn g70v2_contract<const N1: usize, const N2: usize, const L: usize>() -> (bool, bool) {
        let total = spec::file_fixed_len(2) + N1 + N2;
        let ub: [u8; N1] = kani::any();
        let pb: [u8; N2] = kani::any();
        let obj = Group70Var2 { auth_key: kani::any(), user_name: utf8(&ub), password: utf8(&pb) };
        let init: [u8; L] = kani::any();
        let buf = emit(total, &init, |c| obj.write(c).is_ok());
        let o = &buf[1..1 + total];
        // Annex A layout; the object's own offset/size fields declare exactly the bytes written
        assert!(spec::le16(o[0], o[1]) == 12);
        assert!(spec::le16(o[2], o[3]) as usize == N1);
        assert!(spec::le16(o[4], o[5]) as usize == 12 + N1);
        assert!(spec::le16(o[6], o[7]) as usize == N2);
        assert!(spec::le32(o[8], o[9], o[10], o[11]) == obj.auth_key);
        assert!(same_bytes(&o[12..12 + N1], &ub));
        assert!(same_bytes(&o[12 + N1..], &pb));
        assert!(spec::le16(o[4], o[5]) as usize + spec::le16(o[6], o[7]) as usize == total);
        // (solver hint, no change of value: the size and offset fields were just asserted to hold these constants)
        let mut buf = buf;
        buf[3] = N1 as u8;
        buf[4] = 0;
        buf[5] = (12 + N1) as u8;
        buf[6] = 0;
        buf[7] = N2 as u8;
        buf[8] = 0;
        // the other side decodes the same object, consuming every byte
        let mut c = ReadCursor::new(&buf[..1 + total]);
        assert!(c.read_u8().is_ok());
        match Group70Var2::read(&mut c) {
            Ok(x) => {
                assert!(x.auth_key == obj.auth_key);
                assert!(same_bytes(x.user_name.as_bytes(), &ub));
                assert!(same_bytes(x.password.as_bytes(), &pb));
                assert!(c.position() == 1 + total);
                assert!(c.is_empty());
            }
            Err(_) => assert!(false),
        }
        // truncated: last byte missing, fixed part incomplete, nothing at all
        let mut t1 = ReadCursor::new(&buf[1..total]);
        assert!(Group70Var2::read(&mut t1).is_err());
        let mut t2 = ReadCursor::new(&buf[1..12]);
        assert!(Group70Var2::read(&mut t2).is_err());
        let mut t3 = ReadCursor::new(&buf[1..1]);
        assert!(Group70Var2::read(&mut t3).is_err());
        kani::cover!(obj.auth_key == 0xDEADCAFE);
        (
            (N1 == 2 && ub[0] == 0xC3 && ub[1] == 0xA9) || (N1 == 3 && ub[0] == 0xE2 && ub[1] == 0x82 && ub[2] == 0xAC),
            N2 >= 2 && pb[N2 - 2] == 0xC3 && pb[N2 - 1] == 0xA9,
        )
    }

    // @harness ids=C09,C01 tier=thorough kind=proof units=app::file::g70v2::Group70Var2::write,app::file::g70v2::Group70Var2::read timeout=300 note="g70v2 (authentication), user name 2 and password 3 symbolic UTF-8 bytes, key symbolic: Annex A layout (offsets 12 and 12+n1, sizes = BYTE lengths), declared offset+size = bytes written = bytes consumed, read returns the same key and string bytes; one byte less (room or data) is rejected"
    #[kani::proof]
    #[kani::unwind(7)]
    fn vk_c09_file_g70v2_rt_2_3() {
        let (u2, p2) = g70v2_contract::<2, 3, 20>();
        kani::cover!(u2); // user name is one 2-byte character
        kani::cover!(p2); // password ends with a 2-byte character
    }

    // @harness ids=C09,C01 tier=quick kind=proof units=app::file::g70v2::Group70Var2::write,app::file::g70v2::Group70Var2::read timeout=300 note="g70v2 with empty user name and 2-byte password (may be one 2-byte character): same contract as vk_c09_file_g70v2_rt_2_3"
    #[kani::proof]
    #[kani::unwind(7)]
    fn vk_c09_file_g70v2_rt_0_2() {
        let (_, p2) = g70v2_contract::<0, 2, 17>();
        kani::cover!(p2);
    }

    // @harness ids=C09,C01 tier=thorough kind=proof units=app::file::g70v2::Group70Var2::write,app::file::g70v2::Group70Var2::read timeout=300 note="g70v2 with 3-byte user name (may be one 3-byte character) and empty password: same contract as vk_c09_file_g70v2_rt_2_3"
    #[kani::proof]
    #[kani::unwind(7)]
    fn vk_c09_file_g70v2_rt_3_0() {
        let (u, _) = g70v2_contract::<3, 0, 18>();
        kani::cover!(u);
    }

    // @harness ids=C09,C01 tier=quick kind=proof units=app::file::g70v2::Group70Var2::write,app::file::g70v3::Group70Var3::write,app::file::g70v7::Group70Var7::write timeout=300 note="a string whose BYTE length does not fit the 16-bit size/offset fields is refused by write (g70v2: user name of 65524 bytes makes the password offset overflow; 65536-byte names in g70v2/v3/v7) instead of being emitted with a wrapped length"
    #[kani::proof]
    fn vk_c09_file_write_length_overflow() {
        static BIG: [u8; 65536] = [b'a'; 65536];
        let s65524 = unsafe { core::str::from_utf8_unchecked(&BIG[..65524]) };
        let s65536 = unsafe { core::str::from_utf8_unchecked(&BIG[..65536]) };
        let mut out = [0u8; 64];
        {
            let mut w = WriteCursor::new(&mut out);
            let o = Group70Var2 { auth_key: kani::any(), user_name: s65524, password: "" };
            assert!(o.write(&mut w).is_err());
        }
        {
            let mut w = WriteCursor::new(&mut out);
            let o = Group70Var2 { auth_key: kani::any(), user_name: "", password: s65536 };
            assert!(o.write(&mut w).is_err());
        }
        {
            let mut w = WriteCursor::new(&mut out);
            let o = Group70Var3 {
                time_of_creation: fx::any_timestamp(),
                permissions: any_permissions(),
                auth_key: kani::any(),
                file_size: kani::any(),
                mode: any_file_mode(),
                max_block_size: kani::any(),
                request_id: kani::any(),
                file_name: s65536,
            };
            assert!(o.write(&mut w).is_err());
        }
        {
            let mut w = WriteCursor::new(&mut out);
            let o = Group70Var7 {
                file_type: any_file_type(),
                file_size: kani::any(),
                time_of_creation: fx::any_timestamp(),
                permissions: any_permissions(),
                request_id: kani::any(),
                file_name: s65536,
            };
            assert!(o.write(&mut w).is_err());
        }
        kani::cover!(true);
    }

    // ---------------------------------------------------------------- g70v3 file command
    fn g70v3_contract<const N: usize, const L: usize>() {
        let total = spec::file_fixed_len(3) + N;
        let nb: [u8; N] = kani::any();
        let obj = Group70Var3 {
            time_of_creation: fx::any_timestamp(),
            permissions: any_permissions(),
            auth_key: kani::any(),
            file_size: kani::any(),
            mode: any_file_mode(),
            max_block_size: kani::any(),
            request_id: kani::any(),
            file_name: utf8(&nb),
        };
        let init: [u8; L] = kani::any();
        let buf = emit(total, &init, |c| obj.write(c).is_ok());
        let o = &buf[1..1 + total];
        assert!(spec::le16(o[0], o[1]) == 26);
        assert!(spec::le16(o[2], o[3]) as usize == N);
        assert!(spec::le48(o[4], o[5], o[6], o[7], o[8], o[9]) == obj.time_of_creation.raw_value());
        assert!(spec::le16(o[10], o[11]) == permission_word(&obj.permissions));
        assert!(spec::le32(o[12], o[13], o[14], o[15]) == obj.auth_key);
        assert!(spec::le32(o[16], o[17], o[18], o[19]) == obj.file_size);
        assert!(spec::le16(o[20], o[21]) == obj.mode.to_u16());
        assert!(spec::le16(o[22], o[23]) == obj.max_block_size);
        assert!(spec::le16(o[24], o[25]) == obj.request_id);
        assert!(same_bytes(&o[26..], &nb));
        assert!(spec::le16(o[0], o[1]) as usize + spec::le16(o[2], o[3]) as usize == total);
        // (solver hint, no change of value: the size field was just asserted to hold N)
        let mut buf = buf;
        buf[3] = N as u8;
        buf[4] = 0;
        let mut c = ReadCursor::new(&buf[..1 + total]);
        assert!(c.read_u8().is_ok());
        match Group70Var3::read(&mut c) {
            Ok(x) => {
                assert!(x.time_of_creation.raw_value() == obj.time_of_creation.raw_value());
                assert!(x.permissions == obj.permissions);
                assert!(x.auth_key == obj.auth_key);
                assert!(x.file_size == obj.file_size);
                assert!(x.mode == obj.mode);
                assert!(x.max_block_size == obj.max_block_size);
                assert!(x.request_id == obj.request_id);
                assert!(same_bytes(x.file_name.as_bytes(), &nb));
                assert!(c.position() == 1 + total);
                assert!(c.is_empty());
            }
            Err(_) => assert!(false),
        }
        let mut t1 = ReadCursor::new(&buf[1..total]);
        assert!(Group70Var3::read(&mut t1).is_err());
        let mut t2 = ReadCursor::new(&buf[1..26]);
        assert!(Group70Var3::read(&mut t2).is_err());
        let mut t3 = ReadCursor::new(&buf[1..1]);
        assert!(Group70Var3::read(&mut t3).is_err());
        kani::cover!(nb[0] == 0xC3 && nb[1] == 0xA9);
        kani::cover!(matches!(obj.mode, FileMode::Reserved(0xFFFF)));
        kani::cover!(matches!(obj.mode, FileMode::Append));
        kani::cover!(obj.time_of_creation.raw_value() == 0xFFFF_FFFF_FFFF);
    }

    // @harness ids=C09,C01 tier=thorough kind=proof units=app::file::g70v3::Group70Var3::write,app::file::g70v3::Group70Var3::read timeout=300 note="g70v3 (file command), all numeric fields symbolic (48-bit time, 9 permission flags, key, size, mode incl. reserved, block size, request id), name 3 symbolic UTF-8 bytes: Annex A layout, declared offset 26 + size = bytes written = bytes consumed, every field and the name bytes equal after read; one byte less is rejected"
    #[kani::proof]
    #[kani::unwind(7)]
    fn vk_c09_file_g70v3_rt_3() {
        g70v3_contract::<3, 32>();
    }

    // ---------------------------------------------------------------- g70v4 file command status
    fn g70v4_contract<const N: usize, const L: usize>() -> bool {
        let total = spec::file_fixed_len(4) + N;
        let tb: [u8; N] = kani::any();
        let obj = Group70Var4 {
            file_handle: kani::any(),
            file_size: kani::any(),
            max_block_size: kani::any(),
            request_id: kani::any(),
            status_code: any_file_status(),
            text: utf8(&tb),
        };
        let init: [u8; L] = kani::any();
        let buf = emit(total, &init, |c| obj.write(c).is_ok());
        let o = &buf[1..1 + total];
        assert!(spec::le32(o[0], o[1], o[2], o[3]) == obj.file_handle);
        assert!(spec::le32(o[4], o[5], o[6], o[7]) == obj.file_size);
        assert!(spec::le16(o[8], o[9]) == obj.max_block_size);
        assert!(spec::le16(o[10], o[11]) == obj.request_id);
        assert!(o[12] == obj.status_code.to_u8());
        assert!(same_bytes(&o[13..], &tb));
        let mut c = ReadCursor::new(&buf[..1 + total]);
        assert!(c.read_u8().is_ok());
        match Group70Var4::read(&mut c) {
            Ok(x) => {
                assert!(x.file_handle == obj.file_handle);
                assert!(x.file_size == obj.file_size);
                assert!(x.max_block_size == obj.max_block_size);
                assert!(x.request_id == obj.request_id);
                assert!(x.status_code == obj.status_code);
                assert!(same_bytes(x.text.as_bytes(), &tb));
                assert!(c.position() == 1 + total);
                assert!(c.is_empty());
            }
            Err(_) => assert!(false),
        }
        // the optional text runs to the end of the object: only a cut inside the fixed part can be detected here
        let mut t2 = ReadCursor::new(&buf[1..13]);
        assert!(Group70Var4::read(&mut t2).is_err());
        let mut t3 = ReadCursor::new(&buf[1..1]);
        assert!(Group70Var4::read(&mut t3).is_err());
        kani::cover!(matches!(obj.status_code, FileStatus::Other(0x80)));
        kani::cover!(matches!(obj.status_code, FileStatus::Undefined));
        N >= 2 && tb[0] == 0xC3 && tb[1] == 0xA9
    }

    // @harness ids=C09,C01 tier=thorough kind=proof units=app::file::g70v4::Group70Var4::write,app::file::g70v4::Group70Var4::read timeout=300 note="g70v4 (file command status), handle, size, block size, request id, status (incl. reserved codes) symbolic, optional text 3 symbolic UTF-8 bytes and empty: Annex A layout (13 fixed bytes + text), bytes written = bytes consumed, every field and the text bytes equal after read; a cut inside the fixed part is rejected"
    #[kani::proof]
    #[kani::unwind(7)]
    fn vk_c09_file_g70v4_rt() {
        let m = g70v4_contract::<3, 19>();
        let _ = g70v4_contract::<0, 16>();
        kani::cover!(m); // text starts with a 2-byte character
    }

    // ---------------------------------------------------------------- g70v5 file transport
    fn g70v5_contract<const N: usize, const L: usize>() -> bool {
        let total = spec::file_fixed_len(5) + N;
        let data: [u8; N] = kani::any();
        let obj = Group70Var5 { file_handle: kani::any(), block_number: kani::any(), file_data: &data };
        let init: [u8; L] = kani::any();
        let buf = emit(total, &init, |c| obj.write(c).is_ok());
        let o = &buf[1..1 + total];
        assert!(spec::le32(o[0], o[1], o[2], o[3]) == obj.file_handle);
        assert!(spec::le32(o[4], o[5], o[6], o[7]) == obj.block_number);
        assert!(same_bytes(&o[8..], &data));
        let mut c = ReadCursor::new(&buf[..1 + total]);
        assert!(c.read_u8().is_ok());
        match Group70Var5::read(&mut c) {
            Ok(x) => {
                assert!(x.file_handle == obj.file_handle);
                assert!(x.block_number == obj.block_number);
                assert!(same_bytes(x.file_data, &data));
                assert!(c.position() == 1 + total);
                assert!(c.is_empty());
            }
            Err(_) => assert!(false),
        }
        let mut t2 = ReadCursor::new(&buf[1..8]);
        assert!(Group70Var5::read(&mut t2).is_err());
        let mut t3 = ReadCursor::new(&buf[1..1]);
        assert!(Group70Var5::read(&mut t3).is_err());
        kani::cover!(obj.block_number == 0x8000_0000); // "last block" flag
        N >= 1 && data[0] == 0xFF
    }

    // @harness ids=C09,C01 tier=quick kind=proof units=app::file::g70v5::Group70Var5::write,app::file::g70v5::Group70Var5::read timeout=300 note="g70v5 (file transport), handle and block number symbolic, 4 opaque symbolic data bytes and no data: Annex A layout (8 fixed bytes + data), bytes written = bytes consumed, fields and data equal after read; a cut inside the fixed part is rejected"
    #[kani::proof]
    #[kani::unwind(7)]
    fn vk_c09_file_g70v5_rt() {
        let m = g70v5_contract::<4, 15>();
        let _ = g70v5_contract::<0, 11>();
        kani::cover!(m); // not UTF-8: file data is opaque
    }

    // ---------------------------------------------------------------- g70v6 file transport status (no production encoder: layout from Annex A)
    fn g70v6_contract<const N: usize, const L: usize>() -> bool {
        let total = spec::file_fixed_len(6) + N;
        let raw: [u8; L] = kani::any();
        let tb: [u8; N] = kani::any();
        let _ = utf8(&tb);
        let mut buf = raw;
        let mut i = 0;
        while i < N {
            buf[1 + 9 + i] = tb[i];
            i += 1;
        }
        let o = &buf[1..1 + total];
        let mut c = ReadCursor::new(&buf[..1 + total]);
        assert!(c.read_u8().is_ok());
        match Group70Var6::read(&mut c) {
            Ok(x) => {
                assert!(x.file_handle == spec::le32(o[0], o[1], o[2], o[3]));
                assert!(x.block_number == spec::le32(o[4], o[5], o[6], o[7]));
                assert!(x.status_code.to_u8() == o[8]);
                assert!(file_status_inv(x.status_code));
                assert!(same_bytes(x.text.as_bytes(), &tb));
                assert!(c.position() == 1 + total);
                assert!(c.is_empty());
            }
            Err(_) => assert!(false),
        }
        let mut t2 = ReadCursor::new(&buf[1..9]);
        assert!(Group70Var6::read(&mut t2).is_err());
        let mut t3 = ReadCursor::new(&buf[1..1]);
        assert!(Group70Var6::read(&mut t3).is_err());
        kani::cover!(o[8] == 20);
        N >= 2 && tb[0] == 0xC3 && tb[1] == 0xA9
    }

    // @harness ids=C09,C01 tier=quick kind=proof units=app::file::g70v6::Group70Var6::read timeout=300 note="g70v6 (file transport status; the library has no encoder, the bytes are laid out per Annex A): any 9 fixed bytes + 3 UTF-8 text bytes (and no text) decode to exactly those fields (little endian), status via the code table, text bytes equal, every byte consumed; a cut inside the fixed part is rejected"
    #[kani::proof]
    #[kani::unwind(7)]
    fn vk_c09_file_g70v6_read() {
        let m = g70v6_contract::<3, 15>();
        let _ = g70v6_contract::<0, 12>();
        kani::cover!(m);
    }

    // ---------------------------------------------------------------- g70v7 file descriptor
    fn g70v7_contract<const N: usize, const L: usize>() {
        let total = spec::file_fixed_len(7) + N;
        let nb: [u8; N] = kani::any();
        let obj = Group70Var7 {
            file_type: any_file_type(),
            file_size: kani::any(),
            time_of_creation: fx::any_timestamp(),
            permissions: any_permissions(),
            request_id: kani::any(),
            file_name: utf8(&nb),
        };
        let init: [u8; L] = kani::any();
        let buf = emit(total, &init, |c| obj.write(c).is_ok());
        let o = &buf[1..1 + total];
        assert!(spec::le16(o[0], o[1]) == 20);
        assert!(spec::le16(o[2], o[3]) as usize == N);
        assert!(spec::le16(o[4], o[5]) == obj.file_type.to_u16());
        assert!(spec::le32(o[6], o[7], o[8], o[9]) == obj.file_size);
        assert!(spec::le48(o[10], o[11], o[12], o[13], o[14], o[15]) == obj.time_of_creation.raw_value());
        assert!(spec::le16(o[16], o[17]) == permission_word(&obj.permissions));
        assert!(spec::le16(o[18], o[19]) == obj.request_id);
        assert!(same_bytes(&o[20..], &nb));
        assert!(spec::le16(o[0], o[1]) as usize + spec::le16(o[2], o[3]) as usize == total);
        // (solver hint, no change of value: the size field was just asserted to hold N)
        let mut buf = buf;
        buf[3] = N as u8;
        buf[4] = 0;
        let mut c = ReadCursor::new(&buf[..1 + total]);
        assert!(c.read_u8().is_ok());
        match Group70Var7::read(&mut c) {
            Ok(x) => {
                assert!(x.file_type == obj.file_type);
                assert!(x.file_size == obj.file_size);
                assert!(x.time_of_creation.raw_value() == obj.time_of_creation.raw_value());
                assert!(x.permissions == obj.permissions);
                assert!(x.request_id == obj.request_id);
                assert!(same_bytes(x.file_name.as_bytes(), &nb));
                assert!(c.position() == 1 + total);
                assert!(c.is_empty());
            }
            Err(_) => assert!(false),
        }
        let mut t1 = ReadCursor::new(&buf[1..total]);
        assert!(Group70Var7::read(&mut t1).is_err());
        let mut t2 = ReadCursor::new(&buf[1..20]);
        assert!(Group70Var7::read(&mut t2).is_err());
        let mut t3 = ReadCursor::new(&buf[1..1]);
        assert!(Group70Var7::read(&mut t3).is_err());
        kani::cover!(nb[0] == 0xC3 && nb[1] == 0xA9);
        kani::cover!(matches!(obj.file_type, FileType::Other(0x1234)));
        kani::cover!(matches!(obj.file_type, FileType::Directory));
    }

    // @harness ids=C09,C01 tier=thorough kind=proof units=app::file::g70v7::Group70Var7::write,app::file::g70v7::Group70Var7::read timeout=300 note="g70v7 (file descriptor), type (incl. reserved), size, 48-bit time, 9 permission flags, request id symbolic, name 2 symbolic UTF-8 bytes: Annex A layout, declared offset 20 + size = bytes written = bytes consumed, every field and the name bytes equal after read; one byte less is rejected"
    #[kani::proof]
    #[kani::unwind(7)]
    fn vk_c09_file_g70v7_rt_2() {
        g70v7_contract::<2, 25>();
    }

    // ---------------------------------------------------------------- g70v8 file specification string (no production encoder)
    // @harness ids=C09,C01 tier=quick kind=proof units=app::file::g70v8::Group70Var8::read timeout=300 note="g70v8 (file specification string; no encoder in the library): 3 symbolic UTF-8 bytes decode to a string of exactly those bytes, every byte consumed; bytes that are not UTF-8 are rejected; the empty object is the empty string"
    #[kani::proof]
    #[kani::unwind(7)]
    fn vk_c09_file_g70v8_read() {
        let raw: [u8; 3] = kani::any();
        let mut c = ReadCursor::new(&raw);
        match Group70Var8::read(&mut c) {
            Ok(x) => {
                assert!(core::str::from_utf8(&raw).is_ok());
                assert!(same_bytes(x.file_specification.as_bytes(), &raw));
                assert!(c.is_empty());
                kani::cover!(raw[0] == 0xC3 && raw[1] == 0xA9);
                kani::cover!(raw[0] == b'/');
            }
            Err(_) => {
                assert!(core::str::from_utf8(&raw).is_err());
                kani::cover!(raw[0] == 0xFF);
                kani::cover!(raw[2] == 0xC3); // sequence cut short
            }
        }
        let mut e = ReadCursor::new(&raw[..0]);
        match Group70Var8::read(&mut e) {
            Ok(x) => assert!(x.file_specification.is_empty()),
            Err(_) => assert!(false),
        }
    }

    // @harness ids=C09,C01 tier=quick kind=bounded bound="three concrete strings (ASCII, 2-byte and 3-byte UTF-8 sequences)" units=app::file::byte_length timeout=300 note="length fields of file objects count BYTES, not characters: concrete non-ASCII names (kept concrete so that a character-counting implementation fails fast instead of timing out on symbolic UTF-8 decoding)"
    #[kani::proof]
    #[kani::unwind(8)]
    fn vk_c09_file_byte_length_concrete() {
        let nondet: bool = kani::any();
        assert!(matches!(byte_length("ab"), Ok(2)));
        assert!(matches!(byte_length("\u{e9}"), Ok(2)));
        assert!(matches!(byte_length("\u{20ac}x"), Ok(4)));
        kani::cover!(nondet);
    }
