    use crate::verif_spec as spec;
    use crate::app::app_enums::verif_kani_c09_enums::any_functioncode;

    // @harness ids=C12,C01 tier=quick kind=proof units=app::extensions::FunctionCode::get_function_info timeout=120 note="all 33 function codes: object headers are allowed exactly for the codes for which the standard defines objects (not CONFIRM, restarts, INITIALIZE_DATA, SAVE_CONFIG, DELAY_MEASURE, RECORD_CURRENT_TIME)"
    #[kani::proof]
    fn vk_c12_function_info_table() {
        let f = any_functioncode();
        let code = f.as_u8();
        assert!(f.get_function_info().objects_allowed == spec::function_allows_objects(code));
        kani::cover!(code == 0);
        kani::cover!(code == 24);
        kani::cover!(code == 1);
        kani::cover!(code == 130);
    }
