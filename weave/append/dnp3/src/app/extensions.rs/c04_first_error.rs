    pub(crate) fn any_command_status() -> CommandStatus {
        if kani::any() { CommandStatus::Unknown(kani::any()) } else { CommandStatus::from(kani::any::<u8>()) }
    }

    // @harness ids=C04,C01 tier=quick kind=proof units=app::extensions::CommandStatus::first_error,app::extensions::CommandStatus::is_success timeout=120 note="every pair of status values (all named codes and Unknown(0..=255)): first_error is Success iff both are Success, and is always one of its two arguments; is_success iff the value is Success"
    #[kani::proof]
    fn vk_c04_first_error() {
        let a = any_command_status();
        let b = any_command_status();
        let r = a.first_error(b);
        assert!((r == CommandStatus::Success) == (a == CommandStatus::Success && b == CommandStatus::Success));
        assert!(r == a || r == b);
        assert!(a.is_success() == matches!(a, CommandStatus::Success));
        kani::cover!(r == CommandStatus::Success);
        kani::cover!(a == CommandStatus::Success && r == CommandStatus::Timeout);
        kani::cover!(a == CommandStatus::NoSelect && b == CommandStatus::Success);
        kani::cover!(a == CommandStatus::Unknown(0));
    }
