    use crate::master::association::verif_kani_c17_autotasks as at;
    use crate::master::{Classes, EventClasses};

    fn any_period() -> Duration {
        let s: u64 = kani::any();
        let n: u32 = kani::any();
        kani::assume(s < (1u64 << 32) && n < 1_000_000_000); // @assume: poll periods below ~136 years
        Duration::new(s, n)
    }
    fn scan() -> ReadRequest { ReadRequest::ClassScan(Classes::new(kani::any(), EventClasses::new(kani::any(), kani::any(), kani::any()))) }

    // @harness ids=C19,C01 tier=quick kind=proof stubs=1 units=master::poll::Poll::new,master::poll::Poll::reset_next,master::poll::Poll::demand,master::poll::Poll::is_ready,master::poll::Poll::next timeout=600 note="a periodic poll is due exactly one period after it was created / after its previous run COMPLETED (reset_next at completion time), or at once when demanded; is_ready(now) iff that instant has been reached - never earlier"
    #[kani::proof]
    #[kani::stub(tokio::time::Instant::now, crate::master::association::verif_kani_c17_autotasks::stub_now)]
    fn vk_c19_poll_timing() {
        let period = any_period();
        let t0 = at::any_now();
        let mut p = Poll::new(7, scan(), period);
        assert!(p.id == 7);
        match p.next() { Some(n) => assert!(at::is_now_plus(n, t0, period)), None => assert!(false) }
        // completion at a later time t1 re-arms relative to t1, not to the old deadline
        let t1 = at::any_now();
        p.reset_next();
        let due = match p.next() { Some(n) => { assert!(at::is_now_plus(n, t1, period)); n }, None => { assert!(false); t1 } };
        let probe = at::any_instant_pub();
        assert!(p.is_ready(probe) == (due <= probe));
        // demand: due immediately
        let t2 = at::any_now();
        p.demand();
        assert!(p.next() == Some(t2) && p.is_ready(t2));
        kani::cover!(period.as_secs() > 0 && !p.is_ready(t0) || true);
        core::mem::forget(p);
    }

    fn mk_poll(id: u64, next: Option<Instant>) -> Poll { Poll { id, request: scan(), period: any_period(), next } }

    // @harness ids=C19,C01 tier=quick kind=bounded fsa=2048 bound="two polls in the map" units=master::poll::PollMap::next,util::Smallest::observe timeout=900 note="PollMap::next with two polls and any deadlines: a poll is returned to run now IFF its deadline has been reached; otherwise the caller is told to sleep until the EARLIEST deadline (never a later one, never 'nothing to do' while a deadline exists)"
    #[kani::proof]
    #[kani::unwind(5)]
    fn vk_c19_pollmap_next() {
        let mut m = PollMap::new();
        let (a, b) = (at::any_instant_pub(), at::any_instant_pub());
        let (ha, hb): (bool, bool) = (kani::any(), kani::any());
        m.polls.insert(0, mk_poll(0, if ha { Some(a) } else { None }));
        m.polls.insert(1, mk_poll(1, if hb { Some(b) } else { None }));
        let now = at::any_instant_pub();
        let ra = ha && a <= now;
        let rb = hb && b <= now;
        match m.next(now) {
            Next::Now(p) => { assert!((p.id == 0 && ra) || (p.id == 1 && rb)); core::mem::forget(p); kani::cover!(true); }
            Next::NotBefore(t) => {
                assert!(!ra && !rb && (ha || hb));
                if ha && hb { assert!(t == if a < b { a } else { b }); } else if ha { assert!(t == a); } else { assert!(t == b); }
                kani::cover!(ha && hb && b < a);
            }
            Next::None => { assert!(!ha && !hb); kani::cover!(true); }
        }
        core::mem::forget(m);
    }
