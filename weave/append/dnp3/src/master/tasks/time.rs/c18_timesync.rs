    use crate::verif_spec as spec;
    use scursor::WriteCursor;

    // @harness ids=C18,C01 tier=quick kind=proof units=master::tasks::time::TimeSyncTask::get_timestamp timeout=300 note="time to write = master time + propagation delay (whole ms) iff it fits 48 bits; otherwise the synchronisation fails with Overflow (never a wrapped/truncated time)"
    #[kani::proof]
    fn vk_c18_get_timestamp() {
        let now = Timestamp::new(kani::any());
        let secs: u64 = kani::any();
        let nanos: u32 = kani::any();
        kani::assume(nanos < 1_000_000_000); // @assume: type invariant of Duration
        let r = TimeSyncTask::get_timestamp(now, Duration::new(secs, nanos));
        let (fits, want) = spec::ts_add(now.raw_value(), secs, nanos);
        match r {
            Ok(x) => { assert!(fits && x.raw_value() == want); }
            Err(TimeSyncError::Overflow) => assert!(!fits),
            Err(_) => assert!(false),
        }
        kani::cover!(r.is_ok() && secs > 0);
        kani::cover!(r.is_err());
    }

    fn le48(x: u64, k: usize) -> u8 { ((x >> (8 * k)) & 0xFF) as u8 }

    // @harness ids=C18,C01 tier=quick kind=proof units=master::tasks::time::TimeSyncTask::write,master::tasks::time::TimeSyncTask::function,master::tasks::time::TimeSyncTask::get_procedure timeout=300 note="request of each step: non-LAN starts with DELAY_MEASURE (no objects), LAN with RECORD_CURRENT_TIME (no objects), direct with WRITE; the WRITE carries exactly one g50v1 (absolute) resp. g50v3 (last recorded) object, qualifier 07 count 1, with the 48-bit time little-endian and nothing else"
    #[kani::proof]
    #[kani::unwind(18)]
    fn vk_c18_task_requests() {
        // start states
        let t = TimeSyncTask::get_procedure(TimeSyncProcedure::NonLan, None);
        assert!(t.function() == FunctionCode::DelayMeasure);
        assert!(matches!(t.state, State::MeasureDelay(None)));
        std::mem::forget(t);
        let t = TimeSyncTask::get_procedure(TimeSyncProcedure::Lan, None);
        assert!(t.function() == FunctionCode::RecordCurrentTime);
        assert!(matches!(t.state, State::RecordCurrentTime(None)));
        std::mem::forget(t);
        let t = TimeSyncTask::get_procedure(TimeSyncProcedure::DirectWriteAbsTime, None);
        assert!(t.function() == FunctionCode::Write);
        assert!(matches!(t.state, State::WriteAbsoluteTime(None)));
        std::mem::forget(t);

        let ts = Timestamp::new(kani::any());
        let which: u8 = kani::any();
        kani::assume(which < 4);
        let state = match which {
            0 => State::MeasureDelay(None),
            1 => State::RecordCurrentTime(Some(ts)),
            2 => State::WriteAbsoluteTime(Some(ts)),
            _ => State::WriteLastRecordedTime(ts),
        };
        let task = TimeSyncTask::new(state, None);
        let mut buf = [0xEEu8; 16];
        let n;
        let res;
        {
            let mut cursor = WriteCursor::new(&mut buf);
            let mut writer = HeaderWriter::new(&mut cursor);
            res = task.write(&mut writer);
            n = cursor.position();
        }
        assert!(res.is_ok());
        let f = task.function();
        if which < 2 {
            assert!(n == 0);
            assert!(f == if which == 0 { FunctionCode::DelayMeasure } else { FunctionCode::RecordCurrentTime });
        } else {
            assert!(f == FunctionCode::Write);
            assert!(n == 10);
            assert!(buf[0] == 50 && buf[1] == (if which == 2 { 1 } else { 3 }) && buf[2] == 0x07 && buf[3] == 1);
            let mut k = 0;
            while k < 6 { assert!(buf[4 + k] == le48(ts.raw_value(), k)); k += 1; }
        }
        let mut k = n;
        while k < 16 { assert!(buf[k] == 0xEE); k += 1; }
        kani::cover!(which == 2 && ts.raw_value() == 0x0000_FFFF_FFFF_FFFF);
        kani::cover!(which == 3);
        kani::cover!(which == 0);
        std::mem::forget(task);
    }
