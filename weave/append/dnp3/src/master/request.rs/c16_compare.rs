    use crate::verif_spec as spec;
    use crate::app::control::{ControlCode, OpType, TripCloseCode};
    use crate::app::gen::all::AllObjectsVariation;

    // ---- requested objects: built from symbolic primitive fields exactly as the public API decodes them, together with
    // their wire image per IEEE 1815 (spec::enc_*). Returns (object, wire image, "value is a NaN").
    // NOTE (observation, errs on the safe side): objects in NON-canonical form, e.g. CommandStatus::Unknown(0) or
    // TripCloseCode::Unknown(1), have the same wire image as their canonical twin but compare unequal to the parsed echo, so a
    // faithful echo of such a request is reported as ObjectValueMismatch. The harness domain is the canonical form.
    fn any_g12v1() -> (Group12Var1, [u8; 11], bool) {
        let (code, count, on, off, st): (u8, u8, u32, u32, u8) = (kani::any(), kani::any(), kani::any(), kani::any(), kani::any());
        let v = Group12Var1 { code: ControlCode::from(code), count, on_time: on, off_time: off, status: CommandStatus::from(st) };
        // the request as transmitted is the spec image
        assert!(v.code.as_u8() == code && v.status.as_u8() == st);
        (v, spec::enc_g12v1(code, count, on, off, st), false)
    }
    fn any_g41v1() -> (Group41Var1, [u8; 5], bool) {
        let (x, st): (i32, u8) = (kani::any(), kani::any());
        let v = Group41Var1 { value: x, status: CommandStatus::from(st) };
        assert!(v.status.as_u8() == st);
        (v, spec::enc_g41v1(x as u32, st), false)
    }
    fn any_g41v2() -> (Group41Var2, [u8; 3], bool) {
        let (x, st): (i16, u8) = (kani::any(), kani::any());
        let v = Group41Var2 { value: x, status: CommandStatus::from(st) };
        assert!(v.status.as_u8() == st);
        (v, spec::enc_g41v2(x as u16, st), false)
    }
    fn any_g41v3() -> (Group41Var3, [u8; 5], bool) {
        let (bits, st): (u32, u8) = (kani::any(), kani::any());
        let x = f32::from_bits(bits);
        let v = Group41Var3 { value: x, status: CommandStatus::from(st) };
        assert!(v.status.as_u8() == st);
        (v, spec::enc_g41v3(bits, st), x.is_nan())
    }
    fn any_g41v4() -> (Group41Var4, [u8; 9], bool) {
        let (bits, st): (u64, u8) = (kani::any(), kani::any());
        let x = f64::from_bits(bits);
        let v = Group41Var4 { value: x, status: CommandStatus::from(st) };
        assert!(v.status.as_u8() == st);
        (v, spec::enc_g41v4(bits, st), x.is_nan())
    }

    fn put_index_u8(dst: &mut [u8], i: u8) { dst[0] = i; }
    fn put_index_u16(dst: &mut [u8], i: u16) { dst[0] = (i & 0xFF) as u8; dst[1] = (i >> 8) as u8; }

    // One instance = one header kind (variation x index width) x number of requested objects NS x number of received objects NR.
    // The reply header has the SAME kind; its NR objects are NR*(IS+VS) arbitrary octets (what CountSequence::parse hands over).
    macro_rules! c16_compare {
        ($name:ident, $variant:ident, $hd:ident, $pv:ident, $any:ident, $norm:ident, $I:ty, $put:ident, $IS:expr, $VS:expr, $NS:expr, $NR:expr) => {
            #[kani::proof]
            #[kani::unwind(42)]
            fn $name() {
                const OS: usize = $IS + $VS;
                let mut items = Vec::with_capacity($NS);
                let mut sent_img = [0u8; $NS * OS];
                let mut has_nan = false;
                let mut k = 0;
                while k < $NS {
                    let (v, img, nan) = $any();
                    let idx: $I = kani::any();
                    $put(&mut sent_img[k * OS..k * OS + $IS], idx);
                    let mut j = 0;
                    while j < $VS { sent_img[k * OS + $IS + j] = img[j]; j += 1; }
                    items.push((v, idx));
                    has_nan = has_nan || nan;
                    k += 1;
                }
                let recv_arr: [u8; $NR * OS] = kani::any();
                let recv: &[u8] = &recv_arr;
                let details = HeaderDetails::$hd($NR, PrefixedVariation::$pv(CountSequence::new($NR, recv)));
                let header = CommandHeader::$variant(items);
                let r = header.compare(details);
                let want = spec::echo_ok(recv, $NR, &sent_img, $NS, OS);
                // success ONLY IF every object was echoed octet-identical with status SUCCESS
                assert!(!r.is_ok() || want, "C16 echo: Ok only for an octet-identical echo with status SUCCESS");
                // the same with the sign of a floating-point zero disregarded (identical to the line above for g12v1, g41v1, g41v2)
                let mut recv_n = recv_arr;
                let mut sent_n = sent_img;
                let mut k = 0;
                while k < $NR { spec::$norm(&mut recv_n[k * OS + $IS..k * OS + OS - 1]); k += 1; }
                let mut k = 0;
                while k < $NS { spec::$norm(&mut sent_n[k * OS + $IS..k * OS + OS - 1]); k += 1; }
                assert!(!r.is_ok() || spec::echo_ok(&recv_n, $NR, &sent_n, $NS, OS), "C16 echo modulo sign of zero: Ok only for an identical echo with status SUCCESS");
                // ... and a faithful successful echo IS a success (NaN payloads excepted: `==` on floats, errs on the safe side)
                assert!(!want || has_nan || r.is_ok());
                // error kinds the property names: a count mismatch and an error status are reported as such
                if $NS != $NR { assert!(r.is_err()); }
                if $NS >= 1 && $NR >= 1 && recv[OS - 1] != 0 {
                    assert!(r == Err(CommandResponseError::BadStatus(CommandStatus::from(recv[OS - 1]))));
                }
                if let Err(CommandResponseError::BadStatus(s)) = r {
                    assert!(s != CommandStatus::Success);
                    let mut found = false;
                    let mut k = 0;
                    while k < $NR && k < $NS { if recv[k * OS + OS - 1] == s.as_u8() && s.as_u8() != 0 { found = true; } k += 1; }
                    assert!(found);
                }
                kani::cover!(if $NS == $NR { r.is_ok() } else { r == Err(CommandResponseError::ObjectCountMismatch) });
                kani::cover!($NS != $NR || r == Err(CommandResponseError::ObjectValueMismatch));
                kani::cover!($NR == 0 || matches!(r, Err(CommandResponseError::BadStatus(_))));
            }
        };
    }

    // ---- g12v1 (CROB)
    // @harness ids=C16,C01 tier=quick kind=proof units=master::request::CommandHeader::compare,master::request::CommandHeader::compare_items,app::parse::prefix::Prefix::equals,app::parse::count::CountIterator::next timeout=600 note="g12v1/8-bit index, 1 requested vs 1 received object, all octets arbitrary: Ok iff the reply is the octet-identical echo with status SUCCESS; a non-SUCCESS status yields BadStatus(that status)"
    c16_compare!(vk_c16_g12v1_u8_1x1, G12V1U8, OneByteCountAndPrefix, Group12Var1, any_g12v1, no_normalisation, u8, put_index_u8, 1, 11, 1, 1);
    // @harness ids=C16,C01 tier=quick kind=bounded bound="<=3 objects per header" units=master::request::CommandHeader::compare,master::request::CommandHeader::compare_items timeout=600 note="g12v1/8-bit, 2 vs 2 objects: Ok iff both echoed octet-identical with SUCCESS"
    c16_compare!(vk_c16_g12v1_u8_2x2, G12V1U8, OneByteCountAndPrefix, Group12Var1, any_g12v1, no_normalisation, u8, put_index_u8, 1, 11, 2, 2);
    // @harness ids=C16,C01 tier=quick kind=bounded bound="<=3 objects per header" units=master::request::CommandHeader::compare,master::request::CommandHeader::compare_items timeout=600 note="g12v1/8-bit, 3 vs 3 objects: Ok iff all echoed octet-identical with SUCCESS"
    c16_compare!(vk_c16_g12v1_u8_3x3, G12V1U8, OneByteCountAndPrefix, Group12Var1, any_g12v1, no_normalisation, u8, put_index_u8, 1, 11, 3, 3);
    // @harness ids=C16,C01 tier=quick kind=bounded bound="<=3 objects per header" units=master::request::CommandHeader::compare,master::request::CommandHeader::compare_items timeout=600 note="g12v1/8-bit, 1 requested vs 2 received: always an error (extra object)"
    c16_compare!(vk_c16_g12v1_u8_1x2, G12V1U8, OneByteCountAndPrefix, Group12Var1, any_g12v1, no_normalisation, u8, put_index_u8, 1, 11, 1, 2);
    // @harness ids=C16,C01 tier=quick kind=bounded bound="<=3 objects per header" units=master::request::CommandHeader::compare,master::request::CommandHeader::compare_items timeout=600 note="g12v1/8-bit, 2 requested vs 1 received: always an error (missing object)"
    c16_compare!(vk_c16_g12v1_u8_2x1, G12V1U8, OneByteCountAndPrefix, Group12Var1, any_g12v1, no_normalisation, u8, put_index_u8, 1, 11, 2, 1);
    // @harness ids=C16,C01 tier=quick kind=proof units=master::request::CommandHeader::compare,master::request::CommandHeader::compare_items timeout=600 note="g12v1/8-bit, 1 requested vs empty reply header: always an error"
    c16_compare!(vk_c16_g12v1_u8_1x0, G12V1U8, OneByteCountAndPrefix, Group12Var1, any_g12v1, no_normalisation, u8, put_index_u8, 1, 11, 1, 0);
    // @harness ids=C16,C01 tier=quick kind=proof units=master::request::CommandHeader::compare,master::request::CommandHeader::compare_items timeout=600 note="g12v1/16-bit index, 1 vs 1: Ok iff octet-identical echo with SUCCESS"
    c16_compare!(vk_c16_g12v1_u16_1x1, G12V1U16, TwoByteCountAndPrefix, Group12Var1, any_g12v1, no_normalisation, u16, put_index_u16, 2, 11, 1, 1);
    // @harness ids=C16,C01 tier=quick kind=bounded bound="<=3 objects per header" units=master::request::CommandHeader::compare,master::request::CommandHeader::compare_items timeout=600 note="g12v1/16-bit, 2 vs 2"
    c16_compare!(vk_c16_g12v1_u16_2x2, G12V1U16, TwoByteCountAndPrefix, Group12Var1, any_g12v1, no_normalisation, u16, put_index_u16, 2, 11, 2, 2);
    // @harness ids=C16,C01 tier=thorough kind=bounded bound="<=3 objects per header" units=master::request::CommandHeader::compare,master::request::CommandHeader::compare_items timeout=600 note="g12v1/16-bit, 3 vs 3"
    c16_compare!(vk_c16_g12v1_u16_3x3, G12V1U16, TwoByteCountAndPrefix, Group12Var1, any_g12v1, no_normalisation, u16, put_index_u16, 2, 11, 3, 3);
    // @harness ids=C16,C01 tier=quick kind=bounded bound="<=3 objects per header" units=master::request::CommandHeader::compare,master::request::CommandHeader::compare_items timeout=600 note="g12v1/16-bit, 2 requested vs 1 received: always an error"
    c16_compare!(vk_c16_g12v1_u16_2x1, G12V1U16, TwoByteCountAndPrefix, Group12Var1, any_g12v1, no_normalisation, u16, put_index_u16, 2, 11, 2, 1);
    // @harness ids=C16,C01 tier=quick kind=bounded bound="<=3 objects per header" units=master::request::CommandHeader::compare,master::request::CommandHeader::compare_items timeout=600 note="g12v1/16-bit, 1 requested vs 2 received: always an error"
    c16_compare!(vk_c16_g12v1_u16_1x2, G12V1U16, TwoByteCountAndPrefix, Group12Var1, any_g12v1, no_normalisation, u16, put_index_u16, 2, 11, 1, 2);

    // ---- g41v1 (32-bit analog output)
    // @harness ids=C16,C01 tier=quick kind=proof units=master::request::CommandHeader::compare,master::request::CommandHeader::compare_items timeout=600 note="g41v1/8-bit, 1 vs 1: Ok iff octet-identical echo with SUCCESS"
    c16_compare!(vk_c16_g41v1_u8_1x1, G41V1U8, OneByteCountAndPrefix, Group41Var1, any_g41v1, no_normalisation, u8, put_index_u8, 1, 5, 1, 1);
    // @harness ids=C16,C01 tier=quick kind=bounded bound="<=3 objects per header" units=master::request::CommandHeader::compare,master::request::CommandHeader::compare_items timeout=600 note="g41v1/8-bit, 2 vs 2"
    c16_compare!(vk_c16_g41v1_u8_2x2, G41V1U8, OneByteCountAndPrefix, Group41Var1, any_g41v1, no_normalisation, u8, put_index_u8, 1, 5, 2, 2);
    // @harness ids=C16,C01 tier=thorough kind=bounded bound="<=3 objects per header" units=master::request::CommandHeader::compare,master::request::CommandHeader::compare_items timeout=600 note="g41v1/8-bit, 3 vs 3"
    c16_compare!(vk_c16_g41v1_u8_3x3, G41V1U8, OneByteCountAndPrefix, Group41Var1, any_g41v1, no_normalisation, u8, put_index_u8, 1, 5, 3, 3);
    // @harness ids=C16,C01 tier=quick kind=bounded bound="<=3 objects per header" units=master::request::CommandHeader::compare,master::request::CommandHeader::compare_items timeout=600 note="g41v1/8-bit, 2 requested vs 1 received: always an error"
    c16_compare!(vk_c16_g41v1_u8_2x1, G41V1U8, OneByteCountAndPrefix, Group41Var1, any_g41v1, no_normalisation, u8, put_index_u8, 1, 5, 2, 1);
    // @harness ids=C16,C01 tier=quick kind=bounded bound="<=3 objects per header" units=master::request::CommandHeader::compare,master::request::CommandHeader::compare_items timeout=600 note="g41v1/8-bit, 1 requested vs 2 received: always an error"
    c16_compare!(vk_c16_g41v1_u8_1x2, G41V1U8, OneByteCountAndPrefix, Group41Var1, any_g41v1, no_normalisation, u8, put_index_u8, 1, 5, 1, 2);
    // @harness ids=C16,C01 tier=quick kind=proof units=master::request::CommandHeader::compare,master::request::CommandHeader::compare_items timeout=600 note="g41v1/16-bit, 1 vs 1"
    c16_compare!(vk_c16_g41v1_u16_1x1, G41V1U16, TwoByteCountAndPrefix, Group41Var1, any_g41v1, no_normalisation, u16, put_index_u16, 2, 5, 1, 1);
    // @harness ids=C16,C01 tier=quick kind=bounded bound="<=3 objects per header" units=master::request::CommandHeader::compare,master::request::CommandHeader::compare_items timeout=600 note="g41v1/16-bit, 2 vs 2"
    c16_compare!(vk_c16_g41v1_u16_2x2, G41V1U16, TwoByteCountAndPrefix, Group41Var1, any_g41v1, no_normalisation, u16, put_index_u16, 2, 5, 2, 2);

    // ---- g41v2 (16-bit analog output)
    // @harness ids=C16,C01 tier=quick kind=proof units=master::request::CommandHeader::compare,master::request::CommandHeader::compare_items timeout=600 note="g41v2/8-bit, 1 vs 1: Ok iff octet-identical echo with SUCCESS"
    c16_compare!(vk_c16_g41v2_u8_1x1, G41V2U8, OneByteCountAndPrefix, Group41Var2, any_g41v2, no_normalisation, u8, put_index_u8, 1, 3, 1, 1);
    // @harness ids=C16,C01 tier=quick kind=bounded bound="<=3 objects per header" units=master::request::CommandHeader::compare,master::request::CommandHeader::compare_items timeout=600 note="g41v2/8-bit, 2 vs 2"
    c16_compare!(vk_c16_g41v2_u8_2x2, G41V2U8, OneByteCountAndPrefix, Group41Var2, any_g41v2, no_normalisation, u8, put_index_u8, 1, 3, 2, 2);
    // @harness ids=C16,C01 tier=thorough kind=bounded bound="<=3 objects per header" units=master::request::CommandHeader::compare,master::request::CommandHeader::compare_items timeout=600 note="g41v2/8-bit, 3 vs 3"
    c16_compare!(vk_c16_g41v2_u8_3x3, G41V2U8, OneByteCountAndPrefix, Group41Var2, any_g41v2, no_normalisation, u8, put_index_u8, 1, 3, 3, 3);
    // @harness ids=C16,C01 tier=quick kind=proof units=master::request::CommandHeader::compare,master::request::CommandHeader::compare_items timeout=600 note="g41v2/16-bit, 1 vs 1"
    c16_compare!(vk_c16_g41v2_u16_1x1, G41V2U16, TwoByteCountAndPrefix, Group41Var2, any_g41v2, no_normalisation, u16, put_index_u16, 2, 3, 1, 1);
    // @harness ids=C16,C01 tier=quick kind=bounded bound="<=3 objects per header" units=master::request::CommandHeader::compare,master::request::CommandHeader::compare_items timeout=600 note="g41v2/16-bit, 2 vs 2"
    c16_compare!(vk_c16_g41v2_u16_2x2, G41V2U16, TwoByteCountAndPrefix, Group41Var2, any_g41v2, no_normalisation, u16, put_index_u16, 2, 3, 2, 2);

    // ---- g41v3 (single-precision analog output)
    // @harness ids=C16,C01 tier=quick kind=proof units=master::request::CommandHeader::compare,master::request::CommandHeader::compare_items timeout=600 note="g41v3/8-bit, 1 vs 1, every f32 bit pattern: Ok only for a bit-identical echo with SUCCESS; bit-identical non-NaN echo is Ok (NaN echo rejected: safe side)"
    c16_compare!(vk_c16_g41v3_u8_1x1, G41V3U8, OneByteCountAndPrefix, Group41Var3, any_g41v3, float_clear_zero_sign, u8, put_index_u8, 1, 5, 1, 1);
    // @harness ids=C16,C01 tier=quick kind=bounded bound="<=3 objects per header" units=master::request::CommandHeader::compare,master::request::CommandHeader::compare_items timeout=600 note="g41v3/8-bit, 2 vs 2"
    c16_compare!(vk_c16_g41v3_u8_2x2, G41V3U8, OneByteCountAndPrefix, Group41Var3, any_g41v3, float_clear_zero_sign, u8, put_index_u8, 1, 5, 2, 2);
    // @harness ids=C16,C01 tier=quick kind=proof units=master::request::CommandHeader::compare,master::request::CommandHeader::compare_items timeout=600 note="g41v3/16-bit, 1 vs 1"
    c16_compare!(vk_c16_g41v3_u16_1x1, G41V3U16, TwoByteCountAndPrefix, Group41Var3, any_g41v3, float_clear_zero_sign, u16, put_index_u16, 2, 5, 1, 1);
    // @harness ids=C16,C01 tier=thorough kind=bounded bound="<=3 objects per header" units=master::request::CommandHeader::compare,master::request::CommandHeader::compare_items timeout=600 note="g41v3/16-bit, 2 vs 2"
    c16_compare!(vk_c16_g41v3_u16_2x2, G41V3U16, TwoByteCountAndPrefix, Group41Var3, any_g41v3, float_clear_zero_sign, u16, put_index_u16, 2, 5, 2, 2);

    // ---- g41v4 (double-precision analog output)
    // @harness ids=C16,C01 tier=quick kind=proof units=master::request::CommandHeader::compare,master::request::CommandHeader::compare_items timeout=600 note="g41v4/8-bit, 1 vs 1, every f64 bit pattern: Ok only for a bit-identical echo with SUCCESS; bit-identical non-NaN echo is Ok"
    c16_compare!(vk_c16_g41v4_u8_1x1, G41V4U8, OneByteCountAndPrefix, Group41Var4, any_g41v4, float_clear_zero_sign, u8, put_index_u8, 1, 9, 1, 1);
    // @harness ids=C16,C01 tier=quick kind=bounded bound="<=3 objects per header" units=master::request::CommandHeader::compare,master::request::CommandHeader::compare_items timeout=600 note="g41v4/8-bit, 2 vs 2"
    c16_compare!(vk_c16_g41v4_u8_2x2, G41V4U8, OneByteCountAndPrefix, Group41Var4, any_g41v4, float_clear_zero_sign, u8, put_index_u8, 1, 9, 2, 2);
    // @harness ids=C16,C01 tier=quick kind=proof units=master::request::CommandHeader::compare,master::request::CommandHeader::compare_items timeout=600 note="g41v4/16-bit, 1 vs 1"
    c16_compare!(vk_c16_g41v4_u16_1x1, G41V4U16, TwoByteCountAndPrefix, Group41Var4, any_g41v4, float_clear_zero_sign, u16, put_index_u16, 2, 9, 1, 1);
    // @harness ids=C16,C01 tier=thorough kind=bounded bound="<=3 objects per header" units=master::request::CommandHeader::compare,master::request::CommandHeader::compare_items timeout=600 note="g41v4/16-bit, 2 vs 2"
    c16_compare!(vk_c16_g41v4_u16_2x2, G41V4U16, TwoByteCountAndPrefix, Group41Var4, any_g41v4, float_clear_zero_sign, u16, put_index_u16, 2, 9, 2, 2);

    // ---- header kind: a reply header of any other kind is never accepted
    fn sent_of_kind(s: u8) -> CommandHeader {
        match s {
            0 => CommandHeader::G12V1U8(vec![(any_g12v1().0, kani::any())]),
            1 => CommandHeader::G41V1U8(vec![(any_g41v1().0, kani::any())]),
            2 => CommandHeader::G41V2U8(vec![(any_g41v2().0, kani::any())]),
            3 => CommandHeader::G41V3U8(vec![(any_g41v3().0, kani::any())]),
            4 => CommandHeader::G41V4U8(vec![(any_g41v4().0, kani::any())]),
            5 => CommandHeader::G12V1U16(vec![(any_g12v1().0, kani::any())]),
            6 => CommandHeader::G41V1U16(vec![(any_g41v1().0, kani::any())]),
            7 => CommandHeader::G41V2U16(vec![(any_g41v2().0, kani::any())]),
            8 => CommandHeader::G41V3U16(vec![(any_g41v3().0, kani::any())]),
            _ => CommandHeader::G41V4U16(vec![(any_g41v4().0, kani::any())]),
        }
    }

    fn recv_of_kind<'a>(r: u8, buf: &'a [u8; 13]) -> HeaderDetails<'a> {
        match r {
            0 => HeaderDetails::OneByteCountAndPrefix(1, PrefixedVariation::Group12Var1(CountSequence::new(1, &buf[..12]))),
            1 => HeaderDetails::OneByteCountAndPrefix(1, PrefixedVariation::Group41Var1(CountSequence::new(1, &buf[..6]))),
            2 => HeaderDetails::OneByteCountAndPrefix(1, PrefixedVariation::Group41Var2(CountSequence::new(1, &buf[..4]))),
            3 => HeaderDetails::OneByteCountAndPrefix(1, PrefixedVariation::Group41Var3(CountSequence::new(1, &buf[..6]))),
            4 => HeaderDetails::OneByteCountAndPrefix(1, PrefixedVariation::Group41Var4(CountSequence::new(1, &buf[..10]))),
            5 => HeaderDetails::TwoByteCountAndPrefix(1, PrefixedVariation::Group12Var1(CountSequence::new(1, &buf[..13]))),
            6 => HeaderDetails::TwoByteCountAndPrefix(1, PrefixedVariation::Group41Var1(CountSequence::new(1, &buf[..7]))),
            7 => HeaderDetails::TwoByteCountAndPrefix(1, PrefixedVariation::Group41Var2(CountSequence::new(1, &buf[..5]))),
            8 => HeaderDetails::TwoByteCountAndPrefix(1, PrefixedVariation::Group41Var3(CountSequence::new(1, &buf[..7]))),
            9 => HeaderDetails::TwoByteCountAndPrefix(1, PrefixedVariation::Group41Var4(CountSequence::new(1, &buf[..11]))),
            // kinds outside the command set
            10 => HeaderDetails::AllObjects(AllObjectsVariation::Group60Var1),
            11 => HeaderDetails::OneByteCountAndPrefix(1, PrefixedVariation::Group2Var1(CountSequence::new(1, &buf[..2]))),
            12 => HeaderDetails::OneByteCount(1, crate::app::gen::count::CountVariation::Group50Var1(CountSequence::new(1, &buf[..6]))),
            _ => HeaderDetails::TwoByteCountAndPrefix(1, PrefixedVariation::Group2Var1(CountSequence::new(1, &buf[..3]))),
        }
    }

    macro_rules! c16_kind {
        ($name:ident, $s:expr) => {
            #[kani::proof]
            #[kani::unwind(16)]
            fn $name() {
                let r: u8 = kani::any();
                kani::assume(r < 14); // @assume: harness domain: selector of the reply header kind
                let buf: [u8; 13] = kani::any();
                let header = sent_of_kind($s);
                let res = header.compare(recv_of_kind(r, &buf));
                if $s != r { assert!(res == Err(CommandResponseError::HeaderTypeMismatch)); }
                assert!(!res.is_ok() || $s == r);
                kani::cover!(res.is_ok());
                kani::cover!(r == $s && res.is_err());
                kani::cover!(r == ($s + 5) % 10);  // same variation, other index width
                kani::cover!(r >= 10);             // foreign kinds
            }
        };
    }
    // @harness ids=C16,C01 tier=quick kind=proof units=master::request::CommandHeader::compare timeout=600 note="request header g12v1 / u8 against a one-object reply header of each of the 10 command kinds plus 4 foreign kinds (all-objects, other prefixed variation 8/16-bit, count-only), all octets arbitrary: a reply of a different group/variation/index width is always HeaderTypeMismatch; Ok implies identical kind"
    c16_kind!(vk_c16_kind_g12v1_u8, 0);
    // @harness ids=C16,C01 tier=quick kind=proof units=master::request::CommandHeader::compare timeout=600 note="request header g41v1 / u8 against a one-object reply header of each of the 10 command kinds plus 4 foreign kinds (all-objects, other prefixed variation 8/16-bit, count-only), all octets arbitrary: a reply of a different group/variation/index width is always HeaderTypeMismatch; Ok implies identical kind"
    c16_kind!(vk_c16_kind_g41v1_u8, 1);
    // @harness ids=C16,C01 tier=quick kind=proof units=master::request::CommandHeader::compare timeout=600 note="request header g41v2 / u8 against a one-object reply header of each of the 10 command kinds plus 4 foreign kinds (all-objects, other prefixed variation 8/16-bit, count-only), all octets arbitrary: a reply of a different group/variation/index width is always HeaderTypeMismatch; Ok implies identical kind"
    c16_kind!(vk_c16_kind_g41v2_u8, 2);
    // @harness ids=C16,C01 tier=quick kind=proof units=master::request::CommandHeader::compare timeout=600 note="request header g41v3 / u8 against a one-object reply header of each of the 10 command kinds plus 4 foreign kinds (all-objects, other prefixed variation 8/16-bit, count-only), all octets arbitrary: a reply of a different group/variation/index width is always HeaderTypeMismatch; Ok implies identical kind"
    c16_kind!(vk_c16_kind_g41v3_u8, 3);
    // @harness ids=C16,C01 tier=quick kind=proof units=master::request::CommandHeader::compare timeout=600 note="request header g41v4 / u8 against a one-object reply header of each of the 10 command kinds plus 4 foreign kinds (all-objects, other prefixed variation 8/16-bit, count-only), all octets arbitrary: a reply of a different group/variation/index width is always HeaderTypeMismatch; Ok implies identical kind"
    c16_kind!(vk_c16_kind_g41v4_u8, 4);
    // @harness ids=C16,C01 tier=quick kind=proof units=master::request::CommandHeader::compare timeout=600 note="request header g12v1 / u16 against a one-object reply header of each of the 10 command kinds plus 4 foreign kinds (all-objects, other prefixed variation 8/16-bit, count-only), all octets arbitrary: a reply of a different group/variation/index width is always HeaderTypeMismatch; Ok implies identical kind"
    c16_kind!(vk_c16_kind_g12v1_u16, 5);
    // @harness ids=C16,C01 tier=quick kind=proof units=master::request::CommandHeader::compare timeout=600 note="request header g41v1 / u16 against a one-object reply header of each of the 10 command kinds plus 4 foreign kinds (all-objects, other prefixed variation 8/16-bit, count-only), all octets arbitrary: a reply of a different group/variation/index width is always HeaderTypeMismatch; Ok implies identical kind"
    c16_kind!(vk_c16_kind_g41v1_u16, 6);
    // @harness ids=C16,C01 tier=quick kind=proof units=master::request::CommandHeader::compare timeout=600 note="request header g41v2 / u16 against a one-object reply header of each of the 10 command kinds plus 4 foreign kinds (all-objects, other prefixed variation 8/16-bit, count-only), all octets arbitrary: a reply of a different group/variation/index width is always HeaderTypeMismatch; Ok implies identical kind"
    c16_kind!(vk_c16_kind_g41v2_u16, 7);
    // @harness ids=C16,C01 tier=quick kind=proof units=master::request::CommandHeader::compare timeout=600 note="request header g41v3 / u16 against a one-object reply header of each of the 10 command kinds plus 4 foreign kinds (all-objects, other prefixed variation 8/16-bit, count-only), all octets arbitrary: a reply of a different group/variation/index width is always HeaderTypeMismatch; Ok implies identical kind"
    c16_kind!(vk_c16_kind_g41v3_u16, 8);
    // @harness ids=C16,C01 tier=quick kind=proof units=master::request::CommandHeader::compare timeout=600 note="request header g41v4 / u16 against a one-object reply header of each of the 10 command kinds plus 4 foreign kinds (all-objects, other prefixed variation 8/16-bit, count-only), all octets arbitrary: a reply of a different group/variation/index width is always HeaderTypeMismatch; Ok implies identical kind"
    c16_kind!(vk_c16_kind_g41v4_u16, 9);
