    use crate::master::association::verif_kani_c17_autotasks as at;
    use crate::master::association::verif_kani_c17_next_order as no;
    use crate::app::{ControlField, Iin1, Iin2, ResponseFunction};

    pub(crate) static mut UNSOL_NOTIFY: (usize, bool, u8) = (0, false, 0);
    pub(crate) struct VInfo;
    impl AssociationInformation for VInfo {
        fn unsolicited_response(&mut self, is_duplicate: bool, seq: Sequence) {
            unsafe { UNSOL_NOTIFY = (UNSOL_NOTIFY.0 + 1, is_duplicate, seq.value()); }
        }
    }

    fn any_event_classes() -> EventClasses { EventClasses::new(kani::any(), kani::any(), kani::any()) }

    /// An Association "shell": zeroed memory in which exactly the fields the functions under contract touch are
    /// written (a real Association holds boxed user handlers and a queue of `Task`s, which CBMC cannot instrument).
    /// Never dropped, never read outside those fields (a read of an unwritten Box would be a null dereference and
    /// fail the harness).
    pub(crate) struct Shell { pub(crate) mem: core::mem::MaybeUninit<Association> }
    impl Shell {
        pub(crate) fn new(ts: TaskStates, config: AssociationConfig, integrity_done: bool, ev: EventClasses) -> Shell {
            let mut mem = core::mem::MaybeUninit::<Association>::zeroed();
            let p = mem.as_mut_ptr();
            unsafe {
                core::ptr::addr_of_mut!((*p).auto_tasks).write(ts);
                core::ptr::addr_of_mut!((*p).config).write(config);
                core::ptr::addr_of_mut!((*p).startup_integrity_done).write(integrity_done);
                core::ptr::addr_of_mut!((*p).events_available).write(ev);
                core::ptr::addr_of_mut!((*p).last_unsol_frag).write(None);
                core::ptr::addr_of_mut!((*p).address).write(FragmentAddr { link: EndpointAddress::raw(1024), phys: crate::util::phys::PhysAddr::None });
                core::ptr::addr_of_mut!((*p).assoc_info).write(Box::new(VInfo));
            }
            Shell { mem }
        }
        pub(crate) fn get(&mut self) -> &mut Association { unsafe { &mut *self.mem.as_mut_ptr() } }
    }

    pub(crate) fn any_config() -> AssociationConfig {
        let mut c = AssociationConfig::new(any_event_classes(), any_event_classes(), Classes::new(kani::any(), any_event_classes()), any_event_classes());
        c.auto_time_sync = match kani::any::<u8>() % 3 { 0 => None, 1 => Some(TimeSyncProcedure::Lan), _ => Some(TimeSyncProcedure::NonLan) };
        c.auto_integrity_scan_on_buffer_overflow = kani::any();
        c
    }

    fn tags(ts: &TaskStates) -> [u8; 6] {
        [at::tag(&ts.disable_unsolicited), at::tag(&ts.integrity_scan), at::tag(&ts.enabled_unsolicited), at::tag(&ts.clear_restart_iin), at::tag(&ts.time_sync), at::tag(&ts.event_scan)]
    }
    fn demanded(before: u8) -> u8 { if before == 0 { 1 } else { before } }

    // @harness ids=C17,C01 tier=quick kind=proof units=master::association::Association::process_iin,master::association::Association::on_restart_iin_observed,master::association::Association::on_need_time_observed,master::association::Association::on_event_buffer_overflow_observed,master::association::Association::is_integrity_complete timeout=600 note="effect of the IIN of ANY response on the automatic-task states, for every IIN value, every combination of task states and configuration: a NEWLY observed restart indication arms clear-restart, integrity poll and enable-unsolicited and closes the unsolicited gate (integrity no longer complete); need-time demands time sync; overflow demands an integrity poll iff configured; events-available bits are mirrored and demand an event scan iff configured; nothing else changes"
    #[kani::proof]
    fn vk_c17_process_iin() {
        let ts = at::any_task_states();
        let before = tags(&ts);
        let config = any_config();
        let integrity_classes = config.startup_integrity_classes.any();
        let overflow_cfg = config.auto_integrity_scan_on_buffer_overflow;
        let scan_cfg = config.event_scan_on_events_available;
        let done0: bool = kani::any();
        let mut sh = Shell::new(ts, config, done0, any_event_classes());
        let iin = Iin::new(Iin1::new(kani::any()), Iin2::new(kani::any()));
        sh.get().process_iin(iin);
        let a = sh.get();
        let after = tags(&a.auto_tasks);
        let restart = iin.iin1.value & 0x80 != 0;
        let need_time = iin.iin1.value & 0x10 != 0;
        let overflow = iin.iin2.value & 0x08 != 0;
        let newly = restart && before[3] == 0;
        // expected tags: [disable, integrity, enable, clear_restart, time_sync, event_scan]
        let mut exp = before;
        if newly { exp[3] = 1; exp[1] = demanded(exp[1]); exp[2] = demanded(exp[2]); }
        if need_time { exp[4] = demanded(exp[4]); }
        if overflow && overflow_cfg { exp[1] = demanded(exp[1]); }
        let ev = EventClasses::new(iin.iin1.value & 0x02 != 0, iin.iin1.value & 0x04 != 0, iin.iin1.value & 0x08 != 0);
        if (ev & scan_cfg).any() { exp[5] = demanded(exp[5]); }
        assert!(after == exp);
        assert!(a.events_available == ev);
        // the unsolicited gate: after a newly observed restart the start-up integrity poll counts as not done
        assert!(a.startup_integrity_done == (done0 && !newly));
        assert!(a.is_integrity_complete() == (!integrity_classes || (done0 && !newly)));
        kani::cover!(newly && done0 && before[1] == 2);
        kani::cover!(restart && !newly);
        kani::cover!(overflow && overflow_cfg && before[1] == 0 && !restart);
        kani::cover!(exp[5] == 1 && before[5] == 0);
    }

    // @harness ids=C17,C01 tier=quick kind=proof units=master::association::Association::on_integrity_scan_complete,master::association::Association::on_clear_restart_iin_response,master::association::Association::on_time_sync_success,master::association::Association::on_enable_unsolicited_response,master::association::Association::on_disable_unsolicited_response,master::association::Association::on_event_scan_complete timeout=600 note="completion callbacks: each marks exactly its own task idle; the integrity completion opens the unsolicited gate; a clear-restart reply that still shows the restart bit is a failure (retried), not a completion"
    #[kani::proof]
    #[kani::stub(tokio::time::Instant::now, crate::master::association::verif_kani_c17_autotasks::stub_now)]
    fn vk_c17_completion_callbacks() {
        let ts = at::any_task_states();
        let before = tags(&ts);
        let mut sh = Shell::new(ts, any_config(), kani::any(), any_event_classes());
        let which: u8 = kani::any();
        kani::assume(which < 6);
        let iin = Iin::new(Iin1::new(kani::any()), Iin2::new(kani::any()));
        let a = sh.get();
        let done0 = a.startup_integrity_done;
        match which {
            0 => a.on_disable_unsolicited_response(iin),
            1 => a.on_integrity_scan_complete(),
            2 => a.on_enable_unsolicited_response(iin),
            3 => a.on_clear_restart_iin_response(iin),
            4 => a.on_time_sync_success(),
            _ => a.on_event_scan_complete(),
        }
        let after = tags(&a.auto_tasks);
        let mut i = 0;
        while i < 6 {
            if i == which as usize {
                if which == 3 && iin.iin1.value & 0x80 != 0 { assert!(after[i] == 2); } else { assert!(after[i] == 0); }
            } else {
                assert!(after[i] == before[i]);
            }
            i += 1;
        }
        assert!(a.startup_integrity_done == (done0 || which == 1));
        kani::cover!(which == 3 && after[3] == 2);
        kani::cover!(which == 1 && !done0);
    }

    // ---------------------------------------------------------------- C19: per-association choice and keep-alive
    pub(crate) static mut AUTO_CONSULTED: usize = 0;
    pub(crate) static mut POLL_CHOICE: (u8, i64, u32) = (0, 0, 0);
    impl AutoTaskState {
        /// contract stub (C19 harness): a non-idle automatic task is reported as "wait until MARK" without building a Task
        pub(crate) fn stub_create_next_task_mark<F: FnOnce() -> Task>(&self, builder: F) -> Next<Task> {
            unsafe { AUTO_CONSULTED += 1; }
            core::mem::forget(builder);
            Next::NotBefore(at::mk_instant(1, 1))
        }
    }
    impl PollMap {
        /// contract stub of PollMap::next (proved by vk_c19_pollmap_next): nothing due now -> None or the earliest deadline
        pub(crate) fn stub_next_not_due(&self, _now: Instant) -> Next<crate::master::poll::Poll> {
            let (k, s, n) = unsafe { POLL_CHOICE };
            if k == 0 { Next::None } else { Next::NotBefore(at::mk_instant(s, n)) }
        }
    }

    // (Association::get_next_task as a whole - automatic tasks before polls before keep-alive, sleep until the earlier deadline -
    //  was attempted with create_next_task and PollMap::next behind contract stubs: CBMC did not finish in 900 s, because the
    //  arms that build `Task` values are executed symbolically. The keep-alive rule itself is proved below.)

    // (next_link_status_task itself - "due IFF the deadline has been reached" - builds a Task::LinkStatus value in its Now arm;
    //  CBMC does not finish on any code that constructs a Task (600 s). Only the deadline arithmetic is proved.)

    // @harness ids=C19,C01 tier=quick kind=proof stubs=1 units=master::association::Association::on_link_activity timeout=600 note="keep-alive deadline: every link activity re-arms it to (that instant + configured keep-alive timeout); no deadline when keep-alive is not configured"
    #[kani::proof]
    #[kani::stub(tokio::time::Instant::now, crate::master::association::verif_kani_c17_autotasks::stub_now)]
    fn vk_c19_keep_alive_deadline() {
        let mut config = any_config();
        let keep: bool = kani::any();
        let ka = Duration::new(kani::any::<u32>() as u64, 0);
        config.keep_alive_timeout = if keep { Some(ka) } else { None };
        let mut sh = Shell::new(at::any_task_states(), config, kani::any(), any_event_classes());
        let (old, had): (Instant, bool) = (at::any_instant_pub(), kani::any());
        unsafe { core::ptr::addr_of_mut!((*sh.mem.as_mut_ptr()).next_link_status_deadline).write(if had { Some(old) } else { None }); }
        let t0 = at::any_now();
        sh.get().on_link_activity();
        match sh.get().next_link_status_deadline {
            None => assert!(!keep),
            Some(d) => assert!(keep && at::is_now_plus(d, t0, ka)),
        }
        kani::cover!(keep && had);
        kani::cover!(!keep && had);
    }

    // @harness ids=C17,C01 tier=quick kind=proof units=master::association::Association::reset timeout=900 note="a new connection (Association::reset, empty request queue): the start-up sequence is re-armed (disable unsolicited, integrity poll, enable unsolicited pending), the unsolicited gate is closed again (integrity no longer counts as done) and the memory of the last unsolicited fragment is dropped"
    #[kani::proof]
    #[kani::unwind(8)]
    fn vk_c17_association_reset() {
        let mut sh = Shell::new(at::any_task_states(), any_config(), kani::any(), any_event_classes());
        unsafe {
            core::ptr::addr_of_mut!((*sh.mem.as_mut_ptr()).request_queue).write(VecDeque::new());
            core::ptr::addr_of_mut!((*sh.mem.as_mut_ptr()).last_unsol_frag).write(if kani::any() { Some(LastUnsolFragment { header: ResponseHeader::new(ControlField::from(kani::any()), ResponseFunction::UnsolicitedResponse, Iin::new(Iin1::new(kani::any()), Iin2::new(kani::any()))), hash: kani::any() }) } else { None });
        }
        let integrity_classes = sh.get().config.startup_integrity_classes.any();
        sh.get().reset(RunError::Link(crate::link::error::LinkError::Stdio(std::io::ErrorKind::BrokenPipe)));
        let a = sh.get();
        let t = tags(&a.auto_tasks);
        assert!(t == [1, 1, 1, 0, 0, 0]);
        assert!(!a.startup_integrity_done);
        assert!(a.is_integrity_complete() == !integrity_classes);
        assert!(a.last_unsol_frag.is_none());
        kani::cover!(integrity_classes);
    }

    /// accessor for fragments of other files (no logic): tag of the automatic time-sync task (0 idle, 1 pending, 2 failed)
    pub(crate) fn time_sync_tag(a: &Association) -> u8 { at::tag(&a.auto_tasks.time_sync) }
