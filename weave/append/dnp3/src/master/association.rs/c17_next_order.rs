    use crate::master::association::verif_kani_c17_autotasks as at;

    // Contract stub for AutoTaskState::create_next_task: the real function turns a non-idle state into Now(task) or
    // NotBefore(retry instant) (its wait gate is exercised by vk_c17_autotask_*); here only WHICH task state the
    // scheduler consulted matters. Building a `Task` value makes the goto program too large for CBMC (DESIGN 1.6),
    // so the builder closure is dropped uncalled and the choice is logged by address.
    pub(crate) static mut CNT_SELF: *const AutoTaskState = core::ptr::null();
    pub(crate) static mut CNT_CALLS: usize = 0;
    impl AutoTaskState {
        pub(crate) fn stub_create_next_task<F: FnOnce() -> Task>(&self, builder: F) -> Next<Task> {
            unsafe { CNT_SELF = self as *const AutoTaskState; CNT_CALLS += 1; }
            core::mem::forget(builder);
            Next::None
        }
    }

    fn any_event_classes() -> EventClasses { EventClasses::new(kani::any(), kani::any(), kani::any()) }

    // @harness ids=C17 tier=quick kind=proof stubs=1 units=master::association::TaskStates::next timeout=900 note="fixed priority of automatic tasks for every combination of task states and configuration: clear-restart first; then disable-unsolicited, integrity poll, time synchronisation (if configured and requested), and only then enable-unsolicited; event scan last; a non-idle (pending OR failed-waiting) earlier step always blocks the later ones"
    #[kani::proof]
    #[kani::stub(AutoTaskState::create_next_task, AutoTaskState::stub_create_next_task)]
    fn vk_c17_next_priority_order() {
        let ts = at::any_task_states();
        let mut config = AssociationConfig::new(any_event_classes(), any_event_classes(), Classes::new(kani::any(), any_event_classes()), any_event_classes());
        config.auto_time_sync = match kani::any::<u8>() % 3 { 0 => None, 1 => Some(TimeSyncProcedure::Lan), _ => Some(TimeSyncProcedure::NonLan) };
        // an Association is only READ for `events_available`; a real one cannot be built under CBMC (boxed handlers, task queue)
        let mut shell = core::mem::MaybeUninit::<Association>::zeroed();
        let ev = any_event_classes();
        unsafe { core::ptr::addr_of_mut!((*shell.as_mut_ptr()).events_available).write(ev); }
        let assoc: &Association = unsafe { &*shell.as_ptr() };
        unsafe { CNT_CALLS = 0; CNT_SELF = core::ptr::null(); }
        let r = ts.next(&config, assoc);
        core::mem::forget(r);
        let chosen = unsafe { CNT_SELF };
        let calls = unsafe { CNT_CALLS };
        let pend = |s: &AutoTaskState| !matches!(s, AutoTaskState::Idle);
        let scan = ev & config.event_scan_on_events_available;
        // the order demanded by the property
        let expect: *const AutoTaskState =
            if pend(&ts.clear_restart_iin) { &ts.clear_restart_iin }
            else if config.disable_unsol_classes.any() && pend(&ts.disable_unsolicited) { &ts.disable_unsolicited }
            else if config.startup_integrity_classes.any() && pend(&ts.integrity_scan) { &ts.integrity_scan }
            else if config.auto_time_sync.is_some() && pend(&ts.time_sync) { &ts.time_sync }
            else if config.enable_unsol_classes.any() && pend(&ts.enabled_unsolicited) { &ts.enabled_unsolicited }
            else if scan.any() { &ts.event_scan }
            else { core::ptr::null() };
        assert!(chosen == expect);
        assert!(calls == if expect.is_null() { 0 } else { 1 });
        kani::cover!(expect == &ts.time_sync as *const AutoTaskState && at::tag(&ts.time_sync) == 2);
        kani::cover!(expect == &ts.enabled_unsolicited as *const AutoTaskState);
        kani::cover!(expect == &ts.event_scan as *const AutoTaskState);
        kani::cover!(expect.is_null());
        core::mem::forget(ts);
    }
