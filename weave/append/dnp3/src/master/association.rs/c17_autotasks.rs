    use crate::verif_spec as spec;
    use crate::app::verif_kani_c17_backoff as bk;

    // ---- controllable clock: `tokio::time::Instant::now` is replaced by `stub_now` (reads the ghost variables below)
    static mut NOW_SECS: i64 = 0;
    static mut NOW_NANOS: u32 = 0;
    #[repr(C)]
    struct RawTs { secs: i64, nanos: u32 }

    pub(crate) fn mk_instant(secs: i64, nanos: u32) -> Instant {
        // std::time::Instant on unix is a (seconds: i64, nanoseconds: u32 < 10^9) pair; the failure harness reads the pair back
        // (raw_of) and checks it against independently computed seconds/nanoseconds, so a different layout would make it fail
        let s: std::time::Instant = unsafe { std::mem::transmute(RawTs { secs, nanos }) };
        Instant::from_std(s)
    }

    /// the (seconds, nanoseconds) pair inside an Instant
    fn raw_of(t: Instant) -> (i64, u32) {
        let r: RawTs = unsafe { std::mem::transmute(t.into_std()) };
        (r.secs, r.nanos)
    }

    /// `t` is exactly `now + delay` on the clock's own (seconds, nanoseconds) representation, computed independently of std's Add
    pub(crate) fn is_now_plus(t: Instant, now: Instant, delay: Duration) -> bool {
        let (ts, tn) = raw_of(t);
        let (s0, n0) = raw_of(now);
        let sum_n: u32 = n0 + delay.subsec_nanos();
        let carry: i64 = if sum_n >= 1_000_000_000 { 1 } else { 0 };
        tn == (if carry == 1 { sum_n - 1_000_000_000 } else { sum_n }) && ts == s0 + (delay.as_secs() as i64) + carry
    }

    pub(crate) fn stub_now() -> Instant {
        unsafe { mk_instant(NOW_SECS, NOW_NANOS) }
    }

    /// a symbolic "current time" far from the representation limits (monotonic clocks count from boot)
    pub(crate) fn any_now() -> Instant {
        let s: i64 = kani::any();
        let n: u32 = kani::any();
        kani::assume(s >= 0 && s < (1i64 << 40)); // @assume: monotonic clock reading below 2^40 s (~35000 years of uptime)
        kani::assume(n < 1_000_000_000); // @assume: type invariant of Instant
        unsafe { NOW_SECS = s; NOW_NANOS = n; }
        mk_instant(s, n)
    }

    pub(crate) fn any_instant_pub() -> Instant { any_instant() }

    fn any_instant() -> Instant {
        let s: i64 = kani::any();
        let n: u32 = kani::any();
        kani::assume(s >= 0 && s < (1i64 << 62)); // @assume: representable Instant
        kani::assume(n < 1_000_000_000); // @assume: type invariant of Instant
        mk_instant(s, n)
    }

    pub(crate) fn tag(s: &AutoTaskState) -> u8 {
        match s { AutoTaskState::Idle => 0, AutoTaskState::Pending => 1, AutoTaskState::Failed(_, _) => 2 }
    }

    /// structural equality (AutoTaskState has no PartialEq)
    fn same(a: &AutoTaskState, b: &AutoTaskState) -> bool {
        match (a, b) {
            (AutoTaskState::Idle, AutoTaskState::Idle) => true,
            (AutoTaskState::Pending, AutoTaskState::Pending) => true,
            (AutoTaskState::Failed(x, t), AutoTaskState::Failed(y, u)) => {
                t == u && bk::last_of(x) == bk::last_of(y) && bk::min_of(x) == bk::min_of(y) && bk::max_of(x) == bk::max_of(y)
            }
            _ => false,
        }
    }

    /// any task state; back-off objects satisfy their invariant and stay below 2^62 s so that `Instant + delay` is representable
    fn any_state() -> AutoTaskState {
        let t: u8 = kani::any();
        kani::assume(t <= 2);
        match t {
            0 => AutoTaskState::Idle,
            1 => AutoTaskState::Pending,
            _ => {
                let (min, max, last) = (bk::any_duration(), bk::any_duration(), bk::any_duration());
                let has_last: bool = kani::any();
                let b = bk::mk_backoff(min, max, if has_last { Some(last) } else { None });
                kani::assume(bk::backoff_inv(&b)); // @assume: invariant of ExponentialBackOff (proved in vk_c17_backoff_full_domain), incl. precondition min <= max
                kani::assume(max.as_secs() < (1u64 << 62)); // @assume: configured max delay below 2^62 s, else tokio `Instant + Duration` panics (observation: unconstrained configuration)
                AutoTaskState::Failed(b, any_instant())
            }
        }
    }

    // @harness ids=C17,C01 tier=quick kind=proof units=master::association::AutoTaskState::demand,master::association::AutoTaskState::done,master::association::AutoTaskState::is_pending,master::association::AutoTaskState::is_idle timeout=300 note="for every task state: is_idle iff Idle, is_pending iff not Idle; demand arms an Idle task (returns true) and leaves a Pending/Failed one untouched (returns false); done makes it Idle"
    #[kani::proof]
    fn vk_c17_autotask_transitions() {
        let s0 = any_state();
        let t0 = tag(&s0);
        assert!(s0.is_idle() == (t0 == 0));
        assert!(s0.is_pending() == (t0 != 0));
        let mut s = s0.clone();
        let changed = s.demand();
        assert!(changed == (t0 == 0));
        if t0 == 0 { assert!(tag(&s) == 1); } else { assert!(same(&s, &s0)); }
        assert!(s.is_pending());
        let mut d = s0.clone();
        d.done();
        assert!(tag(&d) == 0 && d.is_idle() && !d.is_pending());
        kani::cover!(t0 == 0 && changed);
        kani::cover!(t0 == 1 && !changed);
        kani::cover!(t0 == 2 && !changed);
        std::mem::forget(s0); std::mem::forget(s); std::mem::forget(d);
    }

    // @harness ids=C17,C01 tier=quick kind=proof stubs=1 units=master::association::AutoTaskState::failure timeout=300 note="a failure in any state yields Failed(backoff, now+delay): from Idle/Pending a fresh back-off of the configured strategy with delay = min; from Failed the same strategy with delay = min(2*last,max) (spec backoff_next_sn); retry instant is exactly now+delay; clock stubbed"
    #[kani::proof]
    #[kani::stub(tokio::time::Instant::now, stub_now)]
    fn vk_c17_autotask_failure() {
        let now = any_now();
        let s0 = any_state();
        let t0 = tag(&s0);
        let mut config = AssociationConfig::default();
        let (cmin, cmax) = (bk::any_duration(), bk::any_duration());
        kani::assume(cmin <= cmax); // @assume: property precondition min <= max on the configured RetryStrategy
        kani::assume(cmax.as_secs() < (1u64 << 62)); // @assume: configured max delay below 2^62 s (Instant + Duration representable)
        config.auto_tasks_retry_strategy = RetryStrategy::new(cmin, cmax);
        let mut s = s0.clone();
        s.failure(&config);
        match (&s0, &s) {
            (AutoTaskState::Failed(b0, _), AutoTaskState::Failed(b, t)) => {
                let (min, max) = (bk::min_of(b0), bk::max_of(b0));
                let (has_last, last) = match bk::last_of(b0) { Some(l) => (true, l), None => (false, Duration::from_secs(0)) };
                let (ws, wn) = spec::backoff_next_sn(min.as_secs(), min.subsec_nanos(), max.as_secs(), max.subsec_nanos(), has_last, last.as_secs(), last.subsec_nanos());
                let delay = bk::last_of(b).unwrap();
                assert!(delay.as_secs() == ws && delay.subsec_nanos() == wn);
                assert!(min <= delay && delay <= max);
                assert!(bk::min_of(b) == min && bk::max_of(b) == max);
                assert!(is_now_plus(*t, now, delay));
                assert!(bk::backoff_inv(b));
            }
            (_, AutoTaskState::Failed(b, t)) => {
                assert!(t0 == 0 || t0 == 1);
                assert!(bk::last_of(b) == Some(cmin));
                assert!(bk::min_of(b) == cmin && bk::max_of(b) == cmax);
                assert!(is_now_plus(*t, now, cmin));
                assert!(bk::backoff_inv(b));
            }
            _ => assert!(false),
        }
        assert!(s.is_pending() && !s.is_idle());
        kani::cover!(t0 == 0);
        kani::cover!(t0 == 1);
        kani::cover!(t0 == 2);
        std::mem::forget(s0); std::mem::forget(s);
    }

    pub(crate) fn any_task_states() -> TaskStates {
        TaskStates {
            disable_unsolicited: any_state(),
            integrity_scan: any_state(),
            enabled_unsolicited: any_state(),
            clear_restart_iin: any_state(),
            time_sync: any_state(),
            event_scan: any_state(),
        }
    }

    fn is_startup(ts: &TaskStates) -> bool {
        tag(&ts.disable_unsolicited) == 1 && tag(&ts.integrity_scan) == 1 && tag(&ts.enabled_unsolicited) == 1
            && tag(&ts.clear_restart_iin) == 0 && tag(&ts.time_sync) == 0 && tag(&ts.event_scan) == 0
    }

    // @harness ids=C17,C01 tier=quick kind=proof units=master::association::TaskStates::new,master::association::TaskStates::reset,master::association::TaskStates::on_restart_iin timeout=300 note="new and reset (from any state) arm exactly disable-unsolicited, integrity poll and enable-unsolicited; a restart indication in any state leaves clear-restart, integrity poll and enable-unsolicited all pending (Idle ones become Pending, Pending/Failed ones are untouched) and does not touch the other three tasks"
    #[kani::proof]
    fn vk_c17_taskstates_arming() {
        let fresh = TaskStates::new();
        assert!(is_startup(&fresh));
        let mut ts = any_task_states();
        let before = TaskStates {
            disable_unsolicited: ts.disable_unsolicited.clone(),
            integrity_scan: ts.integrity_scan.clone(),
            enabled_unsolicited: ts.enabled_unsolicited.clone(),
            clear_restart_iin: ts.clear_restart_iin.clone(),
            time_sync: ts.time_sync.clone(),
            event_scan: ts.event_scan.clone(),
        };
        ts.on_restart_iin();
        assert!(ts.clear_restart_iin.is_pending());
        assert!(ts.integrity_scan.is_pending());
        assert!(ts.enabled_unsolicited.is_pending());
        if tag(&before.clear_restart_iin) == 0 { assert!(tag(&ts.clear_restart_iin) == 1); } else { assert!(same(&ts.clear_restart_iin, &before.clear_restart_iin)); }
        if tag(&before.integrity_scan) == 0 { assert!(tag(&ts.integrity_scan) == 1); } else { assert!(same(&ts.integrity_scan, &before.integrity_scan)); }
        if tag(&before.enabled_unsolicited) == 0 { assert!(tag(&ts.enabled_unsolicited) == 1); } else { assert!(same(&ts.enabled_unsolicited, &before.enabled_unsolicited)); }
        assert!(same(&ts.disable_unsolicited, &before.disable_unsolicited));
        assert!(same(&ts.time_sync, &before.time_sync));
        assert!(same(&ts.event_scan, &before.event_scan));
        kani::cover!(tag(&before.clear_restart_iin) == 0 && tag(&before.integrity_scan) == 2 && tag(&before.enabled_unsolicited) == 1);
        kani::cover!(tag(&before.clear_restart_iin) == 2);
        // restart indication right after start-up completed (everything Idle): exactly the three tasks are armed
        let mut idle = TaskStates::new();
        idle.disable_unsolicited.done(); idle.integrity_scan.done(); idle.enabled_unsolicited.done();
        idle.on_restart_iin();
        assert!(tag(&idle.clear_restart_iin) == 1 && tag(&idle.integrity_scan) == 1 && tag(&idle.enabled_unsolicited) == 1);
        assert!(tag(&idle.disable_unsolicited) == 0 && tag(&idle.time_sync) == 0 && tag(&idle.event_scan) == 0);
        // reset (new connection) re-arms the start-up sequence whatever happened before
        ts.reset();
        assert!(is_startup(&ts));
        kani::cover!(is_startup(&ts));
        std::mem::forget(ts); std::mem::forget(before); std::mem::forget(fresh); std::mem::forget(idle);
    }
