    use crate::outstation::session::verif_kani_session as vs;
    use crate::outstation::control::collection::verif_kani_c04_glue_helpers as ch;
    use crate::outstation::control::collection::verif_kani_c12_controls_stub as cs;
    use crate::app::parse::parser::verif_kani_helpers as ph;
    use crate::util::phys::verif_kani_io as io;
    use crate::util::verif_kani_clock as clk;
    use crate::outstation::database::{ClassZeroConfig, EventBufferConfig};

    // @harness ids=C12,C04,C01 tier=quick kind=proof stubs=1 units=outstation::session::OutstationSession::handle_controls,outstation::session::OutstationSession::handle_direct_operate,outstation::session::OutstationSession::handle_direct_operate_no_ack timeout=900 note="the four control function codes: DIRECT_OPERATE_NO_ACK is NEVER answered - neither when it is executed nor when its object headers are rejected; SELECT, OPERATE and DIRECT_OPERATE are always answered, with PARAMETER_ERROR when a header is not a control header (and then nothing is selected or actuated); each accepted request evaluates its controls exactly once through the function-specific path"
    #[kani::proof]
    #[kani::unwind(4)]
    #[kani::stub(ControlCollection::from, ControlCollection::stub_from)]
    #[kani::stub(ControlCollection::hash, ControlCollection::stub_hash)]
    #[kani::stub(ControlCollection::select_with_response, ControlCollection::stub_select_with_response)]
    #[kani::stub(ControlCollection::operate_with_response, ControlCollection::stub_operate_with_response)]
    #[kani::stub(ControlCollection::respond_with_status, ControlCollection::stub_respond_with_status)]
    #[kani::stub(ControlCollection::operate_no_ack, ControlCollection::stub_operate_no_ack)]
    #[kani::stub(tokio::time::Instant::now, crate::util::verif_kani_clock::stub_now)]
    fn vk_c12_handle_controls() {
        let mut s = vs::make_session();
        let mut db = DatabaseHandle::new(None, ClassZeroConfig::default(), EventBufferConfig::no_events());
        let raw: [u8; 4] = kani::any();
        let which: u8 = kani::any();
        kani::assume(which < 4);
        let (ct, function) = match which {
            0 => (ControlType::Select, FunctionCode::Select),
            1 => (ControlType::Operate, FunctionCode::Operate),
            2 => (ControlType::DirectOperate, FunctionCode::DirectOperate),
            _ => (ControlType::DirectOperateNoAck, FunctionCode::DirectOperateNoResponse),
        };
        let headers = ph::mk_header_collection(function, &raw);
        let ok_headers: bool = kani::any();
        let seq = Sequence::new(kani::any());
        clk::set_now(5, 0);
        unsafe {
            cs::FROM_OK = ok_headers; cs::NOACK_CALLS = 0;
            ch::RESULT_CHOICE = (0, kani::any()); ch::HASH_RET = kani::any();
            ch::SELECT_CALLS = 0; ch::OPERATE_CALLS = 0; ch::STATUS_CALLS = 0;
        }
        s.state.select = None;
        let r = io::run(s.handle_controls(ct, &mut db, seq, kani::any(), headers));
        let (sel, op, st, na) = unsafe { (ch::SELECT_CALLS, ch::OPERATE_CALLS, ch::STATUS_CALLS, cs::NOACK_CALLS) };
        match r {
            None => assert!(false),
            Some(None) => {
                // silence is allowed for the no-acknowledge code only
                assert!(which == 3);
                assert!(na == if ok_headers { 1 } else { 0 });
                kani::cover!(!ok_headers);
                kani::cover!(ok_headers);
            }
            Some(Some(resp)) => {
                assert!(which != 3);
                assert!(resp.header.control.seq == seq && resp.header.control.fir && resp.header.control.fin && !resp.header.control.uns);
                if !ok_headers {
                    assert!(resp.header.iin.iin2.value & 0x04 != 0);         // PARAMETER_ERROR
                    assert!(sel == 0 && op == 0 && st == 0 && na == 0);      // nothing selected or actuated
                    assert!(s.state.select.is_none());
                } else {
                    match which {
                        0 => assert!(sel == 1 && op == 0),
                        1 => assert!(sel == 0 && op == 0 && st == 1),         // no select recorded above: refused with NO_SELECT
                        _ => assert!(sel == 0 && op == 1 && !unsafe { ch::OPERATE_TYPE_SBO }),
                    }
                }
                kani::cover!(which == 2 && ok_headers);
                kani::cover!(which == 0 && !ok_headers);
            }
        }
        std::mem::forget(s); std::mem::forget(db);
    }
