    use crate::outstation::control::select::verif_kani_c04_select as selv;

    // @harness ids=C04,C01 tier=quick kind=proof units=outstation::session::SessionState::reset,outstation::session::SessionState::new timeout=300 note="a new SessionState has no select; reset (called between communication sessions) clears any recorded select state (arbitrary seq/frame id/time/hash) and the last-request memory, so an OPERATE after a reconnect finds no SELECT; unsolicited/restart state is left alone"
    #[kani::proof]
    fn vk_c04_session_state_reset() {
        assert!(selv::instant_layout_ok());
        let cap: u16 = kani::any();
        // @assume: bounds the Vec capacity allocated for deferred READ headers (irrelevant to reset; default is 64)
        kani::assume(cap <= 64);
        let mut st = SessionState::new(cap);
        assert!(st.select.is_none());
        let (sq, f, h): (u8, u32, u64) = (kani::any(), kani::any(), kani::any());
        let (s, n) = selv::any_time();
        let had_select: bool = kani::any();
        if had_select {
            st.select = Some(SelectState::new(Sequence::new(sq), f, selv::mk_instant(s, n), h));
        }
        let had_last: bool = kani::any();
        if had_last {
            st.last_valid_request = Some(LastValidRequest::new(Sequence::new(kani::any()), kani::any(), None, None));
        }
        let restart: bool = kani::any();
        st.restart_iin_asserted = restart;
        let useq: u8 = kani::any();
        st.unsolicited_seq = Sequence::new(useq);
        st.reset();
        assert!(st.select.is_none());
        assert!(st.last_valid_request.is_none());
        assert!(!st.deferred_read.is_set());
        assert!(st.restart_iin_asserted == restart);
        assert!(st.unsolicited_seq.value() == useq % 16);
        kani::cover!(had_select && had_last);
        kani::cover!(!had_select);
        std::mem::forget(st);
    }
