    use crate::app::BufferSize;
    use crate::outstation::{OutstationConfig, Features};
    use crate::outstation::database::EventBufferConfig;

    fn feat(b: bool) -> Feature { if b { Feature::Enabled } else { Feature::Disabled } }

    // @harness ids=C12,C04,C11,C14,C01 tier=quick kind=proof units=outstation::session::impl_From_OutstationConfig_for_SessionConfig,outstation::session::impl_From_OutstationConfig_for_SessionParameters timeout=300 note="every session parameter is taken from its NAMESAKE in the user's configuration, all fields distinct and symbolic: select timeout (not the confirm timeout), confirm timeout, solicited and unsolicited transmit sizes (not the receive size), features, retry settings, keep-alive, control limit, read-header limit"
    #[kani::proof]
    fn vk_c12_session_config_mapping() {
        let mut c = OutstationConfig::new(EndpointAddress::raw(10), EndpointAddress::raw(1), EventBufferConfig::no_events());
        let (sol, unsol, rx): (usize, usize, usize) = (kani::any(), kani::any(), kani::any());
        kani::assume(sol >= 249 && sol <= 4096 && unsol >= 249 && unsol <= 4096 && rx >= 249 && rx <= 4096);
        c.solicited_buffer_size = BufferSize::new(sol).unwrap();
        c.unsolicited_buffer_size = BufferSize::new(unsol).unwrap();
        c.rx_buffer_size = BufferSize::new(rx).unwrap();
        let (ct, st): (u32, u32) = (kani::any(), kani::any());
        kani::assume(ct >= 1 && ct <= 3_600_000 && st >= 1 && st <= 3_600_000);
        c.confirm_timeout = Timeout::from_millis(ct as u64).unwrap();
        c.select_timeout = Timeout::from_millis(st as u64).unwrap();
        let (f1, f2, f3, f4): (bool, bool, bool, bool) = kani::any();
        c.features = Features { self_address: feat(f1), broadcast: feat(f2), unsolicited: feat(f3), respond_to_any_master: feat(f4) };
        let retries: Option<usize> = if kani::any() { Some(kani::any()) } else { None };
        c.max_unsolicited_retries = retries;
        let rd: u32 = kani::any();
        c.unsolicited_retry_delay = std::time::Duration::from_millis(rd as u64);
        let ka: Option<std::time::Duration> = if kani::any() { Some(std::time::Duration::from_secs(kani::any::<u16>() as u64)) } else { None };
        c.keep_alive_timeout = ka;
        let mc: Option<u16> = if kani::any() { Some(kani::any()) } else { None };
        c.max_controls_per_request = mc;
        let mh: Option<u16> = if kani::any() { Some(kani::any()) } else { None };
        c.max_read_request_headers = mh;
        let sc = SessionConfig::from(c);
        let sp = SessionParameters::from(c);
        assert!(std::time::Duration::from(sc.confirm_timeout) == std::time::Duration::from_millis(ct as u64));
        assert!(std::time::Duration::from(sc.select_timeout) == std::time::Duration::from_millis(st as u64));
        assert!(sc.broadcast == feat(f2) && sc.unsolicited == feat(f3) && sc.respond_to_any_master == feat(f4));
        assert!(sc.max_unsolicited_retries == retries);
        assert!(sc.unsolicited_retry_delay == std::time::Duration::from_millis(rd as u64));
        assert!(sc.keep_alive_timeout == ka);
        assert!(sc.max_controls_per_request == mc);
        assert!(sp.sol_tx_buffer_size.value() == sol && sp.unsol_tx_buffer_size.value() == unsol);
        assert!(sp.max_read_headers_per_request == match mh { Some(x) => x, None => 64 });
        kani::cover!(ct != st && sol != rx && unsol != sol);
    }
