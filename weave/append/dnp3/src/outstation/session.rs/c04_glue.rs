    use crate::outstation::session::verif_kani_session as vs;
    use crate::outstation::control::collection::verif_kani_c04_glue_helpers as ch;
    use crate::app::parse::parser::verif_kani_helpers as ph;
    use crate::util::phys::verif_kani_io as io;
    use crate::util::verif_kani_clock as clk;
    use crate::outstation::database::{ClassZeroConfig, EventBufferConfig};

    // @harness ids=C04,C01 tier=quick kind=proof stubs=1 units=outstation::session::OutstationSession::handle_select timeout=900 note="SELECT: the select state is recorded IFF every object was selected successfully (result Ok(SUCCESS)), and then with exactly this request's sequence number, fragment id, the current instant and the digest of its objects; any other outcome records nothing new; the controls are evaluated exactly once; response is FIR FIN, request's sequence, no CON/UNS"
    #[kani::proof]
    #[kani::unwind(4)]
    #[kani::stub(ControlCollection::hash, ControlCollection::stub_hash)]
    #[kani::stub(ControlCollection::select_with_response, ControlCollection::stub_select_with_response)]
    #[kani::stub(tokio::time::Instant::now, crate::util::verif_kani_clock::stub_now)]
    fn vk_c04_handle_select() {
        let mut s = vs::make_session();
        let mut db = DatabaseHandle::new(None, ClassZeroConfig::default(), EventBufferConfig::no_events());
        let raw: [u8; 4] = kani::any();
        let controls = ch::mk_control_collection(ph::mk_header_collection(FunctionCode::Select, &raw));
        let seq = Sequence::new(kani::any());
        let frame_id: u32 = kani::any();
        let (_now, ns, nn) = clk::any_instant();
        clk::set_now(ns, nn);
        let choice: (u8, u8) = kani::any();
        kani::assume(choice.0 <= 1);
        let h: u64 = kani::any();
        unsafe { ch::RESULT_CHOICE = choice; ch::HASH_RET = h; ch::SELECT_CALLS = 0; }
        let had: bool = kani::any();
        let (old_t, _, _) = clk::any_instant();
        let old = SelectState::new(Sequence::new(kani::any()), kani::any(), old_t, kani::any());
        s.state.select = if had { Some(old) } else { None };
        let r = io::run(s.handle_select(&mut db, seq, frame_id, controls));
        assert!(unsafe { ch::SELECT_CALLS } == 1);
        let success = choice.0 == 0 && choice.1 == 0;
        match r {
            None => assert!(false),
            Some(resp) => {
                assert!(resp.header.control.seq == seq && resp.header.control.fir && resp.header.control.fin && !resp.header.control.con && !resp.header.control.uns);
            }
        }
        match s.state.select {
            None => assert!(!success && !had),
            Some(st) => {
                if success {
                    assert!(st.match_operate(Timeout::from_secs(5).unwrap(), Sequence::new(seq.next()), frame_id.wrapping_add(1), h).is_ok());
                    assert!(st.match_operate(Timeout::from_secs(5).unwrap(), Sequence::new(seq.next()), frame_id.wrapping_add(1), h.wrapping_add(1)).is_err());
                } else {
                    assert!(had);
                    assert!(crate::outstation::control::select::verif_kani_c04_glue_sel::same_select(&st, &old));
                }
            }
        }
        kani::cover!(success);
        kani::cover!(choice.0 == 0 && choice.1 != 0 && had);
        kani::cover!(choice.0 == 1);
        std::mem::forget(s); std::mem::forget(db);
    }

    // @harness ids=C04,C01 tier=quick kind=proof stubs=1 units=outstation::session::OutstationSession::handle_operate timeout=900 note="OPERATE: the controls are actuated (operate_with_response, select-before-operate mode, exactly once) IFF a select record exists and match_operate accepts this request (next sequence number, next fragment, same object digest, within the select timeout); otherwise nothing is actuated and every object is answered with a non-success status (NO_SELECT when nothing was selected)"
    #[kani::proof]
    #[kani::unwind(4)]
    #[kani::stub(ControlCollection::hash, ControlCollection::stub_hash)]
    #[kani::stub(ControlCollection::operate_with_response, ControlCollection::stub_operate_with_response)]
    #[kani::stub(ControlCollection::respond_with_status, ControlCollection::stub_respond_with_status)]
    #[kani::stub(tokio::time::Instant::now, crate::util::verif_kani_clock::stub_now)]
    fn vk_c04_handle_operate() {
        let mut s = vs::make_session();
        let mut db = DatabaseHandle::new(None, ClassZeroConfig::default(), EventBufferConfig::no_events());
        let raw: [u8; 4] = kani::any();
        let controls = ch::mk_control_collection(ph::mk_header_collection(FunctionCode::Operate, &raw));
        let seq = Sequence::new(kani::any());
        let frame_id: u32 = kani::any();
        let (_now, ns, nn) = clk::any_instant();
        clk::set_now(ns, nn);
        let code: u8 = kani::any();
        let h: u64 = kani::any();
        unsafe { ch::RESULT_CHOICE = (0, code); ch::HASH_RET = h; ch::OPERATE_CALLS = 0; ch::STATUS_CALLS = 0; }
        let had: bool = kani::any();
        let (sel_t, ss, sn) = clk::any_instant();
        let sel_seq = Sequence::new(kani::any());
        let sel_frame: u32 = kani::any();
        let sel_hash: u64 = kani::any();
        s.state.select = if had { Some(SelectState::new(sel_seq, sel_frame, sel_t, sel_hash)) } else { None };
        let r = io::run(s.handle_operate(&mut db, seq, frame_id, controls));
        assert!(r.is_some());
        // the property's predicate, written out (select timeout of the harness session is 5 s)
        let elapsed = clk::diff((ss, sn), (ns, nn));
        let fresh = match elapsed { Some((ds, dn)) => ds < 5 || (ds == 5 && dn == 0), None => false };
        let matches = had && seq.value() == sel_seq.next() && frame_id == sel_frame.wrapping_add(1) && h == sel_hash && fresh;
        let operated = unsafe { ch::OPERATE_CALLS };
        let refused = unsafe { ch::STATUS_CALLS };
        if matches {
            assert!(operated == 1 && refused == 0 && unsafe { ch::OPERATE_TYPE_SBO });
        } else {
            assert!(operated == 0 && refused == 1);
            assert!(unsafe { ch::STATUS_ARG } != 0);
            if !had { assert!(unsafe { ch::STATUS_ARG } == CommandStatus::NoSelect.as_u8()); }
        }
        kani::cover!(matches);
        kani::cover!(had && !matches && h == sel_hash && seq.value() == sel_seq.next() && frame_id == sel_frame.wrapping_add(1));
        kani::cover!(!had);
        std::mem::forget(s); std::mem::forget(db);
    }
