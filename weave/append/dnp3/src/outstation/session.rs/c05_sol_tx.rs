    use crate::outstation::session::verif_kani_session as vs;
    use crate::transport::verif_kani_tw as tw;
    use crate::util::phys::verif_kani_io as io;
    use crate::outstation::database::{ClassZeroConfig, EventBufferConfig};
    use crate::util::phys::PhysAddr;

    pub(crate) static mut RET_IIN: (u8, u8) = (0, 0);
    pub(crate) static mut IIN_CALLS: usize = 0;
    impl OutstationSession {
        /// contract stub: ANY indication bits (what they are is the C13 contract of the real get_response_iin)
        pub(crate) fn stub_get_response_iin(&mut self, _database: &DatabaseHandle) -> Iin {
            unsafe { IIN_CALLS += 1; Iin::new(Iin1::new(RET_IIN.0), Iin2::new(RET_IIN.1)) }
        }
    }
    pub(crate) fn any_bcast() -> Option<BroadcastConfirmMode> {
        match kani::any::<u8>() % 4 {
            0 => None,
            1 => Some(BroadcastConfirmMode::Optional),
            2 => Some(BroadcastConfirmMode::Mandatory),
            _ => Some(BroadcastConfirmMode::NotRequired),
        }
    }
    pub(crate) fn any_sol_response() -> Response {
        let h = ResponseHeader::new(
            ControlField::from(kani::any()),
            if kani::any() { ResponseFunction::Response } else { ResponseFunction::UnsolicitedResponse },
            Iin::new(Iin1::new(kani::any()), Iin2::new(kani::any())),
        );
        let size: usize = kani::any();
        kani::assume(size <= 249);
        Response::new(h, size)
    }
    pub(crate) fn fn_byte(f: ResponseFunction) -> u8 { match f { ResponseFunction::Response => 0x81, ResponseFunction::UnsolicitedResponse => 0x82 } }

    /// what must be on the wire for `r`, given the buffer body: header octets of r, then the buffer from offset 4 to r.size
    pub(crate) fn sent_is(r: &Response, dest: u16, probe: usize, probe_val: u8) -> bool {
        unsafe {
            let len = if r.size > 4 { r.size } else { 4 };
            tw::LAST_LEN == len
                && tw::LAST_DEST == dest
                && tw::LAST[0] == r.header.control.to_u8()
                && tw::LAST[1] == fn_byte(r.header.function)
                && tw::LAST[2] == r.header.iin.iin1.value
                && tw::LAST[3] == r.header.iin.iin2.value
                && tw::PROBE == probe && (probe >= len || tw::LAST_PROBE == probe_val)
        }
    }

    // @harness ids=C05,C13,C01 tier=quick kind=proof stubs=1 units=outstation::session::OutstationSession::write_solicited,outstation::session::OutstationSession::repeat_solicited timeout=900 note="a solicited response goes out exactly once, to the requester, as: its own header octets (control with CON forced on only for a pending confirm-mandatory broadcast, function, the response's IIN OR-ed with a FRESH get_response_iin evaluated exactly once) followed by exactly the object octets already formatted in the solicited buffer up to the response size; the value returned (and stored for later echoes) is the response as transmitted; a transport error is reported"
    #[kani::proof]
    #[kani::unwind(4)]
    #[kani::stub(OutstationSession::get_response_iin, OutstationSession::stub_get_response_iin)]
    fn vk_c05_write_solicited() {
        let mut s = vs::make_session();
        let db = DatabaseHandle::new(None, ClassZeroConfig::default(), EventBufferConfig::no_events());
        let mut wsh = tw::WriterShell::new();
        let mut iosh = io::IoShell::new();
        let resp = any_sol_response();
        // one symbolic body octet at a symbolic offset stands for every octet of the formatted objects
        let probe: usize = kani::any();
        kani::assume(probe >= 4 && probe < 249);
        let probe_val: u8 = kani::any();
        { let mut c = s.sol_tx_buffer.write_cursor(); let _ = c.skip(probe); let _ = c.write_u8(probe_val); }
        // stale header octets of an earlier fragment are in the buffer: they must be overwritten
        let stale: [u8; 4] = kani::any();
        { let mut c = s.sol_tx_buffer.write_cursor(); let _ = c.write_u8(stale[0]); let _ = c.write_u8(stale[1]); let _ = c.write_u8(stale[2]); let _ = c.write_u8(stale[3]); }
        let bc = any_bcast();
        s.state.last_broadcast_type = bc;
        let iin: (u8, u8) = kani::any();
        unsafe { RET_IIN = iin; IIN_CALLS = 0; }
        let fail: bool = kani::any();
        tw::arm(fail);
        unsafe { tw::PROBE = probe; }
        let link: u16 = kani::any();
        let to = FragmentAddr { link: EndpointAddress::raw(link), phys: PhysAddr::None };
        let r = io::run(s.write_solicited(iosh.get(), wsh.get(), to, resp, &db));
        assert!(unsafe { tw::CALLS } == 1 && unsafe { IIN_CALLS } == 1);
        let mut expect = resp;
        expect.header.iin = Iin::new(Iin1::new(resp.header.iin.iin1.value | iin.0), Iin2::new(resp.header.iin.iin2.value | iin.1));
        if matches!(bc, Some(BroadcastConfirmMode::Mandatory)) { expect.header.control.con = true; }
        assert!(sent_is(&expect, link, probe, probe_val));
        match r {
            None => assert!(false),
            Some(Err(_)) => assert!(fail),
            Some(Ok(out)) => { assert!(!fail); assert!(out.header == expect.header && out.size == resp.size); }
        }
        kani::cover!(fail);
        kani::cover!(!fail && resp.size == 249 && probe == 248);
        kani::cover!(!fail && resp.size < 4);
        std::mem::forget(s); std::mem::forget(db);
    }

    // @harness ids=C05,C01 tier=quick kind=proof stubs=1 units=outstation::session::OutstationSession::repeat_solicited timeout=900 note="an echo re-sends exactly the stored response: its stored header octets (NOT whatever header is in the buffer now) followed by the buffer body up to the stored size, to the requester, once; no indication bits are recomputed"
    #[kani::proof]
    #[kani::unwind(4)]
    #[kani::stub(OutstationSession::get_response_iin, OutstationSession::stub_get_response_iin)]
    fn vk_c05_repeat_solicited() {
        let mut s = vs::make_session();
        let mut wsh = tw::WriterShell::new();
        let mut iosh = io::IoShell::new();
        let resp = any_sol_response();
        let probe: usize = kani::any();
        kani::assume(probe >= 4 && probe < 249);
        let probe_val: u8 = kani::any();
        { let mut c = s.sol_tx_buffer.write_cursor(); let _ = c.skip(probe); let _ = c.write_u8(probe_val); }
        let stale: [u8; 4] = kani::any();
        { let mut c = s.sol_tx_buffer.write_cursor(); let _ = c.write_u8(stale[0]); let _ = c.write_u8(stale[1]); let _ = c.write_u8(stale[2]); let _ = c.write_u8(stale[3]); }
        let bc = any_bcast();
        s.state.last_broadcast_type = bc;
        unsafe { IIN_CALLS = 0; }
        let fail: bool = kani::any();
        tw::arm(fail);
        unsafe { tw::PROBE = probe; }
        let link: u16 = kani::any();
        let to = FragmentAddr { link: EndpointAddress::raw(link), phys: PhysAddr::None };
        let r = io::run(s.repeat_solicited(iosh.get(), to, wsh.get(), resp));
        assert!(unsafe { tw::CALLS } == 1 && unsafe { IIN_CALLS } == 0);
        assert!(sent_is(&resp, link, probe, probe_val));
        assert!(s.state.last_broadcast_type == bc);
        match r { None => assert!(false), Some(Err(_)) => assert!(fail), Some(Ok(())) => assert!(!fail) }
        kani::cover!(!fail && resp.size == 249);
        std::mem::forget(s);
    }
