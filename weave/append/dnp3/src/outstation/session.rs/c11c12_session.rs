    use crate::verif_spec as spec;
    use crate::app::parse::parser::verif_kani_helpers as ph;
    use crate::outstation::database::{ClassZeroConfig, EventBufferConfig};
    use crate::outstation::session::verif_kani_session::make_session;
    use scursor::WriteCursor;

    // @harness ids=C11,C01 tier=quick kind=proof units=outstation::database::ResponseInfo::need_confirm,outstation::session::ResponseInfo::get_response_series timeout=120 note="a fragment asks for confirmation IFF it carries events or is not the last one; a series record (expected confirm sequence = fragment sequence, fin = complete) exists IFF confirmation is requested"
    #[kani::proof]
    fn vk_c11_need_confirm_and_series() {
        let (has_events, complete): (bool, bool) = (kani::any(), kani::any());
        let info = ResponseInfo { has_events, complete };
        assert!(info.need_confirm() == (has_events || !complete));
        let seq = Sequence::new(kani::any());
        match info.get_response_series(seq) {
            None => {
                // no confirmation awaited: only a final, event-free fragment
                assert!(complete && !has_events);
            }
            Some(s) => {
                assert!(has_events || !complete);
                assert!(s.ecsn == seq);
                assert!(s.fin == complete);
                kani::cover!(!s.fin);
                kani::cover!(s.fin && has_events);
            }
        }
        assert!(info.has_events == has_events && info.complete == complete);
    }

    // ---------------------------------------------------------------- database contract stubs (ghost-logged)
    pub(crate) static mut WR_CALLS: usize = 0;
    pub(crate) static mut WR_START: usize = 0;
    pub(crate) static mut WR_ADV: usize = 0;
    pub(crate) static mut WR_INFO: (bool, bool) = (false, false);
    pub(crate) static mut WU_COUNT: usize = 0;
    pub(crate) static mut WU_CLASSES: (bool, bool, bool) = (false, false, false);

    impl DatabaseHandle {
        /// contract stub: the database writes only through the cursor it is given (so at most `remaining` bytes) and
        /// reports any (has_events, complete); what it writes is the subject of the C10/C11 database harnesses
        pub(crate) fn stub_write_response_headers(&mut self, cursor: &mut WriteCursor) -> ResponseInfo {
            unsafe {
                WR_CALLS += 1;
                WR_START = cursor.position();
                let _ = cursor.skip(WR_ADV);
                ResponseInfo { has_events: WR_INFO.0, complete: WR_INFO.1 }
            }
        }
        /// contract stub: writes only through the cursor, returns any event count
        pub(crate) fn stub_write_unsolicited(&mut self, classes: EventClasses, cursor: &mut WriteCursor) -> usize {
            unsafe {
                WR_CALLS += 1;
                WR_START = cursor.position();
                WU_CLASSES = (classes.class1, classes.class2, classes.class3);
                let _ = cursor.skip(WR_ADV);
                WU_COUNT
            }
        }
    }

    // @harness ids=C11,C12,C01 tier=quick kind=proof stubs=1 units=outstation::session::OutstationSession::format_read_response timeout=300 note="every READ response fragment (real session, database by contract): function RESPONSE, UNS clear, the given sequence number, FIR as given, FIN iff database reports complete, CON iff events or not complete; IIN2 of the selection carried into the header unchanged; size = 4 header bytes + what the database wrote, never above the transmit buffer (249); series record iff confirmation requested"
    #[kani::proof]
    #[kani::stub(DatabaseHandle::write_response_headers, DatabaseHandle::stub_write_response_headers)]
    fn vk_c11_format_read_response() {
        let mut s = make_session();
        let mut db = DatabaseHandle::new(None, ClassZeroConfig::default(), EventBufferConfig::no_events());
        let fir: bool = kani::any();
        let seq = Sequence::new(kani::any());
        let iin2v: u8 = kani::any();
        let adv: usize = kani::any();
        let info: (bool, bool) = kani::any();
        unsafe { WR_CALLS = 0; WR_ADV = adv; WR_INFO = info; }
        let (rsp, series) = s.format_read_response(&mut db, fir, seq, Iin2::new(iin2v));
        let (has_events, complete) = info;
        let c = rsp.header.control;
        assert!(!c.uns);
        assert!(c.seq == seq && rsp.seq() == seq);
        assert!(c.fir == fir);
        assert!(c.fin == complete);
        assert!(c.con == (has_events || !complete));
        assert!(rsp.header.function == ResponseFunction::Response);
        assert!(rsp.header.iin.iin1.value == 0 && rsp.header.iin.iin2.value == iin2v);
        assert!(rsp.header.iin.has_bad_request_error() == spec::iin2_is_rejection(iin2v));
        // the database got the buffer behind the 4 header bytes, once
        assert!(unsafe { WR_CALLS } == 1 && unsafe { WR_START } == ResponseHeader::LENGTH);
        assert!(rsp.size >= ResponseHeader::LENGTH && rsp.size <= 249);
        if adv <= 245 { assert!(rsp.size == 4 + adv); } else { assert!(rsp.size == 4); }
        assert!(s.sol_tx_buffer.get(rsp.size).is_some());
        match series {
            None => assert!(!c.con),
            Some(x) => assert!(c.con && x.ecsn == seq && x.fin == c.fin),
        }
        kani::cover!(fir && !c.fin && c.con && rsp.size == 249);
        kani::cover!(!fir && c.fin && !c.con && series.is_none());
        kani::cover!(c.fin && c.con);
        std::mem::forget(s);
        std::mem::forget(db);
    }

    // @harness ids=C12,C01 tier=quick kind=proof stubs=1 units=outstation::session::OutstationSession::write_unsolicited_data timeout=300 note="unsolicited data fragment (real session, database by contract): nothing is produced and no sequence number consumed when no event was written; otherwise function UNSOLICITED_RESPONSE with UNS, FIR, FIN, CON, the session's own unsolicited sequence number which then advances by one modulo 16; enabled classes passed through; size <= unsolicited transmit buffer (249)"
    #[kani::proof]
    #[kani::stub(DatabaseHandle::write_unsolicited, DatabaseHandle::stub_write_unsolicited)]
    fn vk_c12_write_unsolicited_data() {
        let mut s = make_session();
        let mut db = DatabaseHandle::new(None, ClassZeroConfig::default(), EventBufferConfig::no_events());
        let useq: u8 = kani::any();
        let sseq: u8 = kani::any();
        s.state.unsolicited_seq = Sequence::new(useq);
        let classes: (bool, bool, bool) = kani::any();
        s.state.enabled_unsolicited_classes = EventClasses::new(classes.0, classes.1, classes.2);
        let adv: usize = kani::any();
        let count: usize = kani::any();
        unsafe { WR_CALLS = 0; WR_ADV = adv; WU_COUNT = count; }
        let r = s.write_unsolicited_data(&mut db);
        assert!(unsafe { WR_CALLS } == 1 && unsafe { WR_START } == ResponseHeader::LENGTH);
        assert!(unsafe { WU_CLASSES } == classes);
        match r {
            None => {
                assert!(count == 0);
                assert!(s.state.unsolicited_seq.value() == useq & 0x0F);
            }
            Some(rsp) => {
                assert!(count != 0);
                let c = rsp.header.control;
                assert!(c.uns && c.fir && c.fin && c.con);
                assert!(c.seq.value() == useq & 0x0F);
                assert!(s.state.unsolicited_seq.value() == spec::app_seq_next(useq));
                assert!(rsp.header.function == ResponseFunction::UnsolicitedResponse);
                assert!(rsp.header.iin == Iin::default());
                assert!(rsp.size >= 4 && rsp.size <= 249);
                assert!(s.unsol_tx_buffer.get(rsp.size).is_some());
                kani::cover!(useq & 0x0F == 15 && rsp.size == 249);
            }
        }
        let _ = sseq;
        kani::cover!(r.is_none());
        std::mem::forget(s);
        std::mem::forget(db);
    }

    fn get_iin2_contract<const N: usize>() -> (u8, u8) {
        let f: u8 = kani::any();
        let function = match FunctionCode::from(f) { Some(x) => x, None => FunctionCode::Confirm };
        let code = function.as_u8();
        let bytes: [u8; N] = kani::any();
        let hc = ph::mk_header_collection(function, &bytes);
        let iin2 = OutstationSession::get_iin2(function, hc);
        // object headers in a request whose function code does not define any: PARAMETER_ERROR, and only then
        let expect: u8 = if !spec::function_allows_objects(code) && N > 0 { 0x04 } else { 0 };
        assert!(iin2.value == expect);
        (code, iin2.value)
    }

    // @harness ids=C12,C01 tier=quick kind=proof units=outstation::session::OutstationSession::get_iin2 timeout=120 note="all function codes x (no object bytes | 3 arbitrary object bytes): PARAMETER_ERROR is reported IFF the function code does not allow objects and the request carries some; no other bit"
    #[kani::proof]
    fn vk_c12_get_iin2() {
        let with: bool = kani::any();
        let (code, v) = if with { get_iin2_contract::<3>() } else { get_iin2_contract::<0>() };
        kani::cover!(with && code == 13 && v == 0x04);
        kani::cover!(with && code == 2 && v == 0);
        kani::cover!(!with && code == 24 && v == 0);
        kani::cover!(with && code == 0);
    }
