    use crate::app::parse::parser::verif_kani_helpers as ph;
    use crate::app::parse::parser::Request;
    use crate::app::{BufferSize, Timestamp};
    use crate::outstation::database::{ClassZeroConfig, EventBufferConfig};
    use crate::util::phys::PhysAddr;

    // ---------------------------------------------------------------- harness-side application objects (ghost logs)
    pub(crate) static mut APP_IIN: (bool, bool, bool, bool) = (false, false, false, false);
    pub(crate) static mut APP_WRITE_TIME_CALLS: usize = 0;
    pub(crate) static mut APP_WRITE_TIME_ARG: u64 = 0;
    pub(crate) static mut APP_WRITE_TIME_RESULT: u8 = 0;
    pub(crate) static mut INFO_CLEAR_RESTART: usize = 0;
    pub(crate) static mut APP_DELAY_MS: u16 = 0;

    pub(crate) struct VApp;
    impl OutstationApplication for VApp {
        fn get_processing_delay_ms(&self) -> u16 { unsafe { APP_DELAY_MS } }
        fn get_application_iin(&self) -> ApplicationIin {
            let (a, b, c, d) = unsafe { APP_IIN };
            ApplicationIin { need_time: a, local_control: b, device_trouble: c, config_corrupt: d }
        }
        fn write_absolute_time(&mut self, time: Timestamp) -> Result<(), RequestError> {
            unsafe {
                APP_WRITE_TIME_CALLS += 1;
                APP_WRITE_TIME_ARG = time.raw_value();
                match APP_WRITE_TIME_RESULT { 0 => Ok(()), 1 => Err(RequestError::ParameterError), _ => Err(RequestError::NotSupported) }
            }
        }
    }
    pub(crate) struct VInfo;
    impl OutstationInformation for VInfo {
        fn clear_restart_iin(&mut self) { unsafe { INFO_CLEAR_RESTART += 1; } }
    }

    fn any_feature() -> Feature { if kani::any() { Feature::Enabled } else { Feature::Disabled } }

    /// A REAL session built by the real constructor; configuration features symbolic. Callers must mem::forget it.
    pub(crate) fn make_session() -> OutstationSession {
        let (tx, rx) = crate::util::channel::request_channel::<OutstationMessage>();
        std::mem::forget(tx);
        let link: u16 = kani::any();
        kani::assume(link < 0xFFF0);
        let config = SessionConfig {
            decode_level: DecodeLevel::nothing(),
            confirm_timeout: Timeout::from_secs(5).unwrap(),
            select_timeout: Timeout::from_secs(5).unwrap(),
            broadcast: any_feature(),
            unsolicited: any_feature(),
            respond_to_any_master: any_feature(),
            max_unsolicited_retries: None,
            unsolicited_retry_delay: std::time::Duration::from_secs(1),
            keep_alive_timeout: None,
            max_controls_per_request: None,
        };
        let param = SessionParameters {
            max_read_headers_per_request: 4,
            sol_tx_buffer_size: BufferSize::min(),
            unsol_tx_buffer_size: BufferSize::min(),
        };
        OutstationSession::new(
            Enabled::Yes,
            rx,
            FragmentAddr { link: EndpointAddress::raw(link), phys: PhysAddr::None },
            config,
            param,
            Box::new(VApp),
            Box::new(VInfo),
            crate::outstation::DefaultControlHandler::create(),
        )
    }

    fn any_bcast() -> Option<BroadcastConfirmMode> {
        match kani::any::<u8>() % 4 {
            0 => None,
            1 => Some(BroadcastConfirmMode::Optional),
            2 => Some(BroadcastConfirmMode::Mandatory),
            _ => Some(BroadcastConfirmMode::NotRequired),
        }
    }

    fn any_response() -> Option<Response> {
        if kani::any() {
            let h = ResponseHeader::new(
                ControlField::from(kani::any()),
                if kani::any() { ResponseFunction::Response } else { ResponseFunction::UnsolicitedResponse },
                Iin::new(Iin1::new(kani::any()), Iin2::new(kani::any())),
            );
            Some(Response::new(h, kani::any()))
        } else {
            None
        }
    }
    fn same_response(a: &Option<Response>, b: &Option<Response>) -> bool {
        match (a, b) {
            (None, None) => true,
            (Some(x), Some(y)) => x.header == y.header && x.size == y.size,
            _ => false,
        }
    }

    // ---------------------------------------------------------------- C13: get_response_iin
    pub(crate) static mut EV_INFO: (bool, bool, bool, bool) = (false, false, false, false);
    impl DatabaseHandle {
        /// contract stub: any EventsInfo (its truth is the C03 contract of EventBuffer::unwritten_classes / is_overflown)
        pub(crate) fn stub_get_events_info(&self) -> crate::outstation::database::EventsInfo {
            let (c1, c2, c3, of) = unsafe { EV_INFO };
            crate::outstation::database::EventsInfo {
                unwritten_classes: EventClasses::new(c1, c2, c3),
                is_overflown: of,
            }
        }
    }

    // @harness ids=C13,C01 tier=quick kind=proof stubs=1 units=outstation::session::OutstationSession::get_response_iin timeout=300 note="every IIN bit is exactly the stated function of session state, buffer info and application answer; no other bit set; pending broadcast cleared unless confirm-mandatory; nothing else in the session state changes"
    #[kani::proof]
    #[kani::stub(DatabaseHandle::get_events_info, DatabaseHandle::stub_get_events_info)]
    fn vk_c13_get_response_iin() {
        let mut s = make_session();
        let db = DatabaseHandle::new(None, ClassZeroConfig::default(), EventBufferConfig::no_events());
        let restart: bool = kani::any();
        let bcast = any_bcast();
        s.state.restart_iin_asserted = restart;
        s.state.last_broadcast_type = bcast;
        let ev: (bool, bool, bool, bool) = kani::any();
        let app: (bool, bool, bool, bool) = kani::any();
        unsafe { EV_INFO = ev; APP_IIN = app; }
        let iin = s.get_response_iin(&db);
        let mut e1: u8 = 0;
        let mut e2: u8 = 0;
        if bcast.is_some() { e1 |= 0x01; }
        if ev.0 { e1 |= 0x02; }
        if ev.1 { e1 |= 0x04; }
        if ev.2 { e1 |= 0x08; }
        if app.0 { e1 |= 0x10; }
        if app.1 { e1 |= 0x20; }
        if app.2 { e1 |= 0x40; }
        if restart { e1 |= 0x80; }
        if ev.3 { e2 |= 0x08; }
        if app.3 { e2 |= 0x20; }
        assert!(iin.iin1.value == e1);
        assert!(iin.iin2.value == e2);
        // restart bit is not consumed by reporting it; broadcast bit is, unless confirmation is mandatory
        assert!(s.state.restart_iin_asserted == restart);
        match bcast {
            Some(BroadcastConfirmMode::Mandatory) => assert!(s.state.last_broadcast_type == Some(BroadcastConfirmMode::Mandatory)),
            _ => assert!(s.state.last_broadcast_type.is_none()),
        }
        kani::cover!(e1 == 0xFF && e2 == 0x28);
        kani::cover!(e1 == 0 && e2 == 0);
        std::mem::forget(s);
        std::mem::forget(db);
    }

    // @harness ids=C13,C01 tier=quick kind=proof units=outstation::session::SessionState::new,outstation::session::SessionState::reset timeout=300 note="restart indication asserted from start-up and NOT cleared by the per-connection reset; reset drops select state and last request only"
    #[kani::proof]
    fn vk_c13_state_new_and_reset() {
        let mut st = SessionState::new(4);
        assert!(st.restart_iin_asserted);
        assert!(st.select.is_none() && st.last_valid_request.is_none() && st.last_broadcast_type.is_none());
        st.restart_iin_asserted = kani::any();
        let before = st.restart_iin_asserted;
        let b = any_bcast();
        st.last_broadcast_type = b;
        st.last_valid_request = Some(LastValidRequest::new(Sequence::new(kani::any()), kani::any(), any_response(), None));
        st.reset();
        assert!(st.restart_iin_asserted == before);
        assert!(st.last_broadcast_type == b);
        assert!(st.select.is_none() && st.last_valid_request.is_none());
        kani::cover!(before);
        std::mem::forget(st);
    }

    // ---------------------------------------------------------------- C05: classify
    pub(crate) static mut XXH_CALLS: usize = 0;
    pub(crate) static mut XXH_ARG: (*const u8, usize, u64) = (core::ptr::null(), 0, 0);
    pub(crate) static mut XXH_RET: u64 = 0;
    /// contract stub for xxh64: some u64 (collision-freedom is the stated assumption); logs its argument
    pub(crate) fn stub_xxh64(input: &[u8], seed: u64) -> u64 {
        unsafe {
            XXH_CALLS += 1;
            XXH_ARG = (input.as_ptr(), input.len(), seed);
            XXH_RET
        }
    }

    fn any_function() -> FunctionCode {
        let f: u8 = kani::any();
        match FunctionCode::from(f) { Some(x) => x, None => FunctionCode::Read }
    }

    // @harness ids=C05,C07,C04,C12,C01 tier=quick kind=proof stubs=1 units=outstation::session::OutstationSession::classify timeout=600 note="CONFIRM first; broadcast before hashing; malformed carries the error; Repeat* IFF same sequence number AND same hash as the last valid request, carrying the stored response unchanged; READ-ness decides Read/NonRead; hash is taken over exactly the raw fragment"
    #[kani::proof]
    #[kani::stub(xxhash_rust::xxh64::xxh64, stub_xxh64)]
    fn vk_c05_classify() {
        let mut s = make_session();
        let raw: [u8; 6] = kani::any();
        let function = any_function();
        let control = ControlField::from(kani::any());
        let header = RequestHeader::new(control, function);
        let malformed: bool = kani::any();
        let objects = if malformed { Err(ObjectParseError::InsufficientBytes) } else { Ok(ph::mk_header_collection(function, &raw[2..])) };
        let request = Request { header, raw_fragment: &raw, objects };
        let bcast = any_bcast();
        let info = FragmentInfo { id: kani::any(), addr: FragmentAddr { link: EndpointAddress::raw(1), phys: PhysAddr::None }, broadcast: bcast };
        let has_last: bool = kani::any();
        let last_seq = Sequence::new(kani::any());
        let last_hash: u64 = kani::any();
        let last_resp = any_response();
        s.state.last_valid_request = if has_last { Some(LastValidRequest::new(last_seq, last_hash, last_resp, None)) } else { None };
        let h: u64 = kani::any();
        unsafe { XXH_CALLS = 0; XXH_RET = h; }
        let r = s.classify(info, request);
        let calls = unsafe { XXH_CALLS };
        let is_repeat = has_last && last_seq == control.seq && last_hash == h;
        match r {
            FragmentType::SolicitedConfirm(q) => assert!(function == FunctionCode::Confirm && !control.uns && q == control.seq),
            FragmentType::UnsolicitedConfirm(q) => assert!(function == FunctionCode::Confirm && control.uns && q == control.seq),
            FragmentType::Broadcast(m) => assert!(function != FunctionCode::Confirm && bcast == Some(m) && calls == 0),
            FragmentType::MalformedRequest(hh, _) => assert!(function != FunctionCode::Confirm && bcast.is_none() && malformed && hh == h),
            FragmentType::RepeatRead(hh, resp, oh) => {
                assert!(function == FunctionCode::Read && bcast.is_none() && !malformed && is_repeat && hh == h);
                assert!(same_response(&resp, &last_resp));
                assert!(ph::hc_data(&oh).as_ptr() == raw[2..].as_ptr() && ph::hc_data(&oh).len() == 4);
                kani::cover!(true);
            }
            FragmentType::RepeatNonRead(hh, resp) => {
                assert!(function != FunctionCode::Read && function != FunctionCode::Confirm && bcast.is_none() && !malformed && is_repeat && hh == h);
                assert!(same_response(&resp, &last_resp));
                kani::cover!(resp.is_some());
            }
            FragmentType::NewRead(hh, oh) => {
                assert!(function == FunctionCode::Read && bcast.is_none() && !malformed && !is_repeat && hh == h);
                assert!(ph::hc_data(&oh).as_ptr() == raw[2..].as_ptr() && ph::hc_data(&oh).len() == 4);
                kani::cover!(has_last && last_seq == control.seq);
            }
            FragmentType::NewNonRead(hh, oh) => {
                assert!(function != FunctionCode::Read && function != FunctionCode::Confirm && bcast.is_none() && !malformed && !is_repeat && hh == h);
                assert!(ph::hc_data(&oh).as_ptr() == raw[2..].as_ptr() && ph::hc_data(&oh).len() == 4);
                kani::cover!(has_last && last_hash == h);
            }
        }
        if function != FunctionCode::Confirm && bcast.is_none() {
            // the digest is taken over exactly the received fragment, seed 0, once
            assert!(calls == 1);
            let (p, l, seed) = unsafe { XXH_ARG };
            assert!(p == raw.as_ptr() && l == 6 && seed == 0);
        }
        // classification does not change the stored request
        match s.state.last_valid_request {
            None => assert!(!has_last),
            Some(l) => assert!(has_last && l.seq == last_seq && l.request_hash == last_hash && same_response(&l.response, &last_resp)),
        }
        std::mem::forget(s);
    }

    // @harness ids=C05,C12,C01 tier=quick kind=proof units=outstation::session::LastValidRequest::new,outstation::session::Response::empty_solicited,outstation::session::Response::new timeout=120 note="stored request record keeps exactly what it is given; empty solicited response: FIR FIN, no CON, no UNS, request's sequence number, size 0"
    #[kani::proof]
    fn vk_c05_last_valid_request_and_empty_response() {
        let seq = Sequence::new(kani::any());
        let hash: u64 = kani::any();
        let resp = any_response();
        let l = LastValidRequest::new(seq, hash, resp, None);
        assert!(l.seq == seq && l.request_hash == hash && same_response(&l.response, &resp) && l.series.is_none());
        let iin = Iin::new(Iin1::new(kani::any()), Iin2::new(kani::any()));
        let r = Response::empty_solicited(seq, iin);
        assert!(r.size == 0 && r.header.iin == iin && r.header.function == ResponseFunction::Response);
        assert!(r.header.control.fir && r.header.control.fin && !r.header.control.con && !r.header.control.uns);
        assert!(r.header.control.seq == seq && r.seq() == seq);
        kani::cover!(resp.is_some());
    }

    // ---------------------------------------------------------------- C07: address filter
    // @harness ids=C07,C01 tier=quick kind=proof units=outstation::session::OutstationSession::required_master_address,outstation::session::OutstationSession::change_master_address timeout=300 note="a master address is required exactly when respond-to-any-master is disabled, and it is the configured one"
    #[kani::proof]
    fn vk_c07_required_master_address() {
        let mut s = make_session();
        let any = s.config.respond_to_any_master;
        let link = s.destination.link;
        match s.required_master_address() {
            None => assert!(any == Feature::Enabled),
            Some(a) => assert!(any == Feature::Disabled && a == link),
        }
        let n: u16 = kani::any();
        kani::assume(n < 0xFFF0);
        s.change_master_address(EndpointAddress::raw(n));
        match s.required_master_address() {
            None => assert!(any == Feature::Enabled),
            Some(a) => assert!(a.raw_value() == n),
        }
        kani::cover!(any == Feature::Disabled);
        kani::cover!(any == Feature::Enabled);
        std::mem::forget(s);
    }

    // ---------------------------------------------------------------- C12: IIN2 mapping
    // @harness ids=C12,C01 tier=quick kind=proof units=outstation::session::impl_From_ObjectParseError_for_Iin2 timeout=120 note="every object parse error maps to at least one of the three IIN2 rejection bits and to nothing else"
    #[kani::proof]
    fn vk_c12_iin2_from_parse_error() {
        let k: u8 = kani::any();
        let q = crate::app::QualifierCode::Range8;
        let v = crate::app::variations::Variation::Group1Var2;
        let e = match k % 10 {
            0 => ObjectParseError::InsufficientBytes,
            1 => ObjectParseError::InvalidQualifierForVariation(v, q),
            2 => ObjectParseError::InvalidRange(kani::any(), kani::any()),
            3 => ObjectParseError::UnknownGroupVariation(kani::any(), kani::any()),
            4 => ObjectParseError::UnsupportedQualifierCode(q),
            5 => ObjectParseError::UnknownQualifier(kani::any()),
            6 => ObjectParseError::ZeroLengthOctetData,
            7 => ObjectParseError::BadEncoding,
            8 => ObjectParseError::UnsupportedFreeFormatCount(kani::any()),
            _ => ObjectParseError::BadAttribute(crate::app::attr::AttrParseError::ReadError),
        };
        let iin2: Iin2 = e.into();
        assert!(iin2.value & 0x07 != 0);
        assert!(iin2.value & !0x07 == 0);
        let iin = Iin::default() | iin2;
        assert!(iin.has_bad_request_error());
        kani::cover!(k % 10 == 3);
    }

    // ---------------------------------------------------------------- C13: writing the restart bit
    use crate::app::parse::range::Range;
    use crate::util::verif_kani_clock as clk;

    fn write_iin_contract<const COUNT: u16>() {
        let mut s = make_session();
        let bytes: [u8; 2] = kani::any();
        let start: u16 = kani::any();
        kani::assume(start <= 20);
        let range = Range::from(start, start + COUNT - 1).unwrap();
        let mut cur = scursor::ReadCursor::new(&bytes);
        let bits = BitSequence::parse(range, &mut cur).unwrap();
        let restart: bool = kani::any();
        s.state.restart_iin_asserted = restart;
        let bcast = any_bcast();
        s.state.last_broadcast_type = bcast;
        unsafe { INFO_CLEAR_RESTART = 0; }
        let iin2 = s.handle_write_iin(bits);
        // what was written: bit k of the sequence has index start+k and value = bit k of the bytes (LSB first)
        let mut clears = 0usize;
        let mut bad = false;
        let mut k: u16 = 0;
        while k < COUNT {
            let v = (bytes[(k / 8) as usize] >> (k % 8)) & 1 == 1;
            if start + k == 7 && !v { clears += 1; } else { bad = true; }
            k += 1;
        }
        // the restart indication is cleared IFF the master wrote index 7 to zero
        assert!(s.state.restart_iin_asserted == (restart && clears == 0));
        assert!(unsafe { INFO_CLEAR_RESTART } == clears);
        // anything else is rejected with PARAMETER_ERROR and only that
        assert!(iin2.value == if bad { 0x04 } else { 0 });
        assert!(s.state.last_broadcast_type == bcast);
        kani::cover!(clears == 1);
        kani::cover!(clears == 0 && bad);
        std::mem::forget(s);
    }

    // @harness ids=C13,C01 tier=quick kind=proof units=outstation::session::OutstationSession::handle_write_iin timeout=300 note="one bit written at any index 0..=20: restart cleared iff index 7 written 0; else PARAMETER_ERROR"
    #[kani::proof]
    #[kani::unwind(4)]
    fn vk_c13_write_iin_count1() { write_iin_contract::<1>(); }

    // @harness ids=C13,C01 tier=quick kind=proof units=outstation::session::OutstationSession::handle_write_iin timeout=300 note="nine bits written from any start index (two bytes)"
    #[kani::proof]
    #[kani::unwind(12)]
    fn vk_c13_write_iin_count9() { write_iin_contract::<9>(); }

    // ---------------------------------------------------------------- C18: outstation half of time synchronisation
    use crate::app::parse::count::CountSequence;

    /// returns a case code for the callers' covers: 0 wrong count, 1 nothing recorded, 2 clock rollback, 3 overflow, 4 accepted
    fn write_last_recorded_contract<const COUNT: usize, const NB: usize>() -> (u8, i64, u8) {
        let mut s = make_session();
        let data: [u8; NB] = kani::any();
        let seq: CountSequence<Group50Var3> = CountSequence::new(COUNT, &data);
        let has_rec: bool = kani::any();
        let (rec, rs, rn) = clk::any_instant();
        let (_now, ns, nn) = clk::any_instant();
        clk::set_now(ns, nn);
        s.state.last_recorded_time = if has_rec { Some(rec) } else { None };
        let app_result: u8 = kani::any();
        kani::assume(app_result <= 2);
        unsafe { APP_WRITE_TIME_CALLS = 0; APP_WRITE_TIME_RESULT = app_result; }
        let iin2 = s.handle_write_at_last_recorded_time(seq);
        let calls = unsafe { APP_WRITE_TIME_CALLS };
        let d = clk::diff((rs, rn), (ns, nn));
        let value: u64 = if NB >= 6 {
            (data[0] as u64) | ((data[1] as u64) << 8) | ((data[2] as u64) << 16) | ((data[3] as u64) << 24) | ((data[4] as u64) << 32) | ((data[5] as u64) << 40)
        } else { 0 };
        let elapsed_ms: i64 = match d { Some(x) => clk::millis(x), None => 0 };
        let fits = d.is_some() && (value as i64 + elapsed_ms) <= 0xFFFF_FFFF_FFFFi64;
        let case: u8;
        if COUNT != 1 || !has_rec || !fits {
            // not exactly one g50v3, nothing recorded, clock went backwards, or 48-bit overflow: rejected, clock untouched
            assert!(iin2.value == 0x04);
            assert!(calls == 0);
            assert!(s.state.last_recorded_time.is_some() == has_rec);
            case = if COUNT != 1 { 0 } else if !has_rec { 1 } else if d.is_none() { 2 } else { 3 };
        } else {
            // the application is handed exactly (written value + time elapsed since RECORD_CURRENT_TIME)
            assert!(calls == 1);
            assert!(unsafe { APP_WRITE_TIME_ARG } as i64 == value as i64 + elapsed_ms);
            assert!(s.state.last_recorded_time.is_none());
            assert!(iin2.value == match app_result { 0 => 0, 1 => 0x04, _ => 0x01 });
            case = 4;
        }
        std::mem::forget(s);
        (case, elapsed_ms, app_result)
    }

    // @harness ids=C18,C01 tier=quick kind=proof stubs=1 units=outstation::session::OutstationSession::handle_write_at_last_recorded_time,app::types::Timestamp::checked_add timeout=600 note="LAN procedure write: exactly one g50v3, any value, any recorded and current instant: application receives value + elapsed ms; rejected (PARAMETER_ERROR, clock untouched) iff nothing recorded, clock rollback or 48-bit overflow; recorded time consumed"
    #[kani::proof]
    #[kani::unwind(3)]
    #[kani::stub(tokio::time::Instant::now, crate::util::verif_kani_clock::stub_now)]
    fn vk_c18_write_at_last_recorded_time() {
        let (case, ms, app) = write_last_recorded_contract::<1, 6>();
        kani::cover!(case == 1);
        kani::cover!(case == 2);
        kani::cover!(case == 3);
        kani::cover!(case == 4 && ms > 65_535 && app == 0);
        kani::cover!(case == 4 && ms == 0);
    }

    // @harness ids=C18,C01 tier=quick kind=proof stubs=1 units=outstation::session::OutstationSession::handle_write_at_last_recorded_time timeout=600 note="count 0 or 2 objects: rejected, clock untouched"
    #[kani::proof]
    #[kani::unwind(3)]
    #[kani::stub(tokio::time::Instant::now, crate::util::verif_kani_clock::stub_now)]
    fn vk_c18_write_at_last_recorded_time_bad_count() {
        let two: bool = kani::any();
        let (case, _, _) = if two { write_last_recorded_contract::<2, 12>() } else { write_last_recorded_contract::<0, 0>() };
        assert!(case == 0);
        kani::cover!(two);
        kani::cover!(!two);
    }

    // @harness ids=C18,C12,C01 tier=quick kind=proof stubs=1 units=outstation::session::OutstationSession::handle_record_current_time,outstation::session::OutstationSession::handle_delay_measure,outstation::session::OutstationSession::handle_restart timeout=600 note="RECORD_CURRENT_TIME stores the current instant and answers with an empty solicited response; DELAY_MEASURE / restart answer FIR FIN !CON !UNS with the request's sequence and a 6-byte count-of-one object carrying the application's value"
    #[kani::proof]
    #[kani::unwind(8)]
    #[kani::stub(tokio::time::Instant::now, crate::util::verif_kani_clock::stub_now)]
    fn vk_c18_record_time_and_delay_measure() {
        let mut s = make_session();
        let (_n, ns, nn) = clk::any_instant();
        clk::set_now(ns, nn);
        let seq = Sequence::new(kani::any());
        // an earlier, abandoned RECORD_CURRENT_TIME may have left an instant behind: it must be REPLACED
        let (old, _os, _on) = clk::any_instant();
        s.state.last_recorded_time = if kani::any() { Some(old) } else { None };
        let r = s.handle_record_current_time(seq);
        assert!(r.size == 0 && r.header.control.seq == seq && r.header.control.fir && r.header.control.fin && !r.header.control.con && !r.header.control.uns);
        match s.state.last_recorded_time {
            Some(t) => assert!(t.checked_duration_since(clk::mk_instant(ns, nn)) == Some(std::time::Duration::from_secs(0))),
            None => assert!(false),
        }
        let delay: u16 = kani::any();
        unsafe { APP_DELAY_MS = delay; }
        let r2 = s.handle_delay_measure(seq);
        assert!(r2.header.control.seq == seq && r2.header.control.fir && r2.header.control.fin && !r2.header.control.con && !r2.header.control.uns);
        assert!(r2.header.function == ResponseFunction::Response && r2.header.iin == Iin::default());
        // 4-byte response header is skipped; object = 34 02 07 01 lo hi
        assert!(r2.size == 4 + 6);
        let b = s.sol_tx_buffer.get(10).unwrap();
        assert!(b[4] == 52 && b[5] == 2 && b[6] == 0x07 && b[7] == 1 && b[8] == (delay & 0xFF) as u8 && b[9] == (delay >> 8) as u8);
        let rd = if kani::any() { Some(RestartDelay::Seconds(kani::any())) } else if kani::any() { Some(RestartDelay::Milliseconds(kani::any())) } else { None };
        let r3 = s.handle_restart(seq, rd);
        assert!(r3.header.control.seq == seq && !r3.header.control.uns && !r3.header.control.con);
        match rd { None => assert!(r3.size == 0 && r3.header.iin.iin2.value == 0x01), Some(_) => assert!(r3.size == 10 && r3.header.iin == Iin::default()) }
        kani::cover!(rd.is_none());
        kani::cover!(delay == 0xFFFF);
        std::mem::forget(s);
    }

    // ---------------------------------------------------------------- C11 / C12 / C05: what ends or continues a solicited confirm wait
    // @harness ids=C11,C12,C05,C01 tier=quick kind=proof stubs=1 units=outstation::session::OutstationSession::expect_sol_confirm timeout=900 note="while a response series awaits its confirmation, for ANY waiting fragment: a solicited CONFIRM with the expected sequence number confirms (any other CONFIRM keeps waiting); a repeat of the READ is answered by echoing the stored response; every other request - new read, non-read, broadcast, malformed objects, and a fragment rejected before object parsing (bad function code / flags) - ENDS the series as a new request (so that it is answered, never silently dropped); link-layer traffic and an empty reader keep waiting"
    #[kani::proof]
    #[kani::unwind(4)]
    #[kani::stub(crate::app::parse::parser::ParsedFragment::parse, crate::app::parse::parser::ParsedFragment::stub_parse)]
    #[kani::stub(xxhash_rust::xxh64::xxh64, stub_xxh64)]
    #[kani::stub(tokio::time::Instant::now, crate::util::verif_kani_clock::stub_now)]
    fn vk_c11_expect_sol_confirm() {
        use crate::transport::verif_kani_c07_pop_request as pr;
        use crate::transport::real::assembler::verif_kani_c07_helpers as ah;
        use crate::transport::real::reader::verif_kani_c07_helpers as rh;
        let mut s = make_session();
        let mut reader = TransportReader::outstation(
            crate::link::reader::LinkModes::stream(crate::link::LinkErrorMode::Close),
            crate::app::parse::options::ParseOptions::parse_everything(),
            EndpointAddress::raw(1024), Feature::Disabled, 249);
        let empty: bool = kani::any();
        let bcast = any_bcast();
        let info = FragmentInfo::new(kani::any(), FragmentAddr { link: EndpointAddress::raw(1), phys: PhysAddr::None }, bcast);
        if !empty { ah::force_complete(rh::assembler_mut(pr::inner_mut(&mut reader)), info, 6); }
        pr::pf_choose();
        let (kind, _eseq, fc, ctrl, has_iin, _i1, _i2, ok_objects) = unsafe { pr::PF_CHOICE };
        let ecsn = Sequence::new(kani::any());
        let has_last: bool = kani::any();
        let last_seq = Sequence::new(kani::any());
        let last_hash: u64 = kani::any();
        let last_resp = any_response();
        s.state.last_valid_request = if has_last { Some(LastValidRequest::new(last_seq, last_hash, last_resp, None)) } else { None };
        let h: u64 = kani::any();
        unsafe { XXH_RET = h; }
        crate::util::verif_kani_clock::set_now(5, 0);
        let action = {
            let mut guard = reader.pop_request(None);
            let a = s.expect_sol_confirm(ecsn, &mut guard);
            guard.retain();
            a
        };
        // what the waiting fragment is, in the property's terms
        let function = match FunctionCode::from(fc) { Some(f) => f, None => FunctionCode::Read };
        let control = ControlField::from(ctrl);
        let parsed = kind % 3 == 2;
        let valid_request = parsed && !has_iin && control.fir && control.fin && (!control.uns || function == FunctionCode::Confirm);
        if empty {
            assert!(matches!(action, ConfirmAction::ContinueWait));
        } else if !valid_request {
            // rejected before object parsing: must END the wait so that it gets its error reply
            assert!(matches!(action, ConfirmAction::NewRequest));
            kani::cover!(!parsed);
            kani::cover!(parsed && !(control.fir && control.fin));
        } else if function == FunctionCode::Confirm {
            if !control.uns && control.seq == ecsn {
                assert!(matches!(action, ConfirmAction::Confirmed(a) if a.link.raw_value() == 1));
                kani::cover!(true);
            } else {
                assert!(matches!(action, ConfirmAction::ContinueWait));
                kani::cover!(!control.uns);
            }
        } else if bcast.is_some() {
            assert!(matches!(action, ConfirmAction::NewRequest));
        } else {
            let is_repeat = ok_objects && has_last && last_seq == control.seq && last_hash == h;
            if is_repeat && function == FunctionCode::Read {
                match action {
                    ConfirmAction::EchoLastResponse(a, r) => assert!(a.link.raw_value() == 1 && same_response(&r, &last_resp)),
                    _ => assert!(false),
                }
                kani::cover!(last_resp.is_some());
            } else {
                assert!(matches!(action, ConfirmAction::NewRequest));
                kani::cover!(!ok_objects);
                kani::cover!(is_repeat);
            }
        }
        std::mem::forget(s); std::mem::forget(reader);
    }
