    // @harness ids=C03,C01 tier=quick kind=proof units=outstation::database::EventBufferConfig::max_events timeout=120 note="the event store is sized for the sum of ALL eight per-type maxima (an undersized list would silently drop events the per-type counters still admit)"
    #[kani::proof]
    fn vk_c03_event_config_capacity() {
        let m: [u16; 8] = kani::any();
        let c = EventBufferConfig::new(m[0], m[1], m[2], m[3], m[4], m[5], m[6], m[7]);
        let mut sum: usize = 0;
        let mut k = 0;
        while k < 8 { sum += m[k] as usize; k += 1; }
        assert!(c.max_events() == sum);
        kani::cover!(m[7] > 0 && m[0] == 0);
    }
