    // C11: RangeWriter::write, one step from an ARBITRARY well-formed writer state (inductive).
    //
    // Invariant INV(writer, buffer, cursor position) for a writer inside a header (IEEE 1815 object header, qualifier 0x01,
    // 16-bit start/stop):   start = LE16 at stop_pos-2, stop = LE16 at stop_pos, count = stop-start+1 >= 1,
    //   writer.index = stop, data begins at stop_pos+2 and
    //   fixed-size objects of S bytes : cursor = data + count*S
    //   packed single bits            : cursor = data + ceil(count/8), object k (0-based) is bit k%8 of byte k/8, pad bits 0
    //   packed double bits            : cursor = data + ceil(count/4), object k is bits 2(k%4).. of byte k/4, pad bits 0
    // Base case: a successful write from Start establishes INV with count = 1 (checked below, same code path as "new header").
    // Step: from any state satisfying INV, write() either continues the header (count+1, INV again, earlier objects
    // untouched, the new object at its standard position) IFF same variation and index == stop+1, or starts a new header
    // behind the cursor (old header untouched), or fails leaving cursor and everything before it untouched.
    use crate::app::measurement::verif_kani_c10_measure as cm;
    use crate::app::measurement::*;
    use crate::outstation::database::config::*;
    use crate::outstation::database::details::range::traits::StaticVariation;

    #[derive(Copy, Clone, PartialEq)]
    enum Kind { Fixed, Bit, DBit }

    fn kind_of<T: Copy>(i: &WriteInfo<T>) -> Kind {
        match i.write_type { WriteType::Fixed(_) => Kind::Fixed, WriteType::Bits(_) => Kind::Bit, WriteType::DoubleBits(_) => Kind::DBit }
    }

    /// what the object encoder of this variation emits for `v` (the encoding itself is the subject of C10): bytes, length.
    /// For the packed kinds: the state code in the low bits of byte 0, length 0.
    fn encode<T: Copy>(i: &WriteInfo<T>, v: &T) -> ([u8; 8], usize) {
        let mut scratch = [0u8; 8];
        let len = match i.write_type {
            WriteType::Fixed(f) => {
                let mut c = WriteCursor::new(&mut scratch);
                assert!(f(&mut c, v).is_ok());
                c.position()
            }
            WriteType::Bits(conv) => { scratch[0] = if conv(v) { 1 } else { 0 }; 0 }
            WriteType::DoubleBits(conv) => { scratch[0] = cm::double_bit_code(conv(v)); 0 }
        };
        (scratch, len)
    }

    #[derive(Copy, Clone)]
    struct Ghost { start: u16, count: usize, stop_pos: usize }

    fn le16(buf: &[u8], at: usize) -> u16 { (buf[at] as u16) | ((buf[at + 1] as u16) << 8) }

    /// expected cursor position for INV
    fn inv_pos(kind: Kind, size: usize, g: &Ghost) -> usize {
        let data = g.stop_pos + 2;
        match kind {
            Kind::Fixed => data + g.count * size,
            Kind::Bit => data + (g.count + 7) / 8,
            Kind::DBit => data + (g.count + 3) / 4,
        }
    }

    /// an arbitrary writer state satisfying INV for variation `prev` in a buffer of N bytes (contents symbolic)
    fn any_header_state<T: Copy, const N: usize, const STOP: usize>(buf: &mut [u8; N], prev: &WriteInfo<T>, size: usize) -> (HeaderState<T>, Ghost, usize) {
        let stop_pos: usize = kani::any();
        kani::assume(stop_pos >= 5 && stop_pos <= N - 2);
        // STOP != 0: the running header is the first one of the fragment body (cheaper instance for the quick tier)
        if STOP != 0 { kani::assume(stop_pos == STOP); }
        let count: usize = kani::any();
        kani::assume(count >= 1 && count <= 8 * N);
        let start: u16 = kani::any();
        kani::assume(start as usize + count - 1 <= 65535);
        let stop: u16 = (start as usize + count - 1) as u16;
        buf[stop_pos - 2] = (start & 0xFF) as u8;
        buf[stop_pos - 1] = (start >> 8) as u8;
        buf[stop_pos] = (stop & 0xFF) as u8;
        buf[stop_pos + 1] = (stop >> 8) as u8;
        let g = Ghost { start, count, stop_pos };
        let kind = kind_of(prev);
        let pos = inv_pos(kind, size, &g);
        kani::assume(pos <= N);
        let state = match prev.write_type {
            WriteType::Fixed(f) => TypeState::Fixed(f),
            WriteType::Bits(conv) => {
                let byte_pos = pos - 1;
                let bit_pos = ((count - 1) % 8 + 1) as u8;
                let acc = buf[byte_pos];
                kani::assume(bit_pos == 8 || (acc >> bit_pos) == 0);
                TypeState::Bit(conv, BitState { bit_pos, acc, byte_pos, _phantom: std::marker::PhantomData })
            }
            WriteType::DoubleBits(conv) => {
                let byte_pos = pos - 1;
                let bit_pos = (2 * ((count - 1) % 4) + 2) as u8;
                let acc = buf[byte_pos];
                kani::assume(bit_pos == 8 || (acc >> bit_pos) == 0);
                TypeState::DoubleBit(conv, BitState { bit_pos, acc, byte_pos, _phantom: std::marker::PhantomData })
            }
        };
        (HeaderState::new(stop, stop_pos, state), g, pos)
    }

    /// INV holds for `w` with exactly the ghost values `g` (variation `var` of kind `kind`, object size `size`)
    fn check_inv<T: Copy, const N: usize>(w: &RangeWriter<T>, buf: &[u8; N], pos: usize, var: Variation, kind: Kind, size: usize, g: &Ghost) {
        match &w.state {
            State::Header(v, h) => {
                assert!(*v == var);
                assert!(h.stop_pos == g.stop_pos);
                assert!(le16(buf, g.stop_pos - 2) == g.start);
                assert!(le16(buf, g.stop_pos) as usize == g.start as usize + g.count - 1);
                assert!(h.index == le16(buf, g.stop_pos));
                assert!(pos == inv_pos(kind, size, g));
                match &h.state {
                    TypeState::Fixed(_) => assert!(kind == Kind::Fixed),
                    TypeState::Bit(_, bs) => {
                        assert!(kind == Kind::Bit);
                        assert!(bs.byte_pos == pos - 1 && bs.bit_pos as usize == (g.count - 1) % 8 + 1);
                        assert!(bs.acc == buf[bs.byte_pos]);
                        assert!(bs.bit_pos == 8 || (bs.acc >> bs.bit_pos) == 0);
                    }
                    TypeState::DoubleBit(_, bs) => {
                        assert!(kind == Kind::DBit);
                        assert!(bs.byte_pos == pos - 1 && bs.bit_pos as usize == 2 * ((g.count - 1) % 4) + 2);
                        assert!(bs.acc == buf[bs.byte_pos]);
                        assert!(bs.bit_pos == 8 || (bs.acc >> bs.bit_pos) == 0);
                    }
                }
            }
            _ => assert!(false),
        }
    }

    /// the encoder stored in the new state is the one of the variation just written (so the NEXT object is encoded right)
    fn same_encoder<T: Copy>(w: &RangeWriter<T>, info: &WriteInfo<T>) -> bool {
        match (&w.state, info.write_type) {
            (State::Header(_, h), WriteType::Fixed(f)) => match h.state { TypeState::Fixed(g) => g as usize == f as usize, _ => false },
            (State::Header(_, h), WriteType::Bits(f)) => match h.state { TypeState::Bit(g, _) => g as usize == f as usize, _ => false },
            (State::Header(_, h), WriteType::DoubleBits(f)) => match h.state { TypeState::DoubleBit(g, _) => g as usize == f as usize, _ => false },
            _ => false,
        }
    }

    /// returns a case code for covers: 0 full, 1 new header ok from Start, 6 new header ok behind a running header, 2 new header no room, 3 continue ok (same byte for packed),
    /// 4 continue ok (packed: new byte), 5 continue no room
    fn step_contract<T: Copy, const N: usize, const P: usize, const STOP: usize>(value: &T, infos: [WriteInfo<T>; 2], gv: [(u8, u8); 2]) -> (u8, usize, usize) {
        assert!(infos[0].variation != infos[1].variation);
        let mut buf: [u8; N] = kani::any();
        let p: usize = P;
        let n: usize = if kani::any() { 0 } else { 1 };
        let (p_kind, n_kind) = (kind_of(&infos[p]), kind_of(&infos[n]));
        let (_, p_size) = encode(&infos[p], value);
        let (n_bytes, n_size) = encode(&infos[n], value);
        let sel: u8 = kani::any();
        kani::assume(sel <= 2);
        // ---- pre-state
        let mut ghost = Ghost { start: 0, count: 0, stop_pos: 0 };
        let pos: usize;
        let state = match sel {
            0 => { pos = kani::any(); kani::assume(pos <= N); State::Start }
            1 => { pos = kani::any(); kani::assume(pos <= N); State::Full }
            _ => {
                let (h, g, ps) = any_header_state::<T, N, STOP>(&mut buf, &infos[p], p_size);
                ghost = g;
                pos = ps;
                State::Header(infos[p].variation, h)
            }
        };
        let mut w = RangeWriter { state };
        let old = buf;
        let index: u16 = kani::any();
        let prev_stop: usize = ghost.start as usize + ghost.count - if sel == 2 { 1 } else { 0 };
        // ---- the step
        let (res, newpos) = {
            let mut cursor = WriteCursor::new(&mut buf);
            cursor.seek_to(pos).unwrap();
            let res = w.write(&mut cursor, index, value, infos[n]);
            (res, cursor.position())
        };
        let room = N - pos;
        // the standard's rule: an object extends the running header IFF same variation and index = previous index + 1
        let cont = sel == 2 && p == n && index as usize == prev_stop + 1;
        let case: u8;
        if sel == 1 {
            // a writer that ran out of room stays full: nothing is written any more (no object can overtake a failed one)
            assert!(res.is_err() && newpos == pos);
            assert!(matches!(w.state, State::Full));
            let mut i = 0;
            while i < N { assert!(buf[i] == old[i]); i += 1; }
            case = 0;
        } else if !cont {
            let need = 7 + if n_kind == Kind::Fixed { n_size } else { 1 };
            if room >= need {
                assert!(res.is_ok() && newpos == pos + need);
                // object header: group, variation, qualifier 0x01, start = stop = index
                assert!(buf[pos] == gv[n].0 && buf[pos + 1] == gv[n].1 && buf[pos + 2] == 0x01);
                assert!(le16(&buf, pos + 3) == index && le16(&buf, pos + 5) == index);
                if n_kind == Kind::Fixed {
                    let mut k = 0;
                    while k < 8 { if k < n_size { assert!(buf[pos + 7 + k] == n_bytes[k]); } k += 1; }
                } else {
                    assert!(buf[pos + 7] == n_bytes[0]);
                }
                // everything already written (incl. the previous header's stop field) and everything behind is untouched
                let mut i = 0;
                while i < N { if i < pos || i >= newpos { assert!(buf[i] == old[i]); } i += 1; }
                let g1 = Ghost { start: index, count: 1, stop_pos: pos + 5 };
                check_inv::<T, N>(&w, &buf, newpos, infos[n].variation, n_kind, n_size, &g1);
                assert!(same_encoder(&w, &infos[n]));
                case = if sel == 2 { 6 } else { 1 };
            } else {
                assert!(res.is_err() && newpos == pos);
                assert!(matches!(w.state, State::Full));
                let mut i = 0;
                while i < N { if i < pos { assert!(buf[i] == old[i]); } i += 1; }
                case = 2;
            }
        } else {
            // continuing the running header
            let k = ghost.count; // 0-based number of the new object inside the header
            let data = ghost.stop_pos + 2;
            let (need, obj_pos, shift): (usize, usize, u8) = match n_kind {
                Kind::Fixed => (n_size, pos, 0),
                Kind::Bit => (if k % 8 == 0 { 1 } else { 0 }, data + k / 8, (k % 8) as u8),
                Kind::DBit => (if k % 4 == 0 { 1 } else { 0 }, data + k / 4, (2 * (k % 4)) as u8),
            };
            if room >= need {
                assert!(res.is_ok() && newpos == pos + need);
                match n_kind {
                    Kind::Fixed => {
                        let mut j = 0;
                        while j < 8 { if j < n_size { assert!(buf[pos + j] == n_bytes[j]); } j += 1; }
                    }
                    _ => {
                        // the new state code sits at its standard bit position; earlier objects of that byte unchanged; pad 0
                        let prior: u8 = if need == 1 { 0 } else { old[obj_pos] };
                        assert!(buf[obj_pos] == prior | (n_bytes[0] << shift));
                    }
                }
                // stop field patched to the new index; nothing else before the (new) cursor changes, nothing behind it
                let mut i = 0;
                while i < N {
                    let is_stop = i == ghost.stop_pos || i == ghost.stop_pos + 1;
                    let is_obj = if n_kind == Kind::Fixed { i >= pos && i < newpos } else { i == obj_pos };
                    if !is_stop && !is_obj { assert!(buf[i] == old[i]); }
                    i += 1;
                }
                let g1 = Ghost { start: ghost.start, count: ghost.count + 1, stop_pos: ghost.stop_pos };
                check_inv::<T, N>(&w, &buf, newpos, infos[n].variation, n_kind, n_size, &g1);
                assert!(le16(&buf, ghost.stop_pos) == index);
                assert!(same_encoder(&w, &infos[n]));
                case = if need == 0 { 3 } else { 4 };
            } else {
                // no room: cursor where the last complete object ended, header still counts exactly the objects present
                assert!(res.is_err() && newpos == pos);
                assert!(matches!(w.state, State::Full));
                let mut i = 0;
                while i < N { if i < pos { assert!(buf[i] == old[i]); } i += 1; }
                assert!(le16(&buf, ghost.stop_pos) as usize == prev_stop);
                case = 5;
            }
        }
        let _ = p_kind;
        (case, p, n)
    }

    macro_rules! writer_step_harness {
        ($name:ident, $n:expr, $p:expr, $stop:expr, $unwind:expr, $packed:expr, $value:expr, $i0:expr, $i1:expr, $gv:expr) => {
            #[kani::proof]
            #[kani::unwind($unwind)]
            fn $name() {
                let value = $value;
                let (case, p, n) = step_contract::<_, $n, $p, $stop>(&value, [$i0.get_write_info(&value), $i1.get_write_info(&value)], $gv);
                kani::cover!(case == 0);
                kani::cover!(case == 1);
                kani::cover!(case == 6 && p != n);
                kani::cover!(case == 6 && p == n);
                kani::cover!(case == 2);
                // running header is the packed variation: continue inside the current byte / with a new byte / no room
                kani::cover!(!($packed && $p == 0) || (case == 3 && n == 0));
                kani::cover!(!($packed && $p == 0) || (case == 4 && n == 0));
                kani::cover!(!($packed && $p == 0) || (case == 5 && n == 0));
                // running header is a fixed-size variation
                kani::cover!(($packed && $p == 0) || case == 4);
                kani::cover!(($packed && $p == 0) || case == 5);
            }
        };
    }

    // @harness ids=C11,C09,C10,C01 tier=quick kind=proof units=outstation::database::details::range::writer::RangeWriter::write timeout=600 note="BinaryInput, running header g1v1 (packed bits) or Start/Full, next object g1v1 or g1v2, 16-byte buffer, arbitrary INV state, any index, any value: continue IFF same variation and index = stop+1 (stop patched, bit at its standard position, earlier bits kept), else new header behind the cursor; no room => Err, cursor and everything before it unchanged, writer Full; INV re-established"
    writer_step_harness!(vk_c11_writer_step_g1v1, 16, 0, 0, 18, true,
        BinaryInput { value: kani::any(), flags: Flags::new(kani::any()), time: cm::any_time() },
        StaticBinaryInputVariation::Group1Var1, StaticBinaryInputVariation::Group1Var2, [(1, 1), (1, 2)]);

    // @harness ids=C11,C09,C10,C01 tier=thorough kind=proof units=outstation::database::details::range::writer::RangeWriter::write timeout=600 note="BinaryInput, running header g1v2 (one octet per object) or Start/Full, next object g1v1 or g1v2: same contract"
    writer_step_harness!(vk_c11_writer_step_g1v2, 16, 1, 0, 18, true,
        BinaryInput { value: kani::any(), flags: Flags::new(kani::any()), time: cm::any_time() },
        StaticBinaryInputVariation::Group1Var1, StaticBinaryInputVariation::Group1Var2, [(1, 1), (1, 2)]);

    // @harness ids=C11,C09,C10,C01 tier=thorough kind=proof units=outstation::database::details::range::writer::RangeWriter::write timeout=600 note="DoubleBitBinaryInput, running header g3v1 (packed double bits, 4 objects per octet) or Start/Full, next object g3v1 or g3v2: same contract"
    writer_step_harness!(vk_c11_writer_step_g3v1, 16, 0, 0, 18, true,
        DoubleBitBinaryInput { value: cm::any_double_bit(), flags: Flags::new(kani::any()), time: cm::any_time() },
        StaticDoubleBitBinaryInputVariation::Group3Var1, StaticDoubleBitBinaryInputVariation::Group3Var2, [(3, 1), (3, 2)]);

    // @harness ids=C11,C09,C10,C01 tier=thorough kind=proof units=outstation::database::details::range::writer::RangeWriter::write timeout=600 note="DoubleBitBinaryInput, running header g3v2: same contract"
    writer_step_harness!(vk_c11_writer_step_g3v2, 16, 1, 0, 18, true,
        DoubleBitBinaryInput { value: cm::any_double_bit(), flags: Flags::new(kani::any()), time: cm::any_time() },
        StaticDoubleBitBinaryInputVariation::Group3Var1, StaticDoubleBitBinaryInputVariation::Group3Var2, [(3, 1), (3, 2)]);

    // @harness ids=C11,C09,C10,C01 tier=thorough kind=proof units=outstation::database::details::range::writer::RangeWriter::write timeout=600 note="BinaryOutputStatus, running header g10v1 (packed bits) or Start/Full, next object g10v1 or g10v2: same contract"
    writer_step_harness!(vk_c11_writer_step_g10v1, 16, 0, 0, 18, true,
        BinaryOutputStatus { value: kani::any(), flags: Flags::new(kani::any()), time: cm::any_time() },
        StaticBinaryOutputStatusVariation::Group10Var1, StaticBinaryOutputStatusVariation::Group10Var2, [(10, 1), (10, 2)]);

    // @harness ids=C11,C09,C10,C01 tier=thorough kind=proof units=outstation::database::details::range::writer::RangeWriter::write timeout=600 note="BinaryOutputStatus, running header g10v2: same contract"
    writer_step_harness!(vk_c11_writer_step_g10v2, 16, 1, 0, 18, true,
        BinaryOutputStatus { value: kani::any(), flags: Flags::new(kani::any()), time: cm::any_time() },
        StaticBinaryOutputStatusVariation::Group10Var1, StaticBinaryOutputStatusVariation::Group10Var2, [(10, 1), (10, 2)]);

    // @harness ids=C11,C09,C10,C01 tier=quick kind=proof units=outstation::database::details::range::writer::RangeWriter::write timeout=600 note="Counter, running header g20v2 (3-byte objects) or Start/Full, next object g20v2 or g20v6 (2 bytes), 20-byte buffer: a partially fitting multi-byte object is not counted and the cursor stays at the end of the last complete object"
    writer_step_harness!(vk_c11_writer_step_g20v2, 20, 0, 0, 22, false,
        Counter { value: kani::any(), flags: Flags::new(kani::any()), time: cm::any_time() },
        StaticCounterVariation::Group20Var2, StaticCounterVariation::Group20Var6, [(20, 2), (20, 6)]);

    // @harness ids=C11,C09,C10,C01 tier=thorough kind=proof units=outstation::database::details::range::writer::RangeWriter::write timeout=600 note="Counter, running header g20v6 (2-byte objects, no flags): same contract"
    writer_step_harness!(vk_c11_writer_step_g20v6, 20, 1, 0, 22, false,
        Counter { value: kani::any(), flags: Flags::new(kani::any()), time: cm::any_time() },
        StaticCounterVariation::Group20Var2, StaticCounterVariation::Group20Var6, [(20, 2), (20, 6)]);

