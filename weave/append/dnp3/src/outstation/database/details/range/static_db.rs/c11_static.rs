    // C11: selection (snapshot) and successive writes of the static database. BOUNDED: BTreeMap / VecDeque contents are
    // limited to <= 3 points and <= 2 selections (see DESIGN 1.6); indices, values, ranges and updates are symbolic.
    use crate::app::measurement::verif_kani_c10_measure as cm;

    fn sv_tag(v: &SpecificVariation) -> u8 {
        match v {
            SpecificVariation::Binary(None) => 1,
            SpecificVariation::Binary(Some(StaticBinaryInputVariation::Group1Var1)) => 2,
            SpecificVariation::Binary(Some(StaticBinaryInputVariation::Group1Var2)) => 3,
            SpecificVariation::Counter(None) => 4,
            SpecificVariation::OctetString => 5,
            _ => 0,
        }
    }

    fn any_vr() -> (VariationRange, u16, u16, u8) {
        let (a, b): (u16, u16) = (kani::any(), kani::any());
        let sv = match kani::any::<u8>() % 5 {
            0 => SpecificVariation::Binary(None),
            1 => SpecificVariation::Binary(Some(StaticBinaryInputVariation::Group1Var1)),
            2 => SpecificVariation::Binary(Some(StaticBinaryInputVariation::Group1Var2)),
            3 => SpecificVariation::Counter(None),
            _ => SpecificVariation::OctetString,
        };
        let t = sv_tag(&sv);
        (sv.with(IndexRange::new(a, b)), a, b, t)
    }

    fn same_vr(x: &VariationRange, e: &(VariationRange, u16, u16, u8)) -> bool {
        x.range.start == e.1 && x.range.stop == e.2 && sv_tag(&x.variation) == e.3
    }

    // @harness ids=C11,C01 tier=quick kind=bounded bound="queue capacity 2, <=3 pushes" units=outstation::database::details::range::static_db::SelectionQueue::new,outstation::database::details::range::static_db::SelectionQueue::push_back,outstation::database::details::range::static_db::SelectionQueue::pop,outstation::database::details::range::static_db::SelectionQueue::peek,outstation::database::details::range::static_db::SelectionQueue::update_front,outstation::database::details::range::static_db::SelectionQueue::reset timeout=600 note="selection queue is FIFO: at least max_selections headers are accepted in request order; a refused push changes nothing but the overflow counter; update_front replaces only the head (false on empty); pop removes only the head; reset empties"
    #[kani::proof]
    #[kani::unwind(6)]
    fn vk_c11_selection_queue() {
        let mut q = SelectionQueue::new(2);
        assert!(q.peek().is_none() && q.capacity_exceeded == 0);
        let (a, b, c, d) = (any_vr(), any_vr(), any_vr(), any_vr());
        // update on empty: refused
        assert!(!q.update_front(a.0) && q.queue.len() == 0);
        assert!(q.push_back(a.0));
        assert!(q.push_back(b.0));
        assert!(q.queue.len() == 2 && q.capacity_exceeded == 0);
        let cap = q.queue.capacity();
        assert!(cap >= 2);
        let third = q.push_back(c.0);
        assert!(third == (cap > 2));
        if !third {
            assert!(q.capacity_exceeded == 1 && q.queue.len() == 2);
        } else {
            assert!(q.capacity_exceeded == 0 && q.queue.len() == 3);
        }
        // request order is kept
        match q.peek() { Some(x) => assert!(same_vr(&x, &a)), None => assert!(false) }
        // head replaced (resume point after a full fragment), rest untouched
        assert!(q.update_front(d.0));
        match q.peek() { Some(x) => assert!(same_vr(&x, &d)), None => assert!(false) }
        assert!(q.queue.len() == if third { 3 } else { 2 });
        q.pop();
        match q.peek() { Some(x) => assert!(same_vr(&x, &b)), None => assert!(false) }
        q.pop();
        if third {
            match q.peek() { Some(x) => assert!(same_vr(&x, &c)), None => assert!(false) }
            q.pop();
        }
        assert!(q.peek().is_none());
        q.pop(); // popping an empty queue is harmless
        assert!(q.peek().is_none());
        // reset (new request / end of series) drops everything
        assert!(q.push_back(a.0));
        q.reset();
        assert!(q.peek().is_none() && q.capacity_exceeded == 0 && q.queue.len() == 0);
        assert!(q.push_back(b.0) && q.push_back(a.0));
        match q.peek() { Some(x) => assert!(same_vr(&x, &b)), None => assert!(false) }
        kani::cover!(!third);
        kani::cover!(a.3 == 5 && b.3 == 2);
        std::mem::forget(q);
    }

    fn any_bi() -> BinaryInput {
        BinaryInput { value: kani::any(), flags: Flags::new(kani::any()), time: cm::any_time() }
    }

    fn bi_cfg(s_var: StaticBinaryInputVariation) -> PointConfig<BinaryInput> {
        PointConfig::new(None, FlagsDetector, s_var, EventBinaryInputVariation::Group2Var1)
    }

    // Measured (DESIGN 1.6 + this fragment): BTreeMap searches with SYMBOLIC keys or range bounds do not finish (one
    // range_mut over 3 points with symbolic bounds: > 600k symex steps, > 250 s). Therefore point indices and range bounds
    // are enumerated CONCRETELY - every order-type of a range relative to the point layout - and all VALUES stay
    // symbolic. Needs fsa=2048 (CBMC field sensitivity for heap objects up to 2 KiB, else node length is not constant).

    /// the six order-types of a bound relative to points at 3,4,6: below all, on each point, in the gap, above all
    const BOUNDS: [u16; 6] = [2, 3, 4, 5, 6, 7];

    fn plain_bi() -> BinaryInput { BinaryInput { value: kani::any(), flags: Flags::new(kani::any()), time: None } }

    fn select_contract<const NPTS: usize>(layout: [u16; NPTS], lo_from: usize, lo_to: usize) {
        let idx = layout;
        let mut map: PointMap<BinaryInput> = PointMap::empty();
        let mut cur = [plain_bi(); NPTS];
        let mut sel = [plain_bi(); NPTS];
        let mut k = 0;
        while k < NPTS {
            cur[k] = any_bi();
            sel[k] = any_bi();
            map.inner.insert(idx[k], Point { current: cur[k], selected: sel[k], last_event: plain_bi(), config: bi_cfg(StaticBinaryInputVariation::Group1Var2) });
            k += 1;
        }
        let var = match kani::any::<u8>() % 3 { 0 => None, 1 => Some(StaticBinaryInputVariation::Group1Var1), _ => Some(StaticBinaryInputVariation::Group1Var2) };
        let mut seen_none = false;
        let mut seen_all = false;
        let mut seen_one = false;
        let mut a = lo_from;
        while a < lo_to {
            let mut b = a;
            while b <= 6 {
                // b == 6 stands for "all points of the type" (no range given)
                let all = b == 6;
                let (start, stop) = if all { (0, 0) } else { (BOUNDS[a], BOUNDS[b]) };
                let r = if all { map.select_all_with_variation(var) } else { map.select_range_with_variation(IndexRange::new(start, stop), var) };
                // the selection that is queued: the requested range (or first..last existing index), requested variation
                let (lo, hi) = if all { (idx[0], idx[NPTS - 1]) } else { (start, stop) };
                match r {
                    Some(vr) => {
                        assert!(vr.range.start == lo && vr.range.stop == hi);
                        match (vr.variation, var) {
                            (SpecificVariation::Binary(None), None) => {}
                            (SpecificVariation::Binary(Some(x)), Some(y)) => assert!(x == y),
                            _ => assert!(false),
                        }
                    }
                    None => assert!(false),
                }
                // snapshot: `selected` := `current` for exactly the existing points inside the range; nothing else changes
                let mut inside = 0usize;
                let mut k = 0;
                while k < NPTS {
                    if lo <= idx[k] && idx[k] <= hi { sel[k] = cur[k]; inside += 1; }
                    let p = map.inner.get_mut(&idx[k]).unwrap();
                    assert!(p.current == cur[k]);
                    assert!(p.selected == sel[k]);
                    // the application keeps updating: fresh arbitrary current value for the next round
                    cur[k] = plain_bi();
                    p.current = cur[k];
                    k += 1;
                }
                assert!(map.inner.len() == NPTS);
                seen_none |= inside == 0;
                seen_all |= inside == NPTS;
                seen_one |= inside == 1;
                b += 1;
            }
            a += 1;
        }
        kani::cover!(seen_all);
        std::mem::forget(map);
        assert!(seen_none == (lo_from == 0 || lo_to >= 4));
        assert!(seen_one);
    }

    // @harness ids=C11,C01 tier=thorough fsa=2048 kind=bounded bound="3 points at indices 3,4,6; ranges 2..=stop for stop in {2..7}, and 'all'; values and variation symbolic" units=outstation::database::details::range::static_db::PointMap::select_range_with_variation,outstation::database::details::range::static_db::PointMap::select_all_with_variation,outstation::database::details::range::static_db::PointMap::full_range timeout=900 note="selecting a range (or all) copies `current` into `selected` for exactly the existing points inside the range, leaves every other point's snapshot and every current value alone, and queues the requested range and variation; ranges starting below all points"
    #[kani::proof]
    #[kani::unwind(9)]
    fn vk_c11_select_range_3pts_a() { select_contract::<3>([3, 4, 6], 0, 1); }

    // @harness ids=C11,C01 tier=thorough fsa=2048 kind=bounded bound="3 points at indices 3,4,6; ranges 3..=stop for stop in {3..7}, and 'all'" units=outstation::database::details::range::static_db::PointMap::select_range_with_variation,outstation::database::details::range::static_db::PointMap::select_all_with_variation timeout=900 note="same contract, ranges starting on the first point"
    #[kani::proof]
    #[kani::unwind(9)]
    fn vk_c11_select_range_3pts_b() { select_contract::<3>([3, 4, 6], 1, 2); }

    // @harness ids=C11,C01 tier=thorough fsa=2048 kind=bounded bound="3 points at indices 3,4,6; ranges with start in {4,5} and stop in {start..7}, and 'all'" units=outstation::database::details::range::static_db::PointMap::select_range_with_variation,outstation::database::details::range::static_db::PointMap::select_all_with_variation timeout=900 note="same contract, ranges starting on the second point / in the gap"
    #[kani::proof]
    #[kani::unwind(9)]
    fn vk_c11_select_range_3pts_c() { select_contract::<3>([3, 4, 6], 2, 4); }

    // @harness ids=C11,C01 tier=quick fsa=2048 kind=bounded bound="3 points at indices 3,4,6; ranges with start in {6,7} and stop in {start..7}, and 'all'" units=outstation::database::details::range::static_db::PointMap::select_range_with_variation,outstation::database::details::range::static_db::PointMap::select_all_with_variation timeout=900 note="same contract, ranges starting on the last point / above all points"
    #[kani::proof]
    #[kani::unwind(9)]
    fn vk_c11_select_range_3pts_d() { select_contract::<3>([3, 4, 6], 4, 6); }

    // @harness ids=C11,C01 tier=quick kind=bounded bound="0 points" units=outstation::database::details::range::static_db::PointMap::select_all_with_variation,outstation::database::details::range::static_db::StaticDatabase::select timeout=300 note="selecting all of a type that has no points queues nothing and reports no error"
    #[kani::proof]
    #[kani::unwind(4)]
    fn vk_c11_select_all_empty() {
        let mut db = StaticDatabase::new(None, ClassZeroConfig::default());
        let iin2 = db.select(StaticReadHeader::Binary(None, None));
        assert!(iin2.value == 0);
        assert!(db.selected.peek().is_none());
        kani::cover!(true);
        std::mem::forget(db);
    }

    // ---------------------------------------------------------------- successive writes
    // Two layers (the object writers are called through function pointers; with all eight point types reachable from
    // StaticDatabase::write CBMC dispatches every call over ~30 candidates: one real write() of 3 points = 700k symex steps):
    //  (1) series logic with RangeWriter::write replaced by a CONTRACT STUB: any call may report "no room" (Err), a
    //      successful call is logged (index, address of the value cell, variation). The byte-level effect of the real
    //      function is the subject of vk_c11_writer_step_* (complete, inductive).
    //  (2) one end-to-end run through the real writer, decoded the way a master would (thorough tier).
    pub(crate) static mut W_CALLS: usize = 0;
    pub(crate) static mut W_FAIL_MASK: u16 = 0;
    pub(crate) static mut W_N: usize = 0;
    pub(crate) static mut W_IDX: [u16; 8] = [0; 8];
    pub(crate) static mut W_PTR: [usize; 8] = [0; 8];
    pub(crate) static mut W_VAR_OK: bool = true;

    impl<T> RangeWriter<T> {
        /// contract stub of RangeWriter::write: Ok (object appended, logged) or Err (no room, nothing appended) - the
        /// harness chooses by W_FAIL_MASK which calls fail, i.e. every possible sequence of cursor sizes is covered
        pub(crate) fn stub_write(&mut self, _cursor: &mut WriteCursor, index: u16, value: &T, info: crate::outstation::database::details::range::traits::WriteInfo<T>) -> Result<(), BadWrite> {
            unsafe {
                let k = W_CALLS;
                W_CALLS += 1;
                if k >= 16 || (W_FAIL_MASK >> k) & 1 == 1 { return Err(BadWrite); }
                if W_N < 8 {
                    W_IDX[W_N] = index;
                    W_PTR[W_N] = value as *const T as usize;
                    if info.variation != crate::app::variations::Variation::Group1Var2 { W_VAR_OK = false; }
                }
                W_N += 1;
                Ok(())
            }
        }
    }

    struct Series<const NPTS: usize> { db: StaticDatabase, idx: [u16; NPTS], cur: [BinaryInput; NPTS] }

    fn new_series<const NPTS: usize>(layout: [u16; NPTS]) -> Series<NPTS> {
        let mut db = StaticDatabase::new(None, ClassZeroConfig::default());
        let cur = [plain_bi(); NPTS];
        let mut k = 0;
        while k < NPTS {
            assert!(db.add::<BinaryInput>(layout[k], bi_cfg(StaticBinaryInputVariation::Group1Var1)));
            k += 1;
        }
        let mut s = Series { db, idx: layout, cur };
        update_all(&mut s);
        s
    }

    /// the application updates EVERY point with an arbitrary new value (which may equal the old one) through the real API
    fn update_all<const NPTS: usize>(s: &mut Series<NPTS>) {
        let mut k = 0;
        while k < NPTS {
            let nv = plain_bi();
            let (found, ev) = s.db.update(&nv, s.idx[k], UpdateOptions::no_event());
            assert!(found && ev.is_none());
            s.cur[k] = nv;
            k += 1;
        }
    }

    /// one READ: NSEL g1v2 range headers are selected, then up to CALLS fragments are produced, all points being updated
    /// before every fragment; the k-th call of the object writer fails (no room) iff bit k of `mask` is set.
    /// Returns (fragments produced, objects reported, finished).
    fn read_series<const NPTS: usize, const NSEL: usize, const CALLS: usize>(s: &mut Series<NPTS>, sels: [(u16, u16); NSEL], mask: u16) -> (usize, usize, bool) {
        // ---- the request is processed
        let mut exp_n = 0usize;
        let mut exp_idx = [0u16; 8];
        let mut exp_ptr = [0usize; 8];
        let mut snap = [plain_bi(); NPTS];
        let mut j = 0;
        while j < NSEL {
            let (start, stop) = sels[j];
            let iin2 = s.db.select(StaticReadHeader::Binary(Some(StaticBinaryInputVariation::Group1Var2), Some(IndexRange::new(start, stop))));
            assert!(iin2.value == 0);
            // expected report: per header in request order, every existing point in range once, ascending
            let mut k = 0;
            while k < NPTS {
                if start <= s.idx[k] && s.idx[k] <= stop {
                    exp_idx[exp_n] = s.idx[k];
                    exp_ptr[exp_n] = &s.db.binary.inner.get(&s.idx[k]).unwrap().selected as *const BinaryInput as usize;
                    snap[k] = s.cur[k];
                    exp_n += 1;
                }
                k += 1;
            }
            j += 1;
        }
        // ---- the response series
        unsafe { W_CALLS = 0; W_FAIL_MASK = mask; W_N = 0; W_VAR_OK = true; }
        let mut done = false;
        let mut calls = 0;
        let mut c = 0;
        while c < CALLS {
            if !done {
                update_all(s);
                let before = unsafe { W_N };
                let mut buf = [0u8; 4];
                let mut cursor = WriteCursor::new(&mut buf);
                let res = s.db.write(&mut cursor);
                calls += 1;
                done = res.is_ok();
                // a fragment that is not the last one ended because an object did not fit; a finished series leaves nothing queued
                if done { assert!(s.db.selected.peek().is_none()); } else { assert!(s.db.selected.peek().is_some()); }
                let _ = before;
            }
            c += 1;
        }
        // ---- what was reported, over all fragments: always a prefix of the expected report, all of it when finished
        let (n, idx, ptr, var_ok) = unsafe { (W_N, W_IDX, W_PTR, W_VAR_OK) };
        assert!(n <= exp_n);
        if done { assert!(n == exp_n); }
        let mut k = 0;
        while k < 8 {
            if k < n {
                assert!(idx[k] == exp_idx[k]);   // each point once, ascending per header, headers in request order
                assert!(ptr[k] == exp_ptr[k]);   // the value handed to the writer is the point's SELECTED cell
            }
            k += 1;
        }
        assert!(var_ok);                          // in the requested variation
        // snapshot isolation: the selected cells still hold the values of request time, the updates went to `current`
        let mut k = 0;
        while k < NPTS {
            let p = s.db.binary.inner.get(&s.idx[k]).unwrap();
            assert!(p.current == s.cur[k]);
            let mut in_any = false;
            let mut j = 0;
            while j < NSEL { if sels[j].0 <= s.idx[k] && s.idx[k] <= sels[j].1 { in_any = true; } j += 1; }
            if in_any { assert!(p.selected == snap[k]); }
            k += 1;
        }
        (calls, n, done)
    }

    // The 'no room' pattern is fixed per harness (a symbolic pattern makes the resume index, hence the next BTreeMap range
    // search, symbolic: does not finish). Bit k of the mask = the k-th call of the object writer in this series fails.
    macro_rules! series_harness {
        ($name:ident, $npts:expr, $layout:expr, $nsel:expr, $sels:expr, $calls:expr, $mask:expr, $expect:expr) => {
            #[kani::proof]
            #[kani::unwind(10)]
            #[kani::stub(RangeWriter::write, RangeWriter::stub_write)]
            fn $name() {
                let mut s = new_series::<$npts>($layout);
                let r = read_series::<$npts, $nsel, $calls>(&mut s, $sels, $mask);
                assert!(r == $expect);
                kani::cover!(r.0 >= 1);
                std::mem::forget(s);
            }
        };
    }

    // @harness ids=C11,C10,C01 tier=thorough fsa=2048 stubs=1 kind=bounded bound="3 points at indices 3,4,6; 1 selection covering all; everything fits: 1 fragment; values symbolic" units=outstation::database::details::range::static_db::StaticDatabase::write,outstation::database::details::range::static_db::StaticDatabase::write_range,outstation::database::details::range::static_db::StaticDatabase::write_typed_range,outstation::database::details::range::static_db::StaticDatabase::select,outstation::database::details::range::static_db::StaticDatabase::update timeout=900 note="series logic, object writer by contract: every selected point is handed to the writer exactly once, in ascending index order, from its SELECTED cell, in the requested variation; although every point is updated before the fragment the selected cells keep the request-time values and the updates land in `current`; queue empty when finished"
    series_harness!(vk_c11_write_series_3pts_fit, 3, [3, 4, 6], 1, [(0, 65535)], 1, 0b0, (1, 3, true));

    // @harness ids=C11,C10,C01 tier=thorough fsa=2048 stubs=1 kind=bounded bound="3 points at indices 3,4,6; 1 selection; 'no room' at writer calls 2 and 4: 3 fragments of one point" units=outstation::database::details::range::static_db::StaticDatabase::write,outstation::database::details::range::static_db::StaticDatabase::write_typed_range,outstation::database::details::range::static_db::SelectionQueue::update_front timeout=900 note="a fragment ends at the first object that does not fit and the next fragment resumes at exactly that index: 3 | 4 | 6, nothing repeated or skipped, snapshot values despite updates before every fragment"
    series_harness!(vk_c11_write_series_3pts_one_each, 3, [3, 4, 6], 1, [(3, 6)], 3, 0b1010, (3, 3, true));

    // @harness ids=C11,C10,C01 tier=thorough fsa=2048 stubs=1 kind=bounded bound="3 points at indices 3,4,6; 1 selection; 'no room' at writer call 3: fragments 3,4 | 6" units=outstation::database::details::range::static_db::StaticDatabase::write,outstation::database::details::range::static_db::StaticDatabase::write_typed_range timeout=900 note="resume after two objects"
    series_harness!(vk_c11_write_series_3pts_two_one, 3, [3, 4, 6], 1, [(3, 6)], 2, 0b100, (2, 3, true));

    // @harness ids=C11,C10,C01 tier=thorough fsa=2048 stubs=1 kind=bounded bound="3 points at indices 3,4,6; 1 selection; 'no room' at the very first writer call: empty fragment, then everything" units=outstation::database::details::range::static_db::StaticDatabase::write,outstation::database::details::range::static_db::StaticDatabase::write_typed_range timeout=900 note="a fragment without room for a single object reports nothing and loses nothing"
    series_harness!(vk_c11_write_series_3pts_none_then_all, 3, [3, 4, 6], 1, [(2, 7)], 2, 0b001, (2, 3, true));

    // @harness ids=C11,C10,C01 tier=thorough fsa=2048 stubs=1 kind=bounded bound="3 points at indices 3,4,6; 1 selection 4..=6; 'no room' at writer call 2; bound of 1 fragment: series unfinished" units=outstation::database::details::range::static_db::StaticDatabase::write,outstation::database::details::range::static_db::StaticDatabase::write_typed_range,outstation::database::details::range::static_db::SelectionQueue::update_front timeout=900 note="a range starting on an existing point reports only points inside (index 3 is not reported and keeps its older snapshot); after an incomplete fragment the rest stays queued and what was reported is a prefix of the snapshot"
    series_harness!(vk_c11_write_series_partial_range, 3, [3, 4, 6], 1, [(4, 6)], 1, 0b10, (1, 1, false));

    // @harness ids=C11,C10,C01 tier=quick fsa=2048 stubs=1 kind=bounded bound="2 points at indices 3,4; 2 selections (4..=4 then 3..=4); 'no room' at writer call 2 (first object of the second header): 2 fragments" units=outstation::database::details::range::static_db::StaticDatabase::write,outstation::database::details::range::static_db::StaticDatabase::write_typed_range,outstation::database::details::range::static_db::StaticDatabase::select,outstation::database::details::range::static_db::SelectionQueue::push_back,outstation::database::details::range::static_db::SelectionQueue::pop timeout=900 note="two object headers in one request are answered in REQUEST order (index 4, then 3 and 4), each with its points once and ascending; a point named by both headers is reported under both; a finished header is dropped from the queue, the unfinished one resumes"
    series_harness!(vk_c11_write_series_2sel_split, 2, [3, 4], 2, [(4, 4), (3, 4)], 2, 0b010, (2, 3, true));

    // @harness ids=C11,C10,C01 tier=thorough fsa=2048 stubs=1 kind=bounded bound="2 points at indices 3,4; 2 selections (3..=4 then 9..=9 without points); everything fits" units=outstation::database::details::range::static_db::StaticDatabase::write,outstation::database::details::range::static_db::StaticDatabase::write_typed_range timeout=900 note="a header that selects no existing point contributes nothing and does not block the series"
    series_harness!(vk_c11_write_series_2sel_empty_second, 2, [3, 4], 2, [(3, 4), (9, 9)], 1, 0b0, (1, 2, true));

    // ---- (2) end to end through the real writer
    /// reads back what a master would read from a fragment body of g1v2 range headers: (index, flags octet) per object
    struct Log { n: usize, idx: [u16; 6], val: [u8; 6] }

    fn decode_g1v2(buf: &[u8], len: usize, log: &mut Log) {
        let mut pos = 0usize;
        let mut hdrs = 0;
        while pos < len && hdrs < 4 {
            assert!(len - pos >= 8);
            assert!(buf[pos] == 1 && buf[pos + 1] == 2 && buf[pos + 2] == 0x01);
            let start = (buf[pos + 3] as u16) | ((buf[pos + 4] as u16) << 8);
            let stop = (buf[pos + 5] as u16) | ((buf[pos + 6] as u16) << 8);
            assert!(stop >= start);
            let cnt = (stop - start) as usize + 1;
            assert!(cnt <= 3 && pos + 7 + cnt <= len);
            let mut k = 0;
            while k < 3 {
                if k < cnt {
                    assert!(log.n < 6);
                    log.idx[log.n] = start + k as u16;
                    log.val[log.n] = buf[pos + 7 + k];
                    log.n += 1;
                }
                k += 1;
            }
            pos += 7 + cnt;
            hdrs += 1;
        }
        assert!(pos == len);
    }

    /// g1v2 object octet of the standard: flags bits 0..6, state in bit 7
    fn g1v2_octet(m: &BinaryInput) -> u8 { (m.flags.value & 0x7F) | if m.value { 0x80 } else { 0 } }

    // @harness ids=C11,C01 tier=thorough fsa=2048 kind=bounded bound="2 points at indices 3,4; 1 selection 0..=65535 in g1v2; one fragment body of 9 bytes; values symbolic" units=outstation::database::details::range::static_db::StaticDatabase::write,outstation::database::details::range::static_db::StaticDatabase::write_typed_range,outstation::database::details::range::writer::RangeWriter::write timeout=1800 note="end to end through the REAL object writer (no stub): the fragment decodes (as a master would) to one g1v2 header 3..4 with the g1v2 octets of the values at request time, although both points were updated before the fragment was produced"
    #[kani::proof]
    #[kani::unwind(8)]
    fn vk_c11_write_series_end_to_end() {
        let mut s = new_series::<2>([3, 4]);
        let iin2 = s.db.select(StaticReadHeader::Binary(Some(StaticBinaryInputVariation::Group1Var2), Some(IndexRange::new(0, 65535))));
        assert!(iin2.value == 0);
        let snap = s.cur;
        let mut got = Log { n: 0, idx: [0; 6], val: [0; 6] };
        update_all(&mut s);
        let mut b1 = [0u8; 9];
        let (r1, l1) = { let mut c = WriteCursor::new(&mut b1); let r = s.db.write(&mut c); (r, c.position()) };
        assert!(r1.is_ok() && l1 == 9);
        decode_g1v2(&b1, l1, &mut got);
        assert!(got.n == 2 && got.idx[0] == 3 && got.idx[1] == 4);
        assert!(got.val[0] == g1v2_octet(&snap[0]) && got.val[1] == g1v2_octet(&snap[1]));
        assert!(s.db.selected.peek().is_none());
        kani::cover!(got.val[0] != g1v2_octet(&s.cur[0]));
        std::mem::forget(s);
    }

    // ---- C10 / C11: the packed variation g1v1 may only be used for a point whose REPORTED (selected, request-time) flags are
    // plain ONLINE; the decision must be taken on the snapshot, not on the point's current value.
    pub(crate) static mut PV_N: usize = 0;
    pub(crate) static mut PV_VAR: [u8; 4] = [0; 4];
    impl<T> RangeWriter<T> {
        /// contract stub: always room; logs the variation the caller decided to write (1 = g1v1 packed, 2 = g1v2, 0 = other)
        pub(crate) fn stub_write_logvar(&mut self, _cursor: &mut WriteCursor, _index: u16, _value: &T, info: crate::outstation::database::details::range::traits::WriteInfo<T>) -> Result<(), BadWrite> {
            unsafe {
                if PV_N < 4 {
                    PV_VAR[PV_N] = if info.variation == crate::app::variations::Variation::Group1Var1 { 1 } else if info.variation == crate::app::variations::Variation::Group1Var2 { 2 } else { 0 };
                }
                PV_N += 1;
            }
            Ok(())
        }
    }

    // @harness ids=C10,C11 tier=quick fsa=2048 stubs=1 kind=bounded bound="one binary input at index 3 configured for g1v1; value at request time and the later update symbolic" units=outstation::database::details::range::static_db::StaticDatabase::write_typed_range,outstation::database::details::range::traits::StaticVariation::promote timeout=900 note="default variation g1v1 (packed, no flag octet): the writer is handed g1v1 IFF the flags of the request-time snapshot are plain ONLINE, else g1v2 - whatever the point was updated to after the request was processed"
    #[kani::proof]
    #[kani::unwind(6)]
    #[kani::stub(RangeWriter::write, RangeWriter::stub_write_logvar)]
    fn vk_c10_promote_decided_on_snapshot() {
        let mut s = new_series::<1>([3]);
        let snap = s.cur[0];
        let iin2 = s.db.select(StaticReadHeader::Binary(None, Some(IndexRange::new(3, 3))));
        assert!(iin2.value == 0);
        update_all(&mut s); // the application changes the point while the response is pending
        unsafe { PV_N = 0; }
        let mut buf = [0u8; 8];
        let mut cursor = WriteCursor::new(&mut buf);
        let res = s.db.write(&mut cursor);
        assert!(res.is_ok());
        assert!(unsafe { PV_N } == 1);
        // flags other than the state bit (0x80) must be exactly ONLINE (0x01) for the packed format
        let plain_online = (snap.flags.value & 0x7F) == 0x01;
        assert!(unsafe { PV_VAR[0] } == if plain_online { 1 } else { 2 });
        kani::cover!(plain_online && (s.cur[0].flags.value & 0x7F) != 0x01);
        kani::cover!(!plain_online && (s.cur[0].flags.value & 0x7F) == 0x01);
        std::mem::forget(s);
    }

    // ---- C11: the all-objects forms of a READ header (qualifier 0x06), incl. a point at the highest index
    /// one binary input at index IDX configured for g1v1; READ of all binary inputs with the requested variation `req`
    fn all_objects_contract(idx: u16, req: Option<StaticBinaryInputVariation>) {
        let mut s = new_series::<1>([idx]);
        let snap = s.cur[0];
        let iin2 = s.db.select(StaticReadHeader::Binary(req, None));
        assert!(iin2.value == 0);
        // the snapshot is taken at request time, also for the point at the top of the index range
        assert!(s.db.binary.inner.get(&idx).unwrap().selected == snap);
        update_all(&mut s);
        unsafe { PV_N = 0; }
        let mut buf = [0u8; 8];
        let mut cursor = WriteCursor::new(&mut buf);
        let res = s.db.write(&mut cursor);
        assert!(res.is_ok());
        assert!(unsafe { PV_N } == 1);
        let plain_online = (snap.flags.value & 0x7F) == 0x01;
        let expect = match req {
            Some(StaticBinaryInputVariation::Group1Var2) => 2,                      // the REQUESTED variation wins over the configured one
            _ => if plain_online { 1 } else { 2 },                                  // g1v1 requested or default: packed only for plain ONLINE
        };
        assert!(unsafe { PV_VAR[0] } == expect);
        assert!(s.db.binary.inner.get(&idx).unwrap().selected == snap);
        std::mem::forget(s);
    }

    // @harness ids=C11,C10 tier=quick fsa=2048 stubs=1 kind=bounded bound="one binary input at index 7 / at index 65535, configured g1v1" units=outstation::database::details::range::static_db::StaticDatabase::select_by_type,outstation::database::details::range::static_db::PointMap::select_all_with_variation,outstation::database::details::range::static_db::PointMap::select_range_with_variation timeout=900 note="READ all objects of a type (qualifier 06): with a specific variation the REQUESTED variation is reported (not the configured default); with variation 0 the configured one; the request-time snapshot is taken for every existing point including index 65535"
    #[kani::proof]
    #[kani::unwind(6)]
    #[kani::stub(RangeWriter::write, RangeWriter::stub_write_logvar)]
    fn vk_c11_all_objects_variation_and_top_index() {
        let which: u8 = kani::any();
        kani::assume(which < 4);
        match which {
            0 => all_objects_contract(7, Some(StaticBinaryInputVariation::Group1Var2)),
            1 => all_objects_contract(7, None),
            2 => all_objects_contract(65535, Some(StaticBinaryInputVariation::Group1Var2)),
            _ => all_objects_contract(65535, None),
        }
        kani::cover!(which == 2);
        kani::cover!(which == 1);
    }
