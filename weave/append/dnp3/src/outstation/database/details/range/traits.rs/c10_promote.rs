    // C10: packed static variations (g1v1, g3v1, g10v1) are used only for plainly ONLINE points.
    use crate::app::measurement::verif_kani_c10_measure as cm;
    use crate::verif_spec as spec;

    // @harness ids=C10,C01 tier=quick kind=proof units=outstation::database::details::range::traits::StaticVariation<BinaryInput>::promote timeout=120 note="BinaryInput, every flag octet x value x time x configured variation: g1v1 kept iff flags without the state bit == ONLINE exactly, else replaced by g1v2; g1v2 never changed; when g1v1 is kept the master's bit -> BinaryInput conversion delivers the same value and (state bit aside) the same flags"
    #[kani::proof]
    fn vk_c10_promote_binary_input() {
        let f: u8 = kani::any();
        let value: bool = kani::any();
        let m = BinaryInput { value, flags: Flags::new(f), time: cm::any_time() };
        let packed: bool = kani::any();
        let var = if packed { StaticBinaryInputVariation::Group1Var1 } else { StaticBinaryInputVariation::Group1Var2 };
        let out = var.promote(&m);
        let keep = spec::packed_allowed(f, spec::FLAG_STATE);
        if packed && keep {
            assert!(out == StaticBinaryInputVariation::Group1Var1);
            assert!(spec::var_caps(1, 1).kind == spec::K_PACKED);
            // what the master makes of the packed bit
            let back = BinaryInput::from(m.value);
            assert!(back.value == value && back.time.is_none());
            assert!(back.flags.value == spec::implied_flags_without_octet());
            assert!(back.flags.value & 0x7F == f & 0x7F, "C10: packed format used only when it loses no flag");
        } else {
            assert!(out == StaticBinaryInputVariation::Group1Var2, "C10: packed format must not be used for a point that is not plainly ONLINE");
        }
        // the write function selected for the promoted variation is the one of that variation
        let info = out.get_write_info(&m);
        match info.write_type {
            WriteType::Bits(func) => {
                assert!(out == StaticBinaryInputVariation::Group1Var1 && info.variation == Variation::Group1Var1);
                assert!(func(&m) == value);
            }
            WriteType::Fixed(_) => assert!(out == StaticBinaryInputVariation::Group1Var2 && info.variation == Variation::Group1Var2),
            WriteType::DoubleBits(_) => assert!(false),
        }
        kani::cover!(packed && keep && f == 0x81 && !value);
        kani::cover!(packed && !keep && f == 0x41);
        kani::cover!(packed && !keep && f == 0x00);
        kani::cover!(!packed && keep);
    }

    // @harness ids=C10,C01 tier=thorough kind=proof units=outstation::database::details::range::traits::StaticVariation<BinaryOutputStatus>::promote timeout=120 note="BinaryOutputStatus: g10v1 kept iff flags without the state bit == ONLINE exactly, else g10v2"
    #[kani::proof]
    fn vk_c10_promote_binary_output_status() {
        let f: u8 = kani::any();
        let value: bool = kani::any();
        let m = BinaryOutputStatus { value, flags: Flags::new(f), time: cm::any_time() };
        let packed: bool = kani::any();
        let var = if packed { StaticBinaryOutputStatusVariation::Group10Var1 } else { StaticBinaryOutputStatusVariation::Group10Var2 };
        let out = var.promote(&m);
        let keep = spec::packed_allowed(f, spec::FLAG_STATE);
        if packed && keep {
            assert!(out == StaticBinaryOutputStatusVariation::Group10Var1);
            let back = BinaryOutputStatus::from(m.value);
            assert!(back.value == value && back.time.is_none());
            assert!(back.flags.value == spec::implied_flags_without_octet());
            assert!(back.flags.value & 0x7F == f & 0x7F);
        } else {
            assert!(out == StaticBinaryOutputStatusVariation::Group10Var2, "C10: packed format must not be used for a point that is not plainly ONLINE");
        }
        let info = out.get_write_info(&m);
        match info.write_type {
            WriteType::Bits(func) => {
                assert!(out == StaticBinaryOutputStatusVariation::Group10Var1 && info.variation == Variation::Group10Var1);
                assert!(func(&m) == value);
            }
            WriteType::Fixed(_) => assert!(out == StaticBinaryOutputStatusVariation::Group10Var2 && info.variation == Variation::Group10Var2),
            WriteType::DoubleBits(_) => assert!(false),
        }
        kani::cover!(packed && keep && f == 0x01 && value);
        kani::cover!(packed && !keep && f == 0x21);
        kani::cover!(!packed && keep);
    }

    // @harness ids=C10,C01 tier=thorough kind=proof units=outstation::database::details::range::traits::StaticVariation<DoubleBitBinaryInput>::promote timeout=120 note="DoubleBitBinaryInput: g3v1 kept iff flags without the two state bits == ONLINE exactly, else g3v2"
    #[kani::proof]
    fn vk_c10_promote_double_bit() {
        let f: u8 = kani::any();
        let value = cm::any_double_bit();
        let m = DoubleBitBinaryInput { value, flags: Flags::new(f), time: cm::any_time() };
        let packed: bool = kani::any();
        let var = if packed { StaticDoubleBitBinaryInputVariation::Group3Var1 } else { StaticDoubleBitBinaryInputVariation::Group3Var2 };
        let out = var.promote(&m);
        let keep = spec::packed_allowed(f, spec::FLAG_DBIT_MASK);
        if packed && keep {
            assert!(out == StaticDoubleBitBinaryInputVariation::Group3Var1);
            let back = DoubleBitBinaryInput::from(m.value);
            assert!(back.value == value && back.time.is_none());
            assert!(back.flags.value == spec::implied_flags_without_octet());
            assert!(back.flags.value & 0x3F == f & 0x3F);
        } else {
            assert!(out == StaticDoubleBitBinaryInputVariation::Group3Var2, "C10: packed format must not be used for a point that is not plainly ONLINE");
        }
        let info = out.get_write_info(&m);
        match info.write_type {
            WriteType::DoubleBits(func) => {
                assert!(out == StaticDoubleBitBinaryInputVariation::Group3Var1 && info.variation == Variation::Group3Var1);
                assert!(func(&m) == value);
            }
            WriteType::Fixed(_) => assert!(out == StaticDoubleBitBinaryInputVariation::Group3Var2 && info.variation == Variation::Group3Var2),
            WriteType::Bits(_) => assert!(false),
        }
        kani::cover!(packed && keep && f == 0xC1);
        kani::cover!(packed && !keep && f == 0x21);
        kani::cover!(!packed && keep);
    }

    // @harness ids=C10,C01 tier=thorough kind=proof units=outstation::database::details::range::traits::StaticVariation<Counter>::promote,outstation::database::details::range::traits::StaticVariation<AnalogInput>::promote timeout=120 note="value-carrying types: promote never changes the configured/requested variation (so the variation written is the one whose pair harness applies)"
    #[kani::proof]
    fn vk_c10_promote_identity_others() {
        let f: u8 = kani::any();
        let t = cm::any_time();
        let c = Counter { value: kani::any(), flags: Flags::new(f), time: t };
        let k: u8 = kani::any();
        let cv = match k & 3 {
            0 => StaticCounterVariation::Group20Var1,
            1 => StaticCounterVariation::Group20Var2,
            2 => StaticCounterVariation::Group20Var5,
            _ => StaticCounterVariation::Group20Var6,
        };
        assert!(cv.promote(&c) == cv);
        let a = AnalogInput { value: cm::any_f64(), flags: Flags::new(f), time: t };
        let av = match k % 6 {
            0 => StaticAnalogInputVariation::Group30Var1,
            1 => StaticAnalogInputVariation::Group30Var2,
            2 => StaticAnalogInputVariation::Group30Var3,
            3 => StaticAnalogInputVariation::Group30Var4,
            4 => StaticAnalogInputVariation::Group30Var5,
            _ => StaticAnalogInputVariation::Group30Var6,
        };
        assert!(av.promote(&a) == av);
        assert!(av.get_write_info(&a).variation == match av {
            StaticAnalogInputVariation::Group30Var1 => Variation::Group30Var1,
            StaticAnalogInputVariation::Group30Var2 => Variation::Group30Var2,
            StaticAnalogInputVariation::Group30Var3 => Variation::Group30Var3,
            StaticAnalogInputVariation::Group30Var4 => Variation::Group30Var4,
            StaticAnalogInputVariation::Group30Var5 => Variation::Group30Var5,
            StaticAnalogInputVariation::Group30Var6 => Variation::Group30Var6,
        });
        kani::cover!(f != 0x01 && av == StaticAnalogInputVariation::Group30Var4);
        kani::cover!(cv == StaticCounterVariation::Group20Var6 && f == 0);
    }
