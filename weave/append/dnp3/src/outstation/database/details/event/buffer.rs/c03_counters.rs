    // C03 / C13 / C01: the counter arithmetic of the event store and the per-type glue (`Insertable`), for the FULL input domain.
    // Panic-freedom preconditions: increment needs value < usize::MAX, decrement needs value > 0, subtract needs other <= self.
    // These are exactly what the store's invariant (written <= total = number of records <= capacity) supplies.
    use crate::app::measurement::{Flags, Time, DoubleBit};
    use crate::app::Timestamp;

    fn cv(c: &Count) -> usize { c.value }
    fn any_count() -> Count { Count { value: kani::any() } }
    fn any_class_counter() -> ClassCounter { ClassCounter { num_class_1: any_count(), num_class_2: any_count(), num_class_3: any_count() } }
    fn any_type_counter() -> TypeCounter {
        TypeCounter {
            num_binary: any_count(), num_double_binary: any_count(), num_binary_output_status: any_count(), num_counter: any_count(),
            num_frozen_counter: any_count(), num_analog: any_count(), num_analog_output_status: any_count(), num_octet_string: any_count(),
        }
    }
    type T8 = (usize, usize, usize, usize, usize, usize, usize, usize);
    fn t8(c: &TypeCounter) -> T8 {
        (cv(&c.num_binary), cv(&c.num_double_binary), cv(&c.num_binary_output_status), cv(&c.num_counter), cv(&c.num_frozen_counter), cv(&c.num_analog), cv(&c.num_analog_output_status), cv(&c.num_octet_string))
    }
    fn c3(c: &ClassCounter) -> (usize, usize, usize) { (cv(&c.num_class_1), cv(&c.num_class_2), cv(&c.num_class_3)) }
    /// component k of an 8-tuple / tuple with component k replaced (type codes = position of the type in EventBufferConfig)
    fn get8(t: &T8, k: u8) -> usize { match k { 0 => t.0, 1 => t.1, 2 => t.2, 3 => t.3, 4 => t.4, 5 => t.5, 6 => t.6, _ => t.7 } }
    fn with8(t: &T8, k: u8, v: usize) -> T8 {
        let mut r = *t;
        match k { 0 => r.0 = v, 1 => r.1 = v, 2 => r.2 = v, 3 => r.3 = v, 4 => r.4 = v, 5 => r.5 = v, 6 => r.6 = v, _ => r.7 = v }
        r
    }
    fn get3(t: &(usize, usize, usize), k: u8) -> usize { match k { 0 => t.0, 1 => t.1, _ => t.2 } }
    fn with3(t: &(usize, usize, usize), k: u8, v: usize) -> (usize, usize, usize) {
        let mut r = *t;
        match k { 0 => r.0 = v, 1 => r.1 = v, _ => r.2 = v }
        r
    }
    fn class_code(c: EventClass) -> u8 { match c { EventClass::Class1 => 0, EventClass::Class2 => 1, EventClass::Class3 => 2 } }
    fn any_class() -> EventClass {
        let k: u8 = kani::any();
        if k == 0 { EventClass::Class1 } else if k == 1 { EventClass::Class2 } else { EventClass::Class3 }
    }
    /// type code of an event, by variant name (table from the public API: Binary=g2, DoubleBitBinary=g4, BinaryOutputStatus=g11,
    /// Counter=g22, FrozenCounter=g23, Analog=g32, AnalogOutputStatus=g42, OctetString=g111, in EventBufferConfig order)
    fn type_code(e: &Event) -> u8 {
        match e {
            Event::Binary(_, _) => 0, Event::DoubleBitBinary(_, _) => 1, Event::BinaryOutputStatus(_, _) => 2, Event::Counter(_, _) => 3,
            Event::FrozenCounter(_, _) => 4, Event::Analog(_, _) => 5, Event::AnalogOutputStatus(_, _) => 6, Event::OctetString(_, _) => 7,
        }
    }
    fn any_time() -> Option<Time> {
        let k: u8 = kani::any();
        let v: u64 = kani::any();
        if k == 0 { None } else if k == 1 { Some(Time::Synchronized(Timestamp::new(v))) } else { Some(Time::Unsynchronized(Timestamp::new(v))) }
    }
    fn any_flags() -> Flags { Flags { value: kani::any() } }
    /// an event of the type with code k (fixed-size types only: k < 7)
    fn event_of(k: u8) -> Event {
        match k {
            0 => Event::Binary(measurement::BinaryInput { value: kani::any(), flags: any_flags(), time: any_time() }, Variation::new(EventBinaryInputVariation::Group2Var1)),
            1 => Event::DoubleBitBinary(measurement::DoubleBitBinaryInput { value: DoubleBit::DeterminedOn, flags: any_flags(), time: any_time() }, Variation::new(EventDoubleBitBinaryInputVariation::Group4Var1)),
            2 => Event::BinaryOutputStatus(measurement::BinaryOutputStatus { value: kani::any(), flags: any_flags(), time: any_time() }, Variation::new(EventBinaryOutputStatusVariation::Group11Var1)),
            3 => Event::Counter(measurement::Counter { value: kani::any(), flags: any_flags(), time: any_time() }, Variation::new(EventCounterVariation::Group22Var1)),
            4 => Event::FrozenCounter(measurement::FrozenCounter { value: kani::any(), flags: any_flags(), time: any_time() }, Variation::new(EventFrozenCounterVariation::Group23Var1)),
            5 => Event::Analog(measurement::AnalogInput { value: kani::any(), flags: any_flags(), time: any_time() }, Variation::new(EventAnalogInputVariation::Group32Var1)),
            _ => Event::AnalogOutputStatus(measurement::AnalogOutputStatus { value: kani::any(), flags: any_flags(), time: any_time() }, Variation::new(EventAnalogOutputStatusVariation::Group42Var1)),
        }
    }

    // @harness ids=C03,C13,C01 tier=quick kind=proof units=outstation::database::details::event::buffer::Count::increment,outstation::database::details::event::buffer::Count::decrement,outstation::database::details::event::buffer::Count::subtract,outstation::database::details::event::buffer::Count::zero,outstation::database::details::event::buffer::ClassCounter::increment,outstation::database::details::event::buffer::ClassCounter::decrement,outstation::database::details::event::buffer::ClassCounter::subtract,outstation::database::details::event::buffer::ClassCounter::zero timeout=120 note="all usize values: increment (value < MAX), decrement (value > 0), subtract (other <= self) do not panic and compute value+1 / value-1 / self-other; ClassCounter does so on exactly the named class and leaves the other two unchanged"
    #[kani::proof]
    fn vk_c03_count_and_class_counter_arith() {
        let mut a = any_count();
        let b = any_count();
        let a0 = a.value;
        if a0 < usize::MAX { a.increment(); assert!(a.value == a0 + 1); a.decrement(); assert!(a.value == a0); }
        if a0 > 0 { a.decrement(); assert!(a.value == a0 - 1); a.increment(); }
        if b.value <= a0 { assert!(a.subtract(&b).value == a0 - b.value); }
        assert!(a.get() == a0);
        a.zero();
        assert!(a.value == 0);
        let mut c = any_class_counter();
        let c0 = c3(&c);
        let class = any_class();
        let k = class_code(class);
        if get3(&c0, k) < usize::MAX {
            c.increment(class);
            assert!(c3(&c) == with3(&c0, k, get3(&c0, k) + 1), "ClassCounter::increment: exactly that class +1");
            c.decrement(class);
            assert!(c3(&c) == c0, "ClassCounter::decrement undoes increment");
        }
        if get3(&c0, k) > 0 {
            c.decrement(class);
            assert!(c3(&c) == with3(&c0, k, get3(&c0, k) - 1), "ClassCounter::decrement: exactly that class -1");
            c.increment(class);
        }
        let d = any_class_counter();
        let d0 = c3(&d);
        if d0.0 <= c0.0 && d0.1 <= c0.1 && d0.2 <= c0.2 {
            assert!(c3(&c.subtract(&d)) == (c0.0 - d0.0, c0.1 - d0.1, c0.2 - d0.2), "ClassCounter::subtract: componentwise, no underflow when other <= self");
        }
        c.zero();
        assert!(c3(&c) == (0, 0, 0));
        kani::cover!(a0 == usize::MAX);
        kani::cover!(a0 == 0 && k == 2);
        kani::cover!(d0.0 == c0.0 && d0.1 < c0.1);
    }

    // @harness ids=C03,C13,C01 tier=quick kind=proof units=outstation::database::details::event::buffer::Counters::increment,outstation::database::details::event::buffer::Counters::decrement,outstation::database::details::event::buffer::TypeCounter::increment,outstation::database::details::event::buffer::TypeCounter::modify,outstation::database::details::event::buffer::Counters::zero timeout=200 note="for a record of each fixed-size event type and each class, all counter values: Counters::increment / decrement change exactly the counter of the record's type and the counter of its class by one (no panic when below MAX / above 0), all other counters unchanged; zero clears all"
    #[kani::proof]
    fn vk_c03_counters_follow_record() {
        let k: u8 = kani::any();
        kani::assume(k < 7); // @assume: enumerates the seven fixed-size event types (octet strings: vk_c03_insertable_octet_string)
        let class = any_class();
        let rec = EventRecord::new(kani::any(), kani::any(), class, event_of(k));
        assert!(type_code(&rec.event) == k);
        let mut c = Counters { types: any_type_counter(), classes: any_class_counter() };
        let (t0, c0) = (t8(&c.types), c3(&c.classes));
        let cc = class_code(class);
        if get8(&t0, k) < usize::MAX && get3(&c0, cc) < usize::MAX {
            c.increment(&rec);
            assert!(t8(&c.types) == with8(&t0, k, get8(&t0, k) + 1) && c3(&c.classes) == with3(&c0, cc, get3(&c0, cc) + 1), "Counters::increment: exactly the record's type and class +1");
            c.decrement(&rec);
            assert!(t8(&c.types) == t0 && c3(&c.classes) == c0, "Counters::decrement undoes increment");
        }
        if get8(&t0, k) > 0 && get3(&c0, cc) > 0 {
            c.decrement(&rec);
            assert!(t8(&c.types) == with8(&t0, k, get8(&t0, k) - 1) && c3(&c.classes) == with3(&c0, cc, get3(&c0, cc) - 1), "Counters::decrement: exactly the record's type and class -1");
        }
        c.zero();
        assert!(t8(&c.types) == (0, 0, 0, 0, 0, 0, 0, 0) && c3(&c.classes) == (0, 0, 0));
        kani::cover!(k == 6 && cc == 2 && get8(&t0, k) == 0);
        kani::cover!(k == 0 && get8(&t0, k) == usize::MAX);
    }

    fn buffer_with(config: EventBufferConfig, total: Counters, written: Counters, is_overflown: bool) -> EventBuffer {
        EventBuffer { config, events: VecList::new(0), total, written, is_overflown, next: kani::any() }
    }
    fn any_config() -> EventBufferConfig {
        EventBufferConfig::new(kani::any(), kani::any(), kani::any(), kani::any(), kani::any(), kani::any(), kani::any(), kani::any())
    }

    // @harness ids=C13,C03,C01 tier=quick kind=proof units=outstation::database::details::event::buffer::EventBuffer::unwritten_classes,outstation::database::details::event::buffer::EventBuffer::is_any_full,outstation::database::details::event::buffer::EventBuffer::is_full,outstation::database::details::event::buffer::EventBuffer::is_overflown timeout=200 note="all counter values and all configurations: if written <= total per class (the invariant) unwritten_classes does not underflow and sets class c iff total_c - written_c > 0; is_any_full is true iff some type with maximum > 0 holds at least its maximum; is_overflown returns the flag"
    #[kani::proof]
    fn vk_c13_observers_all_counters() {
        let total = Counters { types: any_type_counter(), classes: any_class_counter() };
        let written = Counters { types: any_type_counter(), classes: any_class_counter() };
        let (t, w) = (c3(&total.classes), c3(&written.classes));
        kani::assume(w.0 <= t.0 && w.1 <= t.1 && w.2 <= t.2); // @assume: written <= total per class (piece of the store invariant; D2 is the violation of exactly this)
        let config = any_config();
        let flag: bool = kani::any();
        let tt = t8(&total.types);
        let b = buffer_with(config, total, written, flag);
        let u = b.unwritten_classes();
        assert!(u.class1 == (t.0 > w.0) && u.class2 == (t.1 > w.1) && u.class3 == (t.2 > w.2), "unwritten_classes: class bit iff more records of the class than records awaiting confirmation");
        let mx = (config.max_binary, config.max_double_binary, config.max_binary_output_status, config.max_counter, config.max_frozen_counter, config.max_analog, config.max_analog_output_status, config.max_octet_string);
        let full = |m: u16, n: usize| m > 0 && n >= m as usize;
        let want = full(mx.0, tt.0) || full(mx.1, tt.1) || full(mx.2, tt.2) || full(mx.3, tt.3) || full(mx.4, tt.4) || full(mx.5, tt.5) || full(mx.6, tt.6) || full(mx.7, tt.7);
        assert!(b.is_any_full() == want, "is_any_full: some enabled type is at (or above) its maximum");
        assert!(b.is_overflown() == flag);
        std::mem::forget(b);
        kani::cover!(want && mx.7 > 0 && tt.7 == mx.7 as usize && !(full(mx.0, tt.0)));
        kani::cover!(!want && mx.0 == 0 && tt.0 > 0);
        kani::cover!(u.class1 && !u.class2 && u.class3);
    }

    /// the per-type glue: every `Insertable` impl must consistently name ITS configuration maximum, ITS counter and ITS event variant
    fn insertable_contract<T: Insertable>(k: u8, sample: &T, variation: T::EventVariation) {
        let config = any_config();
        let mx = (config.max_binary, config.max_double_binary, config.max_binary_output_status, config.max_counter, config.max_frozen_counter, config.max_analog, config.max_analog_output_status, config.max_octet_string);
        let want_max = match k { 0 => mx.0, 1 => mx.1, 2 => mx.2, 3 => mx.3, 4 => mx.4, 5 => mx.5, 6 => mx.6, _ => mx.7 };
        assert!(T::get_max(&config) == want_max, "Insertable::get_max reads the maximum of its own type");
        let mut c = any_type_counter();
        let t0 = t8(&c);
        assert!(T::get_type_count(&c) == get8(&t0, k), "Insertable::get_type_count reads the counter of its own type");
        if get8(&t0, k) < usize::MAX {
            T::increment_type(&mut c);
            assert!(t8(&c) == with8(&t0, k, get8(&t0, k) + 1), "Insertable::increment_type: exactly its own counter +1");
            T::decrement_type(&mut c);
            assert!(t8(&c) == t0, "Insertable::decrement_type: exactly its own counter -1");
        }
        let rec = EventRecord::new(kani::any(), kani::any(), any_class(), sample.create_event(variation));
        assert!(type_code(&rec.event) == k && T::is_type(&rec), "Insertable::create_event builds the variant of its own type, which is_type recognises");
        assert!(T::select_variation(&rec, variation), "select_variation accepts a record of its own type");
        let j: u8 = kani::any();
        kani::assume(j < 7); // @assume: enumerates the seven fixed-size event types as 'other' record
        let other = EventRecord::new(kani::any(), kani::any(), any_class(), event_of(j));
        assert!(T::is_type(&other) == (j == k) && T::select_variation(&other, variation) == (j == k), "is_type / select_variation are true exactly for records of the own type");
        // TypeCounter::increment(&Event) (used by write_events) counts the same field as increment_type (used by insert)
        let mut c2 = any_type_counter();
        let t2 = t8(&c2);
        if get8(&t2, k) < usize::MAX {
            c2.increment(&rec.event);
            assert!(t8(&c2) == with8(&t2, k, get8(&t2, k) + 1), "TypeCounter::increment(event) and Insertable::increment_type agree on the counter");
        }
        std::mem::forget(rec);
        kani::cover!(j == k || k == 7);
        kani::cover!(j != k);
    }

    macro_rules! insertable_harness {
        ($name:ident, $k:expr, $sample:expr, $var:expr) => {
            #[kani::proof]
            #[kani::unwind(4)]
            fn $name() {
                let sample = $sample;
                insertable_contract($k, &sample, $var);
            }
        };
    }
    // @harness ids=C03,C01 tier=quick kind=proof units=outstation::database::details::event::buffer::Insertable::get_max,outstation::database::details::event::buffer::Insertable::get_type_count,outstation::database::details::event::buffer::Insertable::is_type,outstation::database::details::event::buffer::Insertable::increment_type,outstation::database::details::event::buffer::Insertable::decrement_type,outstation::database::details::event::buffer::Insertable::create_event,outstation::database::details::event::buffer::Insertable::select_variation timeout=200 note="BinaryInput: the Insertable glue names its own maximum, counter and event variant, for all configurations and counter values"
    insertable_harness!(vk_c03_insertable_binary, 0, measurement::BinaryInput { value: kani::any(), flags: any_flags(), time: any_time() }, EventBinaryInputVariation::Group2Var2);
    // @harness ids=C03,C01 tier=quick kind=proof units=outstation::database::details::event::buffer::Insertable::get_max,outstation::database::details::event::buffer::Insertable::is_type timeout=200 note="DoubleBitBinaryInput: the Insertable glue names its own maximum, counter and event variant"
    insertable_harness!(vk_c03_insertable_double_bit, 1, measurement::DoubleBitBinaryInput { value: DoubleBit::Indeterminate, flags: any_flags(), time: any_time() }, EventDoubleBitBinaryInputVariation::Group4Var2);
    // @harness ids=C03,C01 tier=quick kind=proof units=outstation::database::details::event::buffer::Insertable::get_max,outstation::database::details::event::buffer::Insertable::is_type timeout=200 note="BinaryOutputStatus: the Insertable glue names its own maximum, counter and event variant"
    insertable_harness!(vk_c03_insertable_binary_output_status, 2, measurement::BinaryOutputStatus { value: kani::any(), flags: any_flags(), time: any_time() }, EventBinaryOutputStatusVariation::Group11Var2);
    // @harness ids=C03,C01 tier=quick kind=proof units=outstation::database::details::event::buffer::Insertable::get_max,outstation::database::details::event::buffer::Insertable::is_type timeout=200 note="Counter: the Insertable glue names its own maximum, counter and event variant"
    insertable_harness!(vk_c03_insertable_counter, 3, measurement::Counter { value: kani::any(), flags: any_flags(), time: any_time() }, EventCounterVariation::Group22Var5);
    // @harness ids=C03,C01 tier=quick kind=proof units=outstation::database::details::event::buffer::Insertable::get_max,outstation::database::details::event::buffer::Insertable::is_type timeout=200 note="FrozenCounter: the Insertable glue names its own maximum, counter and event variant"
    insertable_harness!(vk_c03_insertable_frozen_counter, 4, measurement::FrozenCounter { value: kani::any(), flags: any_flags(), time: any_time() }, EventFrozenCounterVariation::Group23Var5);
    // @harness ids=C03,C01 tier=quick kind=proof units=outstation::database::details::event::buffer::Insertable::get_max,outstation::database::details::event::buffer::Insertable::is_type timeout=200 note="AnalogInput: the Insertable glue names its own maximum, counter and event variant"
    insertable_harness!(vk_c03_insertable_analog, 5, measurement::AnalogInput { value: kani::any(), flags: any_flags(), time: any_time() }, EventAnalogInputVariation::Group32Var3);
    // @harness ids=C03,C01 tier=quick kind=proof units=outstation::database::details::event::buffer::Insertable::get_max,outstation::database::details::event::buffer::Insertable::is_type timeout=200 note="AnalogOutputStatus: the Insertable glue names its own maximum, counter and event variant"
    insertable_harness!(vk_c03_insertable_analog_output_status, 6, measurement::AnalogOutputStatus { value: kani::any(), flags: any_flags(), time: any_time() }, EventAnalogOutputStatusVariation::Group42Var3);
    // @harness ids=C03,C01 tier=quick kind=bounded bound="octet string content fixed to 2 bytes" units=outstation::database::details::event::buffer::Insertable::get_max,outstation::database::details::event::buffer::Insertable::is_type,outstation::database::details::event::buffer::Insertable::create_event timeout=200 note="OctetString: the Insertable glue names its own maximum, counter and event variant (2-byte sample string)"
    insertable_harness!(vk_c03_insertable_octet_string, 7, measurement::OctetString::new(&[kani::any(), kani::any()]).unwrap(), EventOctetStringVariation);
