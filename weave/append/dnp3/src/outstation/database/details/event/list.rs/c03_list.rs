    // C03 (serves C13, C01): one-step inductive contracts of the event store's container `VecList`.
    // Pre-state: ANY field-by-field symbolic state that satisfies the representation invariant `wf_view` below
    // (storage length L and free-stack length F fixed per const-generic instance, everything else symbolic).
    // Post-state: the invariant again AND the whole abstract view (sequence of (slot, version, data), oldest first)
    // changed exactly as the operation's contract says.
    //
    // Style note (measured): every overflow-checked `+`, every `a[i]` with a variable index, every `unwrap` in HARNESS code
    // becomes a Kani check plus a reachability check, and each reachable one costs ~3 MB of CBMC trace output (20 s per
    // harness went into that). Helper code below therefore uses wrapping arithmetic, `get()` and the check-free `at`/`put`.
    use crate::verif_spec as spec;

    pub(crate) const MAXN: usize = spec::EV_MAX;
    pub(crate) const NOSLOT: usize = usize::MAX;

    /// a[i] without a bounds check (d if out of range)
    pub(crate) fn at<T: Copy>(a: &[T; 4], i: usize, d: T) -> T {
        let [x0, x1, x2, x3] = *a;
        match i { 0 => x0, 1 => x1, 2 => x2, 3 => x3, _ => d }
    }
    /// a[i] = v without a bounds check (nothing if out of range)
    pub(crate) fn put<T: Copy>(a: &mut [T; 4], i: usize, v: T) {
        let [x0, x1, x2, x3] = a;
        match i { 0 => *x0 = v, 1 => *x1 = v, 2 => *x2 = v, 3 => *x3 = v, _ => {} }
    }
    pub(crate) fn inc(i: usize) -> usize { i.wrapping_add(1) }

    /// the body four times with $i = 0, 1, 2, 3: helper code has NO loops, so that #[kani::unwind] can be set to exactly what the
    /// real code's loops need (size + 1). Looser bounds make CBMC execute impossible extra iterations over a symbolic heap, which
    /// is what made remove_all / clear_written / select run out of time or memory (measured).
    macro_rules! rep4 {
        ($i:ident => $body:block) => {
            { let $i: usize = 0; $body }
            { let $i: usize = 1; $body }
            { let $i: usize = 2; $body }
            { let $i: usize = 3; $body }
        };
    }

    /// abstract view: the live elements oldest first, each with the handle (slot, version) that addresses it
    #[derive(Copy, Clone)]
    pub(crate) struct View {
        pub(crate) n: usize,
        pub(crate) slot: [usize; MAXN],
        pub(crate) ver: [u64; MAXN],
    }

    /// read slot `cur` through concrete indices only (cheaper for the solver than a symbolic offset)
    fn meta_at<T>(l: &VecList<T>, cur: usize) -> Option<(bool, MetaData)> {
        let mut r = None;
        rep4!(i => {
            if i == cur {
                if let Some(e) = l.storage.get(i) { r = Some((e.is_free, e.metadata)); }
            }
        });
        r
    }

    /// Representation invariant, written from the struct fields, and the abstract view it determines.
    ///  * storage has room for exactly CAP entries, L = storage.len() <= CAP
    ///  * the free stack holds exactly the slots < L flagged free, each once
    ///  * state = None iff no live element; otherwise size = L - F >= 1, and following `next` from `head` visits `size`
    ///    distinct live slots, ends in `tail` whose `next` is None, and every `prev` names the slot visited just before (None for head)
    ///  * every version stored in a slot is older than the list's next version (handles are never re-issued)
    pub(crate) fn wf_view<T, const CAP: usize>(l: &VecList<T>) -> (bool, View) {
        let mut v = View { n: 0, slot: [NOSLOT; MAXN], ver: [0; MAXN] };
        let len = l.storage.len();
        let f = l.free_stack.len();
        if !(CAP <= MAXN && l.storage.capacity() == CAP && len <= CAP && f <= len) {
            return (false, v);
        }
        let mut ok = true;
        let mut nfree: usize = 0;
        rep4!(i => {
            if i < CAP {
                if let Some(e) = l.storage.get(i) {
                    if e.is_free { nfree = inc(nfree); }
                    if !(e.metadata.version < l.version) { ok = false; }
                }
            }
        });
        if nfree != f { ok = false; }
        let mut fs = [NOSLOT; MAXN]; // the free stack, front first
        rep4!(a => {
            if a < CAP {
                if let Some(&x) = l.free_stack.get(a) { put(&mut fs, a, x); }
            }
        });
        rep4!(a => {
            if a < f {
                let x = at(&fs, a, NOSLOT);
                match meta_at(l, x) {
                    Some((is_free, _)) => { if !is_free { ok = false; } }
                    None => ok = false,
                }
                rep4!(b => {
                    if b < a && at(&fs, b, NOSLOT) == x { ok = false; }
                });
            }
        });
        match l.state {
            None => {
                if len != f { ok = false; }
            }
            Some(s) => {
                if s.size >= 1 && s.size <= CAP && s.size.wrapping_add(f) == len {
                    let mut cur = s.head;
                    let mut prev: Option<usize> = None;
                    rep4!(k => {
                        if ok && k < s.size {
                            match meta_at(l, cur) {
                                Some((false, m)) => {
                                    if m.prev != prev { ok = false; }
                                    rep4!(j => {
                                        if j < k && at(&v.slot, j, NOSLOT) == cur { ok = false; }
                                    });
                                    put(&mut v.slot, k, cur);
                                    put(&mut v.ver, k, m.version);
                                    prev = Some(cur);
                                    if inc(k) == s.size {
                                        if m.next.is_some() || cur != s.tail { ok = false; }
                                    } else {
                                        match m.next {
                                            Some(nx) => cur = nx,
                                            None => ok = false,
                                        }
                                    }
                                }
                                _ => ok = false,
                            }
                        }
                    });
                    v.n = s.size;
                } else {
                    ok = false;
                }
            }
        }
        (ok, v)
    }

    /// field-by-field symbolic list: L storage entries (data from `mk`), F free-stack entries, links/flags/versions/state arbitrary
    pub(crate) fn build<T, const CAP: usize, const L: usize, const F: usize>(mut mk: impl FnMut() -> T) -> VecList<T> {
        let mut l: VecList<T> = VecList::new(CAP);
        rep4!(i => {
            if i < L {
                l.storage.push(Entry {
                    data: mk(),
                    is_free: kani::any(),
                    metadata: MetaData { version: kani::any(), prev: kani::any(), next: kani::any() },
                });
            }
        });
        rep4!(j => {
            if j < F { l.free_stack.push_back(kani::any()); }
        });
        l.version = kani::any();
        l.state = if kani::any() {
            Some(State { head: kani::any(), tail: kani::any(), size: kani::any() })
        } else {
            None
        };
        l
    }

    /// one CONCRETE well-formed layout per (L, F): slots 0..F-1 are free (free stack holds F-1, .., 0), the live elements are
    /// slots L-1 down to F in list order (oldest = slot L-1), so list order differs from slot order. Versions stay symbolic.
    /// Used by the EventBuffer harnesses (see there); that the list operations behave the same for every layout is what the
    /// symbolic-layout contracts in this file prove.
    pub(crate) fn build_canonical<T, const CAP: usize, const L: usize, const F: usize>(mut mk: impl FnMut() -> T) -> VecList<T> {
        let mut l: VecList<T> = VecList::new(CAP);
        rep4!(i => {
            if i < L {
                let live = i >= F;
                l.storage.push(Entry {
                    data: mk(),
                    is_free: !live,
                    metadata: MetaData {
                        version: kani::any(),
                        prev: if live && inc(i) < L { Some(inc(i)) } else { None },
                        next: if live && i > F { Some(i.wrapping_sub(1)) } else { None },
                    },
                });
            }
        });
        rep4!(j => {
            if j < F { l.free_stack.push_back(F.wrapping_sub(1).wrapping_sub(j)); }
        });
        l.version = kani::any();
        l.state = if L > F { Some(State { head: L.wrapping_sub(1), tail: F, size: L.wrapping_sub(F) }) } else { None };
        l
    }

    pub(crate) fn data_ref<T>(l: &VecList<T>, slot: usize) -> Option<&T> {
        l.storage.get(slot).map(|e| &e.data)
    }

    pub(crate) fn next_version<T>(l: &VecList<T>) -> u64 {
        l.version
    }

    pub(crate) fn storage_len<T>(l: &VecList<T>) -> usize {
        l.storage.len()
    }

    fn datas(l: &VecList<u8>, v: &View) -> [u8; MAXN] {
        let mut per_slot = [0u8; MAXN];
        rep4!(j => {
            if let Some(e) = l.storage.get(j) { put(&mut per_slot, j, e.data); }
        });
        let mut d = [0u8; MAXN];
        rep4!(i => {
            if i < v.n { put(&mut d, i, at(&per_slot, at(&v.slot, i, NOSLOT), 0)); }
        });
        d
    }

    /// element i of `post` is element `j` of `pre` with the same handle and data
    fn same_elem(pre: &View, pd: &[u8; MAXN], j: usize, post: &View, qd: &[u8; MAXN], i: usize) -> bool {
        i < MAXN && j < MAXN && at(&post.slot, i, 0) == at(&pre.slot, j, 0) && at(&post.ver, i, 0) == at(&pre.ver, j, 0) && at(qd, i, 0) == at(pd, j, 0)
    }

    fn same_view(pre: &View, pd: &[u8; MAXN], post: &View, qd: &[u8; MAXN]) -> bool {
        let mut ok = post.n == pre.n;
        rep4!(i => {
            if i < pre.n && !same_elem(pre, pd, i, post, qd, i) { ok = false; }
        });
        ok
    }

    /// post = pre with position k deleted, order and handles of the others unchanged
    fn view_minus(pre: &View, pd: &[u8; MAXN], k: usize, post: &View, qd: &[u8; MAXN]) -> bool {
        let mut ok = inc(post.n) == pre.n;
        rep4!(i => {
            if inc(i) < pre.n && !same_elem(pre, pd, spec::ev_skip(k, i), post, qd, i) { ok = false; }
        });
        ok
    }

    /// an arbitrary predicate on u8, as far as at most MAXN distinct arguments can tell: symbolic (key -> answer) pairs, first
    /// matching key wins, symbolic default. Every predicate restricted to the <= MAXN element values is one of these.
    #[derive(Copy, Clone)]
    struct Pred { keys: [u8; MAXN], vals: [bool; MAXN], other: bool }
    impl Pred {
        fn any() -> Self {
            Pred { keys: [kani::any(), kani::any(), kani::any(), kani::any()], vals: [kani::any(), kani::any(), kani::any(), kani::any()], other: kani::any() }
        }
        fn eval(&self, x: u8) -> bool {
            let [k0, k1, k2, k3] = self.keys;
            let [v0, v1, v2, v3] = self.vals;
            if k0 == x { v0 } else if k1 == x { v1 } else if k2 == x { v2 } else if k3 == x { v3 } else { self.other }
        }
        fn on(&self, d: &[u8; MAXN], n: usize) -> [bool; MAXN] {
            let [d0, d1, d2, d3] = *d;
            [0 < n && self.eval(d0), 1 < n && self.eval(d1), 2 < n && self.eval(d2), 3 < n && self.eval(d3)]
        }
    }

    fn any_wf<const CAP: usize, const L: usize, const F: usize>() -> (VecList<u8>, View, [u8; MAXN]) {
        let l = build::<u8, CAP, L, F>(|| kani::any());
        let (ok, v) = wf_view::<u8, CAP>(&l);
        kani::assume(ok); // @assume: representation invariant of the pre-state (inductive hypothesis)
        let d = datas(&l, &v);
        (l, v, d)
    }

    // ---- add: appends at the tail with a fresh handle, or fails when full leaving everything unchanged
    fn add_contract<const CAP: usize, const L: usize, const F: usize>() {
        let (mut l, pre, pd) = any_wf::<CAP, L, F>();
        kani::assume(l.version < u64::MAX); // @assume: fewer than 2^64-1 insertions so far (version counter has not wrapped)
        let v0 = l.version;
        let item: u8 = kani::any();
        let r = l.add(item);
        let (ok, post) = wf_view::<u8, CAP>(&l);
        assert!(ok, "add: representation invariant restored");
        let qd = datas(&l, &post);
        let good = match r {
            None => pre.n == CAP && same_view(&pre, &pd, &post, &qd),
            Some(h) => {
                let mut g = pre.n < CAP && post.n == inc(pre.n);
                rep4!(i => {
                    if i < pre.n && !same_elem(&pre, &pd, i, &post, &qd, i) { g = false; }
                });
                g && at(&post.slot, pre.n, NOSLOT) == h.value && at(&post.ver, pre.n, 0) == h.version && at(&qd, pre.n, 0) == item && pre.n < MAXN && h.version == v0
            }
        };
        assert!(good, "add: full list refuses and is unchanged; otherwise exactly one more element, last, addressed by the returned fresh handle, earlier elements keep position/handle/data");
        assert!(l.len() == post.n);
        kani::cover!(if L - F == CAP { r.is_none() } else { r.is_some() && post.n == L - F + 1 });
    }

    // ---- remove_at: removes exactly the addressed element iff slot is live and the version matches
    fn remove_at_contract<const CAP: usize, const L: usize, const F: usize>() {
        let (mut l, pre, pd) = any_wf::<CAP, L, F>();
        let idx = Index { version: kani::any(), value: kani::any() };
        let mut hit = MAXN;
        rep4!(i => {
            if i < pre.n && at(&pre.slot, i, NOSLOT) == idx.value && at(&pre.ver, i, 0) == idx.version { hit = i; }
        });
        let r = l.remove_at(idx);
        let (ok, post) = wf_view::<u8, CAP>(&l);
        assert!(ok, "remove_at: representation invariant restored");
        let qd = datas(&l, &post);
        assert!(r == (hit < MAXN), "remove_at: true iff a live element has exactly this handle");
        assert!(if hit < MAXN { view_minus(&pre, &pd, hit, &post, &qd) } else { same_view(&pre, &pd, &post, &qd) },
            "remove_at: exactly that element removed, others keep order/handles/data; stale or foreign handle changes nothing");
        kani::cover!(if L - F > 0 { hit < MAXN && hit + 1 == pre.n } else { !r });
        kani::cover!(if L - F > 1 { hit == 0 } else { !r });
        kani::cover!(if L - F > 0 { !r && idx.value == at(&pre.slot, 0, NOSLOT) } else { !r });
    }

    // ---- remove_first(pred): removes the oldest element satisfying pred and returns its data
    fn remove_first_contract<const CAP: usize, const L: usize, const F: usize>() {
        let (mut l, pre, pd) = any_wf::<CAP, L, F>();
        let table = Pred::any();
        let m = table.on(&pd, pre.n);
        let k = spec::ev_first(&m, pre.n);
        let r: Option<u8> = l.remove_first(|x| table.eval(*x)).copied();
        let (ok, post) = wf_view::<u8, CAP>(&l);
        assert!(ok, "remove_first: representation invariant restored");
        let qd = datas(&l, &post);
        assert!(if k < pre.n { r == Some(at(&pd, k, 0)) && view_minus(&pre, &pd, k, &post, &qd) } else { r.is_none() && same_view(&pre, &pd, &post, &qd) },
            "remove_first: exactly the oldest match removed and its data returned; None and unchanged iff nothing matches");
        kani::cover!(if L - F > 1 { k == 1 } else { true });
        kani::cover!(if L - F > 0 { k == 0 } else { r.is_none() });
        kani::cover!(k == pre.n);
    }

    // ---- remove_all(pred): removes exactly the elements for which pred answered true; pred is asked once per element, oldest first.
    // The answers are a concrete bit pattern per instance (MASK bit k = answer to the k-th question): with symbolic answers the
    // free stack's LENGTH becomes symbolic after the first removal and VecDeque::grow makes CBMC run out of time (measured).
    // All 2^size patterns are enumerated, so every predicate behaviour on a list of that size is covered.
    fn remove_all_contract<const CAP: usize, const L: usize, const F: usize, const MASK: usize>() {
        let (mut l, pre, pd) = any_wf::<CAP, L, F>();
        let mut asked = [0u8; MAXN];
        let mut n_asked: usize = 0;
        let r = l.remove_all(|x| {
            put(&mut asked, n_asked, *x);
            let answer = n_asked < MAXN && (MASK >> n_asked) & 1 == 1;
            n_asked = inc(n_asked);
            answer
        });
        let (ok, post) = wf_view::<u8, CAP>(&l);
        assert!(ok, "remove_all: representation invariant restored");
        let qd = datas(&l, &post);
        let mut good = n_asked == pre.n;
        let mut kept: usize = 0;
        rep4!(i => {
            if i < pre.n {
                if at(&asked, i, 0) != at(&pd, i, 0) { good = false; }
                if (MASK >> i) & 1 == 0 {
                    if !(kept < post.n && same_elem(&pre, &pd, i, &post, &qd, kept)) { good = false; }
                    kept = inc(kept);
                }
            }
        });
        assert!(good && post.n == kept && r == pre.n.wrapping_sub(kept),
            "remove_all: predicate asked once per element oldest first; exactly the accepted elements removed; survivors keep order/handle/data; returns number removed");
        kani::cover!(r.wrapping_add(post.n) == L - F);
    }

    // ---- iteration / find_first: visits the sequence oldest first with the right handles; nothing changes
    fn iter_contract<const CAP: usize, const L: usize, const F: usize>() {
        let (l, pre, pd) = any_wf::<CAP, L, F>();
        let mut it = l.iter();
        let mut good = true;
        rep4!(i => {
            if i < pre.n {
                match it.next() {
                    Some((h, d)) => { if !(h.value == at(&pre.slot, i, NOSLOT) && h.version == at(&pre.ver, i, 0) && *d == at(&pd, i, 0)) { good = false; } }
                    None => good = false,
                }
            }
        });
        assert!(good && it.next().is_none(), "iter: yields exactly the live elements oldest first with their handles, then ends");
        let table = Pred::any();
        let m = table.on(&pd, pre.n);
        let k = spec::ev_first(&m, pre.n);
        let f = l.find_first(&|x: &u8| table.eval(*x));
        assert!(match f { Some(h) => k < pre.n && h.value == at(&pre.slot, k, NOSLOT) && h.version == at(&pre.ver, k, 0), None => k == pre.n },
            "find_first: handle of the oldest match, None iff nothing matches");
        assert!(l.len() == pre.n && l.is_full() == (pre.n == CAP));
        let (ok, post) = wf_view::<u8, CAP>(&l);
        assert!(ok && same_view(&pre, &pd, &post, &datas(&l, &post)));
        kani::cover!(if L - F > 1 { k == 1 } else { k == pre.n });
    }

    // ---- base case: the empty list satisfies the invariant
    // @harness ids=C03,C01 tier=quick kind=proof units=outstation::database::details::event::list::VecList::new timeout=120 note="a new list of capacity 3 satisfies the representation invariant with an empty sequence (base case of the induction)"
    #[kani::proof]
    #[kani::unwind(2)]
    fn vk_c03_list_new() {
        let l: VecList<u8> = VecList::new(3);
        let (ok, v) = wf_view::<u8, 3>(&l);
        assert!(ok && v.n == 0 && l.len() == 0 && !l.is_full());
        assert!(l.iter().next().is_none());
        kani::cover!(ok);
    }

    // $u = unwind bound = number of live elements + 1 (what the real loops need; the helpers have none)
    macro_rules! list_harness {
        ($name:ident, $contract:ident, $u:expr, $cap:expr, $l:expr, $f:expr) => {
            #[kani::proof]
            #[kani::unwind($u)]
            fn $name() {
                $contract::<$cap, $l, $f>();
            }
        };
        ($name:ident, $contract:ident, $u:expr, $cap:expr, $l:expr, $f:expr, $mask:expr) => {
            #[kani::proof]
            #[kani::unwind($u)]
            fn $name() {
                $contract::<$cap, $l, $f, $mask>();
            }
        };
    }

//@@INSTANCES@@
    // @harness ids=C03 tier=quick kind=bounded bound="capacity=3 (storage length 0, free-stack length 0; all contents, links, versions symbolic under the invariant)" units=outstation::database::details::event::list::VecList::add timeout=250 note="add appends at the tail under a fresh handle, earlier elements keep order/handle/data; a full list refuses and is unchanged; invariant restored"
    list_harness!(vk_c03_list_add_c3_l0_f0, add_contract, 1, 3, 0, 0);
    // @harness ids=C03 tier=thorough kind=bounded bound="capacity=3 (storage length 0, free-stack length 0; all contents, links, versions symbolic under the invariant)" units=outstation::database::details::event::list::VecList::remove_at timeout=250 note="for every handle value: removes exactly the addressed element iff the slot is live and the version matches, order of the others unchanged, else nothing changes; invariant restored"
    list_harness!(vk_c03_list_remove_at_c3_l0_f0, remove_at_contract, 1, 3, 0, 0);
    // @harness ids=C03 tier=thorough kind=bounded bound="capacity=3 (storage length 0, free-stack length 0; all contents, links, versions symbolic under the invariant)" units=outstation::database::details::event::list::VecList::remove_first,outstation::database::details::event::list::VecList::find_first timeout=250 note="for every predicate (symbolic truth table): removes exactly the oldest matching element and returns its data, None and unchanged iff none matches; invariant restored"
    list_harness!(vk_c03_list_remove_first_c3_l0_f0, remove_first_contract, 1, 3, 0, 0);
    // @harness ids=C03 tier=thorough kind=bounded bound="capacity=3 (storage length 0, free-stack length 0; all contents, links, versions symbolic under the invariant)" units=outstation::database::details::event::list::VecList::iter,outstation::database::details::event::list::ListIterator::next,outstation::database::details::event::list::VecList::find_first,outstation::database::details::event::list::VecList::len,outstation::database::details::event::list::VecList::is_full timeout=250 note="iteration yields exactly the live elements oldest first with their handles; find_first returns the oldest match; nothing changes"
    list_harness!(vk_c03_list_iter_c3_l0_f0, iter_contract, 1, 3, 0, 0);
    // @harness ids=C03 tier=thorough kind=bounded bound="capacity=3 (storage length 0, free-stack length 0, predicate answers = bits of 0; all contents, links, versions symbolic under the invariant)" units=outstation::database::details::event::list::VecList::remove_all timeout=250 note="the predicate is asked once per element oldest first; exactly the elements it accepts are removed, survivors keep order/handle/data; returns the number removed; invariant restored (all 2^size answer patterns enumerated)"
    list_harness!(vk_c03_list_remove_all_c3_l0_f0_m0, remove_all_contract, 1, 3, 0, 0, 0);
    // @harness ids=C03 tier=quick kind=bounded bound="capacity=3 (storage length 1, free-stack length 0; all contents, links, versions symbolic under the invariant)" units=outstation::database::details::event::list::VecList::add timeout=250 note="add appends at the tail under a fresh handle, earlier elements keep order/handle/data; a full list refuses and is unchanged; invariant restored"
    list_harness!(vk_c03_list_add_c3_l1_f0, add_contract, 2, 3, 1, 0);
    // @harness ids=C03 tier=thorough kind=bounded bound="capacity=3 (storage length 1, free-stack length 0; all contents, links, versions symbolic under the invariant)" units=outstation::database::details::event::list::VecList::remove_at timeout=250 note="for every handle value: removes exactly the addressed element iff the slot is live and the version matches, order of the others unchanged, else nothing changes; invariant restored"
    list_harness!(vk_c03_list_remove_at_c3_l1_f0, remove_at_contract, 2, 3, 1, 0);
    // @harness ids=C03 tier=thorough kind=bounded bound="capacity=3 (storage length 1, free-stack length 0; all contents, links, versions symbolic under the invariant)" units=outstation::database::details::event::list::VecList::remove_first,outstation::database::details::event::list::VecList::find_first timeout=250 note="for every predicate (symbolic truth table): removes exactly the oldest matching element and returns its data, None and unchanged iff none matches; invariant restored"
    list_harness!(vk_c03_list_remove_first_c3_l1_f0, remove_first_contract, 2, 3, 1, 0);
    // @harness ids=C03 tier=thorough kind=bounded bound="capacity=3 (storage length 1, free-stack length 0; all contents, links, versions symbolic under the invariant)" units=outstation::database::details::event::list::VecList::iter,outstation::database::details::event::list::ListIterator::next,outstation::database::details::event::list::VecList::find_first,outstation::database::details::event::list::VecList::len,outstation::database::details::event::list::VecList::is_full timeout=250 note="iteration yields exactly the live elements oldest first with their handles; find_first returns the oldest match; nothing changes"
    list_harness!(vk_c03_list_iter_c3_l1_f0, iter_contract, 2, 3, 1, 0);
    // @harness ids=C03 tier=thorough kind=bounded bound="capacity=3 (storage length 1, free-stack length 0, predicate answers = bits of 0; all contents, links, versions symbolic under the invariant)" units=outstation::database::details::event::list::VecList::remove_all timeout=250 note="the predicate is asked once per element oldest first; exactly the elements it accepts are removed, survivors keep order/handle/data; returns the number removed; invariant restored (all 2^size answer patterns enumerated)"
    list_harness!(vk_c03_list_remove_all_c3_l1_f0_m0, remove_all_contract, 2, 3, 1, 0, 0);
    // @harness ids=C03 tier=thorough kind=bounded bound="capacity=3 (storage length 1, free-stack length 0, predicate answers = bits of 1; all contents, links, versions symbolic under the invariant)" units=outstation::database::details::event::list::VecList::remove_all timeout=250 note="the predicate is asked once per element oldest first; exactly the elements it accepts are removed, survivors keep order/handle/data; returns the number removed; invariant restored (all 2^size answer patterns enumerated)"
    list_harness!(vk_c03_list_remove_all_c3_l1_f0_m1, remove_all_contract, 2, 3, 1, 0, 1);
    // @harness ids=C03 tier=quick kind=bounded bound="capacity=3 (storage length 1, free-stack length 1; all contents, links, versions symbolic under the invariant)" units=outstation::database::details::event::list::VecList::add timeout=250 note="add appends at the tail under a fresh handle, earlier elements keep order/handle/data; a full list refuses and is unchanged; invariant restored"
    list_harness!(vk_c03_list_add_c3_l1_f1, add_contract, 1, 3, 1, 1);
    // @harness ids=C03 tier=thorough kind=bounded bound="capacity=3 (storage length 1, free-stack length 1; all contents, links, versions symbolic under the invariant)" units=outstation::database::details::event::list::VecList::remove_at timeout=250 note="for every handle value: removes exactly the addressed element iff the slot is live and the version matches, order of the others unchanged, else nothing changes; invariant restored"
    list_harness!(vk_c03_list_remove_at_c3_l1_f1, remove_at_contract, 1, 3, 1, 1);
    // @harness ids=C03 tier=thorough kind=bounded bound="capacity=3 (storage length 1, free-stack length 1; all contents, links, versions symbolic under the invariant)" units=outstation::database::details::event::list::VecList::remove_first,outstation::database::details::event::list::VecList::find_first timeout=250 note="for every predicate (symbolic truth table): removes exactly the oldest matching element and returns its data, None and unchanged iff none matches; invariant restored"
    list_harness!(vk_c03_list_remove_first_c3_l1_f1, remove_first_contract, 1, 3, 1, 1);
    // @harness ids=C03 tier=thorough kind=bounded bound="capacity=3 (storage length 1, free-stack length 1; all contents, links, versions symbolic under the invariant)" units=outstation::database::details::event::list::VecList::iter,outstation::database::details::event::list::ListIterator::next,outstation::database::details::event::list::VecList::find_first,outstation::database::details::event::list::VecList::len,outstation::database::details::event::list::VecList::is_full timeout=250 note="iteration yields exactly the live elements oldest first with their handles; find_first returns the oldest match; nothing changes"
    list_harness!(vk_c03_list_iter_c3_l1_f1, iter_contract, 1, 3, 1, 1);
    // @harness ids=C03 tier=thorough kind=bounded bound="capacity=3 (storage length 1, free-stack length 1, predicate answers = bits of 0; all contents, links, versions symbolic under the invariant)" units=outstation::database::details::event::list::VecList::remove_all timeout=250 note="the predicate is asked once per element oldest first; exactly the elements it accepts are removed, survivors keep order/handle/data; returns the number removed; invariant restored (all 2^size answer patterns enumerated)"
    list_harness!(vk_c03_list_remove_all_c3_l1_f1_m0, remove_all_contract, 1, 3, 1, 1, 0);
    // @harness ids=C03 tier=quick kind=bounded bound="capacity=3 (storage length 2, free-stack length 0; all contents, links, versions symbolic under the invariant)" units=outstation::database::details::event::list::VecList::add timeout=250 note="add appends at the tail under a fresh handle, earlier elements keep order/handle/data; a full list refuses and is unchanged; invariant restored"
    list_harness!(vk_c03_list_add_c3_l2_f0, add_contract, 3, 3, 2, 0);
    // @harness ids=C03 tier=thorough kind=bounded bound="capacity=3 (storage length 2, free-stack length 0; all contents, links, versions symbolic under the invariant)" units=outstation::database::details::event::list::VecList::remove_at timeout=250 note="for every handle value: removes exactly the addressed element iff the slot is live and the version matches, order of the others unchanged, else nothing changes; invariant restored"
    list_harness!(vk_c03_list_remove_at_c3_l2_f0, remove_at_contract, 3, 3, 2, 0);
    // @harness ids=C03 tier=thorough kind=bounded bound="capacity=3 (storage length 2, free-stack length 0; all contents, links, versions symbolic under the invariant)" units=outstation::database::details::event::list::VecList::remove_first,outstation::database::details::event::list::VecList::find_first timeout=250 note="for every predicate (symbolic truth table): removes exactly the oldest matching element and returns its data, None and unchanged iff none matches; invariant restored"
    list_harness!(vk_c03_list_remove_first_c3_l2_f0, remove_first_contract, 3, 3, 2, 0);
    // @harness ids=C03 tier=thorough kind=bounded bound="capacity=3 (storage length 2, free-stack length 0; all contents, links, versions symbolic under the invariant)" units=outstation::database::details::event::list::VecList::iter,outstation::database::details::event::list::ListIterator::next,outstation::database::details::event::list::VecList::find_first,outstation::database::details::event::list::VecList::len,outstation::database::details::event::list::VecList::is_full timeout=250 note="iteration yields exactly the live elements oldest first with their handles; find_first returns the oldest match; nothing changes"
    list_harness!(vk_c03_list_iter_c3_l2_f0, iter_contract, 3, 3, 2, 0);
    // @harness ids=C03 tier=thorough kind=bounded bound="capacity=3 (storage length 2, free-stack length 0, predicate answers = bits of 0; all contents, links, versions symbolic under the invariant)" units=outstation::database::details::event::list::VecList::remove_all timeout=250 note="the predicate is asked once per element oldest first; exactly the elements it accepts are removed, survivors keep order/handle/data; returns the number removed; invariant restored (all 2^size answer patterns enumerated)"
    list_harness!(vk_c03_list_remove_all_c3_l2_f0_m0, remove_all_contract, 3, 3, 2, 0, 0);
    // @harness ids=C03 tier=thorough kind=bounded bound="capacity=3 (storage length 2, free-stack length 0, predicate answers = bits of 1; all contents, links, versions symbolic under the invariant)" units=outstation::database::details::event::list::VecList::remove_all timeout=250 note="the predicate is asked once per element oldest first; exactly the elements it accepts are removed, survivors keep order/handle/data; returns the number removed; invariant restored (all 2^size answer patterns enumerated)"
    list_harness!(vk_c03_list_remove_all_c3_l2_f0_m1, remove_all_contract, 3, 3, 2, 0, 1);
    // @harness ids=C03 tier=thorough kind=bounded bound="capacity=3 (storage length 2, free-stack length 0, predicate answers = bits of 2; all contents, links, versions symbolic under the invariant)" units=outstation::database::details::event::list::VecList::remove_all timeout=250 note="the predicate is asked once per element oldest first; exactly the elements it accepts are removed, survivors keep order/handle/data; returns the number removed; invariant restored (all 2^size answer patterns enumerated)"
    list_harness!(vk_c03_list_remove_all_c3_l2_f0_m2, remove_all_contract, 3, 3, 2, 0, 2);
    // @harness ids=C03 tier=thorough kind=bounded bound="capacity=3 (storage length 2, free-stack length 0, predicate answers = bits of 3; all contents, links, versions symbolic under the invariant)" units=outstation::database::details::event::list::VecList::remove_all timeout=250 note="the predicate is asked once per element oldest first; exactly the elements it accepts are removed, survivors keep order/handle/data; returns the number removed; invariant restored (all 2^size answer patterns enumerated)"
    list_harness!(vk_c03_list_remove_all_c3_l2_f0_m3, remove_all_contract, 3, 3, 2, 0, 3);
    // @harness ids=C03 tier=quick kind=bounded bound="capacity=3 (storage length 2, free-stack length 1; all contents, links, versions symbolic under the invariant)" units=outstation::database::details::event::list::VecList::add timeout=250 note="add appends at the tail under a fresh handle, earlier elements keep order/handle/data; a full list refuses and is unchanged; invariant restored"
    list_harness!(vk_c03_list_add_c3_l2_f1, add_contract, 2, 3, 2, 1);
    // @harness ids=C03 tier=thorough kind=bounded bound="capacity=3 (storage length 2, free-stack length 1; all contents, links, versions symbolic under the invariant)" units=outstation::database::details::event::list::VecList::remove_at timeout=250 note="for every handle value: removes exactly the addressed element iff the slot is live and the version matches, order of the others unchanged, else nothing changes; invariant restored"
    list_harness!(vk_c03_list_remove_at_c3_l2_f1, remove_at_contract, 2, 3, 2, 1);
    // @harness ids=C03 tier=thorough kind=bounded bound="capacity=3 (storage length 2, free-stack length 1; all contents, links, versions symbolic under the invariant)" units=outstation::database::details::event::list::VecList::remove_first,outstation::database::details::event::list::VecList::find_first timeout=250 note="for every predicate (symbolic truth table): removes exactly the oldest matching element and returns its data, None and unchanged iff none matches; invariant restored"
    list_harness!(vk_c03_list_remove_first_c3_l2_f1, remove_first_contract, 2, 3, 2, 1);
    // @harness ids=C03 tier=thorough kind=bounded bound="capacity=3 (storage length 2, free-stack length 1; all contents, links, versions symbolic under the invariant)" units=outstation::database::details::event::list::VecList::iter,outstation::database::details::event::list::ListIterator::next,outstation::database::details::event::list::VecList::find_first,outstation::database::details::event::list::VecList::len,outstation::database::details::event::list::VecList::is_full timeout=250 note="iteration yields exactly the live elements oldest first with their handles; find_first returns the oldest match; nothing changes"
    list_harness!(vk_c03_list_iter_c3_l2_f1, iter_contract, 2, 3, 2, 1);
    // @harness ids=C03 tier=thorough kind=bounded bound="capacity=3 (storage length 2, free-stack length 1, predicate answers = bits of 0; all contents, links, versions symbolic under the invariant)" units=outstation::database::details::event::list::VecList::remove_all timeout=250 note="the predicate is asked once per element oldest first; exactly the elements it accepts are removed, survivors keep order/handle/data; returns the number removed; invariant restored (all 2^size answer patterns enumerated)"
    list_harness!(vk_c03_list_remove_all_c3_l2_f1_m0, remove_all_contract, 2, 3, 2, 1, 0);
    // @harness ids=C03 tier=thorough kind=bounded bound="capacity=3 (storage length 2, free-stack length 1, predicate answers = bits of 1; all contents, links, versions symbolic under the invariant)" units=outstation::database::details::event::list::VecList::remove_all timeout=250 note="the predicate is asked once per element oldest first; exactly the elements it accepts are removed, survivors keep order/handle/data; returns the number removed; invariant restored (all 2^size answer patterns enumerated)"
    list_harness!(vk_c03_list_remove_all_c3_l2_f1_m1, remove_all_contract, 2, 3, 2, 1, 1);
    // @harness ids=C03 tier=quick kind=bounded bound="capacity=3 (storage length 2, free-stack length 2; all contents, links, versions symbolic under the invariant)" units=outstation::database::details::event::list::VecList::add timeout=250 note="add appends at the tail under a fresh handle, earlier elements keep order/handle/data; a full list refuses and is unchanged; invariant restored"
    list_harness!(vk_c03_list_add_c3_l2_f2, add_contract, 1, 3, 2, 2);
    // @harness ids=C03 tier=thorough kind=bounded bound="capacity=3 (storage length 2, free-stack length 2; all contents, links, versions symbolic under the invariant)" units=outstation::database::details::event::list::VecList::remove_at timeout=250 note="for every handle value: removes exactly the addressed element iff the slot is live and the version matches, order of the others unchanged, else nothing changes; invariant restored"
    list_harness!(vk_c03_list_remove_at_c3_l2_f2, remove_at_contract, 1, 3, 2, 2);
    // @harness ids=C03 tier=thorough kind=bounded bound="capacity=3 (storage length 2, free-stack length 2; all contents, links, versions symbolic under the invariant)" units=outstation::database::details::event::list::VecList::remove_first,outstation::database::details::event::list::VecList::find_first timeout=250 note="for every predicate (symbolic truth table): removes exactly the oldest matching element and returns its data, None and unchanged iff none matches; invariant restored"
    list_harness!(vk_c03_list_remove_first_c3_l2_f2, remove_first_contract, 1, 3, 2, 2);
    // @harness ids=C03 tier=thorough kind=bounded bound="capacity=3 (storage length 2, free-stack length 2; all contents, links, versions symbolic under the invariant)" units=outstation::database::details::event::list::VecList::iter,outstation::database::details::event::list::ListIterator::next,outstation::database::details::event::list::VecList::find_first,outstation::database::details::event::list::VecList::len,outstation::database::details::event::list::VecList::is_full timeout=250 note="iteration yields exactly the live elements oldest first with their handles; find_first returns the oldest match; nothing changes"
    list_harness!(vk_c03_list_iter_c3_l2_f2, iter_contract, 1, 3, 2, 2);
    // @harness ids=C03 tier=thorough kind=bounded bound="capacity=3 (storage length 2, free-stack length 2, predicate answers = bits of 0; all contents, links, versions symbolic under the invariant)" units=outstation::database::details::event::list::VecList::remove_all timeout=250 note="the predicate is asked once per element oldest first; exactly the elements it accepts are removed, survivors keep order/handle/data; returns the number removed; invariant restored (all 2^size answer patterns enumerated)"
    list_harness!(vk_c03_list_remove_all_c3_l2_f2_m0, remove_all_contract, 1, 3, 2, 2, 0);
    // @harness ids=C03 tier=quick kind=bounded bound="capacity=3 (storage length 3, free-stack length 0; all contents, links, versions symbolic under the invariant)" units=outstation::database::details::event::list::VecList::add timeout=250 note="add appends at the tail under a fresh handle, earlier elements keep order/handle/data; a full list refuses and is unchanged; invariant restored"
    list_harness!(vk_c03_list_add_c3_l3_f0, add_contract, 4, 3, 3, 0);
    // @harness ids=C03 tier=quick kind=bounded bound="capacity=3 (storage length 3, free-stack length 0; all contents, links, versions symbolic under the invariant)" units=outstation::database::details::event::list::VecList::remove_at timeout=250 note="for every handle value: removes exactly the addressed element iff the slot is live and the version matches, order of the others unchanged, else nothing changes; invariant restored"
    list_harness!(vk_c03_list_remove_at_c3_l3_f0, remove_at_contract, 4, 3, 3, 0);
    // @harness ids=C03 tier=quick kind=bounded bound="capacity=3 (storage length 3, free-stack length 0; all contents, links, versions symbolic under the invariant)" units=outstation::database::details::event::list::VecList::remove_first,outstation::database::details::event::list::VecList::find_first timeout=250 note="for every predicate (symbolic truth table): removes exactly the oldest matching element and returns its data, None and unchanged iff none matches; invariant restored"
    list_harness!(vk_c03_list_remove_first_c3_l3_f0, remove_first_contract, 4, 3, 3, 0);
    // @harness ids=C03 tier=quick kind=bounded bound="capacity=3 (storage length 3, free-stack length 0; all contents, links, versions symbolic under the invariant)" units=outstation::database::details::event::list::VecList::iter,outstation::database::details::event::list::ListIterator::next,outstation::database::details::event::list::VecList::find_first,outstation::database::details::event::list::VecList::len,outstation::database::details::event::list::VecList::is_full timeout=250 note="iteration yields exactly the live elements oldest first with their handles; find_first returns the oldest match; nothing changes"
    list_harness!(vk_c03_list_iter_c3_l3_f0, iter_contract, 4, 3, 3, 0);
    // @harness ids=C03 tier=quick kind=bounded bound="capacity=3 (storage length 3, free-stack length 0, predicate answers = bits of 0; all contents, links, versions symbolic under the invariant)" units=outstation::database::details::event::list::VecList::remove_all timeout=250 note="the predicate is asked once per element oldest first; exactly the elements it accepts are removed, survivors keep order/handle/data; returns the number removed; invariant restored (all 2^size answer patterns enumerated)"
    list_harness!(vk_c03_list_remove_all_c3_l3_f0_m0, remove_all_contract, 4, 3, 3, 0, 0);
    // @harness ids=C03 tier=quick kind=bounded bound="capacity=3 (storage length 3, free-stack length 0, predicate answers = bits of 1; all contents, links, versions symbolic under the invariant)" units=outstation::database::details::event::list::VecList::remove_all timeout=250 note="the predicate is asked once per element oldest first; exactly the elements it accepts are removed, survivors keep order/handle/data; returns the number removed; invariant restored (all 2^size answer patterns enumerated)"
    list_harness!(vk_c03_list_remove_all_c3_l3_f0_m1, remove_all_contract, 4, 3, 3, 0, 1);
    // @harness ids=C03 tier=quick kind=bounded bound="capacity=3 (storage length 3, free-stack length 0, predicate answers = bits of 2; all contents, links, versions symbolic under the invariant)" units=outstation::database::details::event::list::VecList::remove_all timeout=250 note="the predicate is asked once per element oldest first; exactly the elements it accepts are removed, survivors keep order/handle/data; returns the number removed; invariant restored (all 2^size answer patterns enumerated)"
    list_harness!(vk_c03_list_remove_all_c3_l3_f0_m2, remove_all_contract, 4, 3, 3, 0, 2);
    // @harness ids=C03 tier=quick kind=bounded bound="capacity=3 (storage length 3, free-stack length 0, predicate answers = bits of 3; all contents, links, versions symbolic under the invariant)" units=outstation::database::details::event::list::VecList::remove_all timeout=250 note="the predicate is asked once per element oldest first; exactly the elements it accepts are removed, survivors keep order/handle/data; returns the number removed; invariant restored (all 2^size answer patterns enumerated)"
    list_harness!(vk_c03_list_remove_all_c3_l3_f0_m3, remove_all_contract, 4, 3, 3, 0, 3);
    // @harness ids=C03 tier=quick kind=bounded bound="capacity=3 (storage length 3, free-stack length 0, predicate answers = bits of 4; all contents, links, versions symbolic under the invariant)" units=outstation::database::details::event::list::VecList::remove_all timeout=250 note="the predicate is asked once per element oldest first; exactly the elements it accepts are removed, survivors keep order/handle/data; returns the number removed; invariant restored (all 2^size answer patterns enumerated)"
    list_harness!(vk_c03_list_remove_all_c3_l3_f0_m4, remove_all_contract, 4, 3, 3, 0, 4);
    // @harness ids=C03 tier=quick kind=bounded bound="capacity=3 (storage length 3, free-stack length 0, predicate answers = bits of 5; all contents, links, versions symbolic under the invariant)" units=outstation::database::details::event::list::VecList::remove_all timeout=250 note="the predicate is asked once per element oldest first; exactly the elements it accepts are removed, survivors keep order/handle/data; returns the number removed; invariant restored (all 2^size answer patterns enumerated)"
    list_harness!(vk_c03_list_remove_all_c3_l3_f0_m5, remove_all_contract, 4, 3, 3, 0, 5);
    // @harness ids=C03 tier=quick kind=bounded bound="capacity=3 (storage length 3, free-stack length 0, predicate answers = bits of 6; all contents, links, versions symbolic under the invariant)" units=outstation::database::details::event::list::VecList::remove_all timeout=250 note="the predicate is asked once per element oldest first; exactly the elements it accepts are removed, survivors keep order/handle/data; returns the number removed; invariant restored (all 2^size answer patterns enumerated)"
    list_harness!(vk_c03_list_remove_all_c3_l3_f0_m6, remove_all_contract, 4, 3, 3, 0, 6);
    // @harness ids=C03 tier=quick kind=bounded bound="capacity=3 (storage length 3, free-stack length 1; all contents, links, versions symbolic under the invariant)" units=outstation::database::details::event::list::VecList::add timeout=250 note="add appends at the tail under a fresh handle, earlier elements keep order/handle/data; a full list refuses and is unchanged; invariant restored"
    list_harness!(vk_c03_list_add_c3_l3_f1, add_contract, 3, 3, 3, 1);
    // @harness ids=C03 tier=quick kind=bounded bound="capacity=3 (storage length 3, free-stack length 1; all contents, links, versions symbolic under the invariant)" units=outstation::database::details::event::list::VecList::remove_at timeout=250 note="for every handle value: removes exactly the addressed element iff the slot is live and the version matches, order of the others unchanged, else nothing changes; invariant restored"
    list_harness!(vk_c03_list_remove_at_c3_l3_f1, remove_at_contract, 3, 3, 3, 1);
    // @harness ids=C03 tier=quick kind=bounded bound="capacity=3 (storage length 3, free-stack length 1; all contents, links, versions symbolic under the invariant)" units=outstation::database::details::event::list::VecList::remove_first,outstation::database::details::event::list::VecList::find_first timeout=250 note="for every predicate (symbolic truth table): removes exactly the oldest matching element and returns its data, None and unchanged iff none matches; invariant restored"
    list_harness!(vk_c03_list_remove_first_c3_l3_f1, remove_first_contract, 3, 3, 3, 1);
    // @harness ids=C03 tier=quick kind=bounded bound="capacity=3 (storage length 3, free-stack length 1; all contents, links, versions symbolic under the invariant)" units=outstation::database::details::event::list::VecList::iter,outstation::database::details::event::list::ListIterator::next,outstation::database::details::event::list::VecList::find_first,outstation::database::details::event::list::VecList::len,outstation::database::details::event::list::VecList::is_full timeout=250 note="iteration yields exactly the live elements oldest first with their handles; find_first returns the oldest match; nothing changes"
    list_harness!(vk_c03_list_iter_c3_l3_f1, iter_contract, 3, 3, 3, 1);
    // @harness ids=C03 tier=quick kind=bounded bound="capacity=3 (storage length 3, free-stack length 1, predicate answers = bits of 0; all contents, links, versions symbolic under the invariant)" units=outstation::database::details::event::list::VecList::remove_all timeout=250 note="the predicate is asked once per element oldest first; exactly the elements it accepts are removed, survivors keep order/handle/data; returns the number removed; invariant restored (all 2^size answer patterns enumerated)"
    list_harness!(vk_c03_list_remove_all_c3_l3_f1_m0, remove_all_contract, 3, 3, 3, 1, 0);
    // @harness ids=C03 tier=quick kind=bounded bound="capacity=3 (storage length 3, free-stack length 1, predicate answers = bits of 1; all contents, links, versions symbolic under the invariant)" units=outstation::database::details::event::list::VecList::remove_all timeout=250 note="the predicate is asked once per element oldest first; exactly the elements it accepts are removed, survivors keep order/handle/data; returns the number removed; invariant restored (all 2^size answer patterns enumerated)"
    list_harness!(vk_c03_list_remove_all_c3_l3_f1_m1, remove_all_contract, 3, 3, 3, 1, 1);
    // @harness ids=C03 tier=quick kind=bounded bound="capacity=3 (storage length 3, free-stack length 1, predicate answers = bits of 2; all contents, links, versions symbolic under the invariant)" units=outstation::database::details::event::list::VecList::remove_all timeout=250 note="the predicate is asked once per element oldest first; exactly the elements it accepts are removed, survivors keep order/handle/data; returns the number removed; invariant restored (all 2^size answer patterns enumerated)"
    list_harness!(vk_c03_list_remove_all_c3_l3_f1_m2, remove_all_contract, 3, 3, 3, 1, 2);
    // @harness ids=C03 tier=quick kind=bounded bound="capacity=3 (storage length 3, free-stack length 1, predicate answers = bits of 3; all contents, links, versions symbolic under the invariant)" units=outstation::database::details::event::list::VecList::remove_all timeout=250 note="the predicate is asked once per element oldest first; exactly the elements it accepts are removed, survivors keep order/handle/data; returns the number removed; invariant restored (all 2^size answer patterns enumerated)"
    list_harness!(vk_c03_list_remove_all_c3_l3_f1_m3, remove_all_contract, 3, 3, 3, 1, 3);
    // @harness ids=C03 tier=quick kind=bounded bound="capacity=3 (storage length 3, free-stack length 2; all contents, links, versions symbolic under the invariant)" units=outstation::database::details::event::list::VecList::add timeout=250 note="add appends at the tail under a fresh handle, earlier elements keep order/handle/data; a full list refuses and is unchanged; invariant restored"
    list_harness!(vk_c03_list_add_c3_l3_f2, add_contract, 2, 3, 3, 2);
    // @harness ids=C03 tier=quick kind=bounded bound="capacity=3 (storage length 3, free-stack length 2; all contents, links, versions symbolic under the invariant)" units=outstation::database::details::event::list::VecList::remove_at timeout=250 note="for every handle value: removes exactly the addressed element iff the slot is live and the version matches, order of the others unchanged, else nothing changes; invariant restored"
    list_harness!(vk_c03_list_remove_at_c3_l3_f2, remove_at_contract, 2, 3, 3, 2);
    // @harness ids=C03 tier=quick kind=bounded bound="capacity=3 (storage length 3, free-stack length 2; all contents, links, versions symbolic under the invariant)" units=outstation::database::details::event::list::VecList::remove_first,outstation::database::details::event::list::VecList::find_first timeout=250 note="for every predicate (symbolic truth table): removes exactly the oldest matching element and returns its data, None and unchanged iff none matches; invariant restored"
    list_harness!(vk_c03_list_remove_first_c3_l3_f2, remove_first_contract, 2, 3, 3, 2);
    // @harness ids=C03 tier=quick kind=bounded bound="capacity=3 (storage length 3, free-stack length 2; all contents, links, versions symbolic under the invariant)" units=outstation::database::details::event::list::VecList::iter,outstation::database::details::event::list::ListIterator::next,outstation::database::details::event::list::VecList::find_first,outstation::database::details::event::list::VecList::len,outstation::database::details::event::list::VecList::is_full timeout=250 note="iteration yields exactly the live elements oldest first with their handles; find_first returns the oldest match; nothing changes"
    list_harness!(vk_c03_list_iter_c3_l3_f2, iter_contract, 2, 3, 3, 2);
    // @harness ids=C03 tier=quick kind=bounded bound="capacity=3 (storage length 3, free-stack length 2, predicate answers = bits of 0; all contents, links, versions symbolic under the invariant)" units=outstation::database::details::event::list::VecList::remove_all timeout=250 note="the predicate is asked once per element oldest first; exactly the elements it accepts are removed, survivors keep order/handle/data; returns the number removed; invariant restored (all 2^size answer patterns enumerated)"
    list_harness!(vk_c03_list_remove_all_c3_l3_f2_m0, remove_all_contract, 2, 3, 3, 2, 0);
    // @harness ids=C03 tier=quick kind=bounded bound="capacity=3 (storage length 3, free-stack length 2, predicate answers = bits of 1; all contents, links, versions symbolic under the invariant)" units=outstation::database::details::event::list::VecList::remove_all timeout=250 note="the predicate is asked once per element oldest first; exactly the elements it accepts are removed, survivors keep order/handle/data; returns the number removed; invariant restored (all 2^size answer patterns enumerated)"
    list_harness!(vk_c03_list_remove_all_c3_l3_f2_m1, remove_all_contract, 2, 3, 3, 2, 1);
    // @harness ids=C03 tier=quick kind=bounded bound="capacity=3 (storage length 3, free-stack length 3; all contents, links, versions symbolic under the invariant)" units=outstation::database::details::event::list::VecList::add timeout=250 note="add appends at the tail under a fresh handle, earlier elements keep order/handle/data; a full list refuses and is unchanged; invariant restored"
    list_harness!(vk_c03_list_add_c3_l3_f3, add_contract, 1, 3, 3, 3);
    // @harness ids=C03 tier=quick kind=bounded bound="capacity=3 (storage length 3, free-stack length 3; all contents, links, versions symbolic under the invariant)" units=outstation::database::details::event::list::VecList::remove_at timeout=250 note="for every handle value: removes exactly the addressed element iff the slot is live and the version matches, order of the others unchanged, else nothing changes; invariant restored"
    list_harness!(vk_c03_list_remove_at_c3_l3_f3, remove_at_contract, 1, 3, 3, 3);
    // @harness ids=C03 tier=quick kind=bounded bound="capacity=3 (storage length 3, free-stack length 3; all contents, links, versions symbolic under the invariant)" units=outstation::database::details::event::list::VecList::remove_first,outstation::database::details::event::list::VecList::find_first timeout=250 note="for every predicate (symbolic truth table): removes exactly the oldest matching element and returns its data, None and unchanged iff none matches; invariant restored"
    list_harness!(vk_c03_list_remove_first_c3_l3_f3, remove_first_contract, 1, 3, 3, 3);
    // @harness ids=C03 tier=quick kind=bounded bound="capacity=3 (storage length 3, free-stack length 3; all contents, links, versions symbolic under the invariant)" units=outstation::database::details::event::list::VecList::iter,outstation::database::details::event::list::ListIterator::next,outstation::database::details::event::list::VecList::find_first,outstation::database::details::event::list::VecList::len,outstation::database::details::event::list::VecList::is_full timeout=250 note="iteration yields exactly the live elements oldest first with their handles; find_first returns the oldest match; nothing changes"
    list_harness!(vk_c03_list_iter_c3_l3_f3, iter_contract, 1, 3, 3, 3);
    // @harness ids=C03 tier=quick kind=bounded bound="capacity=3 (storage length 3, free-stack length 3, predicate answers = bits of 0; all contents, links, versions symbolic under the invariant)" units=outstation::database::details::event::list::VecList::remove_all timeout=250 note="the predicate is asked once per element oldest first; exactly the elements it accepts are removed, survivors keep order/handle/data; returns the number removed; invariant restored (all 2^size answer patterns enumerated)"
    list_harness!(vk_c03_list_remove_all_c3_l3_f3_m0, remove_all_contract, 1, 3, 3, 3, 0);
    // @harness ids=C03 tier=thorough kind=bounded bound="capacity=2 (storage length 0, free-stack length 0; all contents, links, versions symbolic under the invariant)" units=outstation::database::details::event::list::VecList::add timeout=250 note="add appends at the tail under a fresh handle, earlier elements keep order/handle/data; a full list refuses and is unchanged; invariant restored"
    list_harness!(vk_c03_list_add_c2_l0_f0, add_contract, 1, 2, 0, 0);
    // @harness ids=C03 tier=thorough kind=bounded bound="capacity=2 (storage length 0, free-stack length 0; all contents, links, versions symbolic under the invariant)" units=outstation::database::details::event::list::VecList::remove_at timeout=250 note="for every handle value: removes exactly the addressed element iff the slot is live and the version matches, order of the others unchanged, else nothing changes; invariant restored"
    list_harness!(vk_c03_list_remove_at_c2_l0_f0, remove_at_contract, 1, 2, 0, 0);
    // @harness ids=C03 tier=thorough kind=bounded bound="capacity=2 (storage length 0, free-stack length 0; all contents, links, versions symbolic under the invariant)" units=outstation::database::details::event::list::VecList::remove_first,outstation::database::details::event::list::VecList::find_first timeout=250 note="for every predicate (symbolic truth table): removes exactly the oldest matching element and returns its data, None and unchanged iff none matches; invariant restored"
    list_harness!(vk_c03_list_remove_first_c2_l0_f0, remove_first_contract, 1, 2, 0, 0);
    // @harness ids=C03 tier=thorough kind=bounded bound="capacity=2 (storage length 0, free-stack length 0; all contents, links, versions symbolic under the invariant)" units=outstation::database::details::event::list::VecList::iter,outstation::database::details::event::list::ListIterator::next,outstation::database::details::event::list::VecList::find_first,outstation::database::details::event::list::VecList::len,outstation::database::details::event::list::VecList::is_full timeout=250 note="iteration yields exactly the live elements oldest first with their handles; find_first returns the oldest match; nothing changes"
    list_harness!(vk_c03_list_iter_c2_l0_f0, iter_contract, 1, 2, 0, 0);
    // @harness ids=C03 tier=thorough kind=bounded bound="capacity=2 (storage length 0, free-stack length 0, predicate answers = bits of 0; all contents, links, versions symbolic under the invariant)" units=outstation::database::details::event::list::VecList::remove_all timeout=250 note="the predicate is asked once per element oldest first; exactly the elements it accepts are removed, survivors keep order/handle/data; returns the number removed; invariant restored (all 2^size answer patterns enumerated)"
    list_harness!(vk_c03_list_remove_all_c2_l0_f0_m0, remove_all_contract, 1, 2, 0, 0, 0);
    // @harness ids=C03 tier=thorough kind=bounded bound="capacity=2 (storage length 1, free-stack length 0; all contents, links, versions symbolic under the invariant)" units=outstation::database::details::event::list::VecList::add timeout=250 note="add appends at the tail under a fresh handle, earlier elements keep order/handle/data; a full list refuses and is unchanged; invariant restored"
    list_harness!(vk_c03_list_add_c2_l1_f0, add_contract, 2, 2, 1, 0);
    // @harness ids=C03 tier=thorough kind=bounded bound="capacity=2 (storage length 1, free-stack length 0; all contents, links, versions symbolic under the invariant)" units=outstation::database::details::event::list::VecList::remove_at timeout=250 note="for every handle value: removes exactly the addressed element iff the slot is live and the version matches, order of the others unchanged, else nothing changes; invariant restored"
    list_harness!(vk_c03_list_remove_at_c2_l1_f0, remove_at_contract, 2, 2, 1, 0);
    // @harness ids=C03 tier=thorough kind=bounded bound="capacity=2 (storage length 1, free-stack length 0; all contents, links, versions symbolic under the invariant)" units=outstation::database::details::event::list::VecList::remove_first,outstation::database::details::event::list::VecList::find_first timeout=250 note="for every predicate (symbolic truth table): removes exactly the oldest matching element and returns its data, None and unchanged iff none matches; invariant restored"
    list_harness!(vk_c03_list_remove_first_c2_l1_f0, remove_first_contract, 2, 2, 1, 0);
    // @harness ids=C03 tier=thorough kind=bounded bound="capacity=2 (storage length 1, free-stack length 0; all contents, links, versions symbolic under the invariant)" units=outstation::database::details::event::list::VecList::iter,outstation::database::details::event::list::ListIterator::next,outstation::database::details::event::list::VecList::find_first,outstation::database::details::event::list::VecList::len,outstation::database::details::event::list::VecList::is_full timeout=250 note="iteration yields exactly the live elements oldest first with their handles; find_first returns the oldest match; nothing changes"
    list_harness!(vk_c03_list_iter_c2_l1_f0, iter_contract, 2, 2, 1, 0);
    // @harness ids=C03 tier=thorough kind=bounded bound="capacity=2 (storage length 1, free-stack length 0, predicate answers = bits of 0; all contents, links, versions symbolic under the invariant)" units=outstation::database::details::event::list::VecList::remove_all timeout=250 note="the predicate is asked once per element oldest first; exactly the elements it accepts are removed, survivors keep order/handle/data; returns the number removed; invariant restored (all 2^size answer patterns enumerated)"
    list_harness!(vk_c03_list_remove_all_c2_l1_f0_m0, remove_all_contract, 2, 2, 1, 0, 0);
    // @harness ids=C03 tier=thorough kind=bounded bound="capacity=2 (storage length 1, free-stack length 0, predicate answers = bits of 1; all contents, links, versions symbolic under the invariant)" units=outstation::database::details::event::list::VecList::remove_all timeout=250 note="the predicate is asked once per element oldest first; exactly the elements it accepts are removed, survivors keep order/handle/data; returns the number removed; invariant restored (all 2^size answer patterns enumerated)"
    list_harness!(vk_c03_list_remove_all_c2_l1_f0_m1, remove_all_contract, 2, 2, 1, 0, 1);
    // @harness ids=C03 tier=thorough kind=bounded bound="capacity=2 (storage length 1, free-stack length 1; all contents, links, versions symbolic under the invariant)" units=outstation::database::details::event::list::VecList::add timeout=250 note="add appends at the tail under a fresh handle, earlier elements keep order/handle/data; a full list refuses and is unchanged; invariant restored"
    list_harness!(vk_c03_list_add_c2_l1_f1, add_contract, 1, 2, 1, 1);
    // @harness ids=C03 tier=thorough kind=bounded bound="capacity=2 (storage length 1, free-stack length 1; all contents, links, versions symbolic under the invariant)" units=outstation::database::details::event::list::VecList::remove_at timeout=250 note="for every handle value: removes exactly the addressed element iff the slot is live and the version matches, order of the others unchanged, else nothing changes; invariant restored"
    list_harness!(vk_c03_list_remove_at_c2_l1_f1, remove_at_contract, 1, 2, 1, 1);
    // @harness ids=C03 tier=thorough kind=bounded bound="capacity=2 (storage length 1, free-stack length 1; all contents, links, versions symbolic under the invariant)" units=outstation::database::details::event::list::VecList::remove_first,outstation::database::details::event::list::VecList::find_first timeout=250 note="for every predicate (symbolic truth table): removes exactly the oldest matching element and returns its data, None and unchanged iff none matches; invariant restored"
    list_harness!(vk_c03_list_remove_first_c2_l1_f1, remove_first_contract, 1, 2, 1, 1);
    // @harness ids=C03 tier=thorough kind=bounded bound="capacity=2 (storage length 1, free-stack length 1; all contents, links, versions symbolic under the invariant)" units=outstation::database::details::event::list::VecList::iter,outstation::database::details::event::list::ListIterator::next,outstation::database::details::event::list::VecList::find_first,outstation::database::details::event::list::VecList::len,outstation::database::details::event::list::VecList::is_full timeout=250 note="iteration yields exactly the live elements oldest first with their handles; find_first returns the oldest match; nothing changes"
    list_harness!(vk_c03_list_iter_c2_l1_f1, iter_contract, 1, 2, 1, 1);
    // @harness ids=C03 tier=thorough kind=bounded bound="capacity=2 (storage length 1, free-stack length 1, predicate answers = bits of 0; all contents, links, versions symbolic under the invariant)" units=outstation::database::details::event::list::VecList::remove_all timeout=250 note="the predicate is asked once per element oldest first; exactly the elements it accepts are removed, survivors keep order/handle/data; returns the number removed; invariant restored (all 2^size answer patterns enumerated)"
    list_harness!(vk_c03_list_remove_all_c2_l1_f1_m0, remove_all_contract, 1, 2, 1, 1, 0);
    // @harness ids=C03 tier=thorough kind=bounded bound="capacity=2 (storage length 2, free-stack length 0; all contents, links, versions symbolic under the invariant)" units=outstation::database::details::event::list::VecList::add timeout=250 note="add appends at the tail under a fresh handle, earlier elements keep order/handle/data; a full list refuses and is unchanged; invariant restored"
    list_harness!(vk_c03_list_add_c2_l2_f0, add_contract, 3, 2, 2, 0);
    // @harness ids=C03 tier=thorough kind=bounded bound="capacity=2 (storage length 2, free-stack length 0; all contents, links, versions symbolic under the invariant)" units=outstation::database::details::event::list::VecList::remove_at timeout=250 note="for every handle value: removes exactly the addressed element iff the slot is live and the version matches, order of the others unchanged, else nothing changes; invariant restored"
    list_harness!(vk_c03_list_remove_at_c2_l2_f0, remove_at_contract, 3, 2, 2, 0);
    // @harness ids=C03 tier=thorough kind=bounded bound="capacity=2 (storage length 2, free-stack length 0; all contents, links, versions symbolic under the invariant)" units=outstation::database::details::event::list::VecList::remove_first,outstation::database::details::event::list::VecList::find_first timeout=250 note="for every predicate (symbolic truth table): removes exactly the oldest matching element and returns its data, None and unchanged iff none matches; invariant restored"
    list_harness!(vk_c03_list_remove_first_c2_l2_f0, remove_first_contract, 3, 2, 2, 0);
    // @harness ids=C03 tier=thorough kind=bounded bound="capacity=2 (storage length 2, free-stack length 0; all contents, links, versions symbolic under the invariant)" units=outstation::database::details::event::list::VecList::iter,outstation::database::details::event::list::ListIterator::next,outstation::database::details::event::list::VecList::find_first,outstation::database::details::event::list::VecList::len,outstation::database::details::event::list::VecList::is_full timeout=250 note="iteration yields exactly the live elements oldest first with their handles; find_first returns the oldest match; nothing changes"
    list_harness!(vk_c03_list_iter_c2_l2_f0, iter_contract, 3, 2, 2, 0);
    // @harness ids=C03 tier=thorough kind=bounded bound="capacity=2 (storage length 2, free-stack length 0, predicate answers = bits of 0; all contents, links, versions symbolic under the invariant)" units=outstation::database::details::event::list::VecList::remove_all timeout=250 note="the predicate is asked once per element oldest first; exactly the elements it accepts are removed, survivors keep order/handle/data; returns the number removed; invariant restored (all 2^size answer patterns enumerated)"
    list_harness!(vk_c03_list_remove_all_c2_l2_f0_m0, remove_all_contract, 3, 2, 2, 0, 0);
    // @harness ids=C03 tier=thorough kind=bounded bound="capacity=2 (storage length 2, free-stack length 0, predicate answers = bits of 1; all contents, links, versions symbolic under the invariant)" units=outstation::database::details::event::list::VecList::remove_all timeout=250 note="the predicate is asked once per element oldest first; exactly the elements it accepts are removed, survivors keep order/handle/data; returns the number removed; invariant restored (all 2^size answer patterns enumerated)"
    list_harness!(vk_c03_list_remove_all_c2_l2_f0_m1, remove_all_contract, 3, 2, 2, 0, 1);
    // @harness ids=C03 tier=thorough kind=bounded bound="capacity=2 (storage length 2, free-stack length 0, predicate answers = bits of 2; all contents, links, versions symbolic under the invariant)" units=outstation::database::details::event::list::VecList::remove_all timeout=250 note="the predicate is asked once per element oldest first; exactly the elements it accepts are removed, survivors keep order/handle/data; returns the number removed; invariant restored (all 2^size answer patterns enumerated)"
    list_harness!(vk_c03_list_remove_all_c2_l2_f0_m2, remove_all_contract, 3, 2, 2, 0, 2);
    // @harness ids=C03 tier=thorough kind=bounded bound="capacity=2 (storage length 2, free-stack length 0, predicate answers = bits of 3; all contents, links, versions symbolic under the invariant)" units=outstation::database::details::event::list::VecList::remove_all timeout=250 note="the predicate is asked once per element oldest first; exactly the elements it accepts are removed, survivors keep order/handle/data; returns the number removed; invariant restored (all 2^size answer patterns enumerated)"
    list_harness!(vk_c03_list_remove_all_c2_l2_f0_m3, remove_all_contract, 3, 2, 2, 0, 3);
    // @harness ids=C03 tier=thorough kind=bounded bound="capacity=2 (storage length 2, free-stack length 1; all contents, links, versions symbolic under the invariant)" units=outstation::database::details::event::list::VecList::add timeout=250 note="add appends at the tail under a fresh handle, earlier elements keep order/handle/data; a full list refuses and is unchanged; invariant restored"
    list_harness!(vk_c03_list_add_c2_l2_f1, add_contract, 2, 2, 2, 1);
    // @harness ids=C03 tier=thorough kind=bounded bound="capacity=2 (storage length 2, free-stack length 1; all contents, links, versions symbolic under the invariant)" units=outstation::database::details::event::list::VecList::remove_at timeout=250 note="for every handle value: removes exactly the addressed element iff the slot is live and the version matches, order of the others unchanged, else nothing changes; invariant restored"
    list_harness!(vk_c03_list_remove_at_c2_l2_f1, remove_at_contract, 2, 2, 2, 1);
    // @harness ids=C03 tier=thorough kind=bounded bound="capacity=2 (storage length 2, free-stack length 1; all contents, links, versions symbolic under the invariant)" units=outstation::database::details::event::list::VecList::remove_first,outstation::database::details::event::list::VecList::find_first timeout=250 note="for every predicate (symbolic truth table): removes exactly the oldest matching element and returns its data, None and unchanged iff none matches; invariant restored"
    list_harness!(vk_c03_list_remove_first_c2_l2_f1, remove_first_contract, 2, 2, 2, 1);
    // @harness ids=C03 tier=thorough kind=bounded bound="capacity=2 (storage length 2, free-stack length 1; all contents, links, versions symbolic under the invariant)" units=outstation::database::details::event::list::VecList::iter,outstation::database::details::event::list::ListIterator::next,outstation::database::details::event::list::VecList::find_first,outstation::database::details::event::list::VecList::len,outstation::database::details::event::list::VecList::is_full timeout=250 note="iteration yields exactly the live elements oldest first with their handles; find_first returns the oldest match; nothing changes"
    list_harness!(vk_c03_list_iter_c2_l2_f1, iter_contract, 2, 2, 2, 1);
    // @harness ids=C03 tier=thorough kind=bounded bound="capacity=2 (storage length 2, free-stack length 1, predicate answers = bits of 0; all contents, links, versions symbolic under the invariant)" units=outstation::database::details::event::list::VecList::remove_all timeout=250 note="the predicate is asked once per element oldest first; exactly the elements it accepts are removed, survivors keep order/handle/data; returns the number removed; invariant restored (all 2^size answer patterns enumerated)"
    list_harness!(vk_c03_list_remove_all_c2_l2_f1_m0, remove_all_contract, 2, 2, 2, 1, 0);
    // @harness ids=C03 tier=thorough kind=bounded bound="capacity=2 (storage length 2, free-stack length 1, predicate answers = bits of 1; all contents, links, versions symbolic under the invariant)" units=outstation::database::details::event::list::VecList::remove_all timeout=250 note="the predicate is asked once per element oldest first; exactly the elements it accepts are removed, survivors keep order/handle/data; returns the number removed; invariant restored (all 2^size answer patterns enumerated)"
    list_harness!(vk_c03_list_remove_all_c2_l2_f1_m1, remove_all_contract, 2, 2, 2, 1, 1);
    // @harness ids=C03 tier=thorough kind=bounded bound="capacity=2 (storage length 2, free-stack length 2; all contents, links, versions symbolic under the invariant)" units=outstation::database::details::event::list::VecList::add timeout=250 note="add appends at the tail under a fresh handle, earlier elements keep order/handle/data; a full list refuses and is unchanged; invariant restored"
    list_harness!(vk_c03_list_add_c2_l2_f2, add_contract, 1, 2, 2, 2);
    // @harness ids=C03 tier=thorough kind=bounded bound="capacity=2 (storage length 2, free-stack length 2; all contents, links, versions symbolic under the invariant)" units=outstation::database::details::event::list::VecList::remove_at timeout=250 note="for every handle value: removes exactly the addressed element iff the slot is live and the version matches, order of the others unchanged, else nothing changes; invariant restored"
    list_harness!(vk_c03_list_remove_at_c2_l2_f2, remove_at_contract, 1, 2, 2, 2);
    // @harness ids=C03 tier=thorough kind=bounded bound="capacity=2 (storage length 2, free-stack length 2; all contents, links, versions symbolic under the invariant)" units=outstation::database::details::event::list::VecList::remove_first,outstation::database::details::event::list::VecList::find_first timeout=250 note="for every predicate (symbolic truth table): removes exactly the oldest matching element and returns its data, None and unchanged iff none matches; invariant restored"
    list_harness!(vk_c03_list_remove_first_c2_l2_f2, remove_first_contract, 1, 2, 2, 2);
    // @harness ids=C03 tier=thorough kind=bounded bound="capacity=2 (storage length 2, free-stack length 2; all contents, links, versions symbolic under the invariant)" units=outstation::database::details::event::list::VecList::iter,outstation::database::details::event::list::ListIterator::next,outstation::database::details::event::list::VecList::find_first,outstation::database::details::event::list::VecList::len,outstation::database::details::event::list::VecList::is_full timeout=250 note="iteration yields exactly the live elements oldest first with their handles; find_first returns the oldest match; nothing changes"
    list_harness!(vk_c03_list_iter_c2_l2_f2, iter_contract, 1, 2, 2, 2);
    // @harness ids=C03 tier=thorough kind=bounded bound="capacity=2 (storage length 2, free-stack length 2, predicate answers = bits of 0; all contents, links, versions symbolic under the invariant)" units=outstation::database::details::event::list::VecList::remove_all timeout=250 note="the predicate is asked once per element oldest first; exactly the elements it accepts are removed, survivors keep order/handle/data; returns the number removed; invariant restored (all 2^size answer patterns enumerated)"
    list_harness!(vk_c03_list_remove_all_c2_l2_f2_m0, remove_all_contract, 1, 2, 2, 2, 0);
