    // C03 (serves C13, C01): one-step inductive contracts of the outstation event store `EventBuffer`.
    // Pre-state: ANY state, built field by field from kani::any(), that satisfies the representation invariant `inv`
    // (capacity <= 3 records, event types Binary (max MA) and Counter (max MB) enabled, all other maxima 0).
    // Post-state: `inv` again AND the whole abstract view (records oldest first with id, index, class, type, value, flags,
    // time, variations, state; counters; overflow flag) changed exactly as the property demands.
    // Helper code is written without overflow-checked arithmetic / variable indexing / unwrap (see the note in c03_list.rs).
    use crate::verif_spec as spec;
    use crate::outstation::database::details::event::list::verif_kani_c03_list as vl;
    use crate::outstation::database::details::event::list::verif_kani_c03_list::{at, put, inc};
    use crate::app::measurement::{Flags, Time};
    use crate::app::Timestamp;

    macro_rules! rep4 {
        ($i:ident => $body:block) => {
            { let $i: usize = 0; $body }
            { let $i: usize = 1; $body }
            { let $i: usize = 2; $body }
            { let $i: usize = 3; $body }
        };
    }

    const MAXN: usize = spec::EV_MAX;
    const UNSEL: u8 = spec::EV_UNSELECTED;
    const SEL: u8 = spec::EV_SELECTED;
    const WRITTEN: u8 = spec::EV_WRITTEN;
    // type codes = position of the type's maximum in EventBufferConfig
    const TY_BINARY: u8 = 0;
    const TY_COUNTER: u8 = 3;

    /// what was recorded: must never change while the record is in the store
    #[derive(Copy, Clone, PartialEq)]
    struct Data { id: u64, index: u16, class: u8, ty: u8, val: u32, flags: u8, tkind: u8, tval: u64, dflt: u8 }

    #[derive(Copy, Clone, PartialEq)]
    struct Rec { data: Data, sel: u8, state: u8 }

    const NOREC: Rec = Rec { data: Data { id: 0, index: 0, class: 0, ty: 0, val: 0, flags: 0, tkind: 0, tval: 0, dflt: 0 }, sel: 0, state: 0 };

    /// abstract view of the store: records oldest first (slot = where the list keeps the record, used only to address it)
    #[derive(Copy, Clone)]
    struct Abs { ok_list: bool, n: usize, r: [Rec; MAXN], slot: [usize; MAXN] }

    fn class_code(c: EventClass) -> u8 {
        match c { EventClass::Class1 => 0, EventClass::Class2 => 1, EventClass::Class3 => 2 }
    }
    fn state_code(s: EventState) -> u8 {
        match s { EventState::Unselected => UNSEL, EventState::Selected => SEL, EventState::Written => WRITTEN }
    }
    fn time_code(t: Option<Time>) -> (u8, u64) {
        match t {
            None => (0, 0),
            Some(Time::Synchronized(ts)) => (1, ts.raw_value()),
            Some(Time::Unsynchronized(ts)) => (2, ts.raw_value()),
        }
    }

    fn snap(rec: &EventRecord) -> Rec {
        let (ty, val, flags, time, dflt, sel) = match &rec.event {
            Event::Binary(m, v) => (TY_BINARY, m.value as u32, m.flags.value, m.time, v.default as u8, v.selected.get() as u8),
            Event::Counter(m, v) => (TY_COUNTER, m.value, m.flags.value, m.time, v.default as u8, v.selected.get() as u8),
            Event::DoubleBitBinary(_, _) => (1, 0, 0, None, 0, 0),
            Event::BinaryOutputStatus(_, _) => (2, 0, 0, None, 0, 0),
            Event::FrozenCounter(_, _) => (4, 0, 0, None, 0, 0),
            Event::Analog(_, _) => (5, 0, 0, None, 0, 0),
            Event::AnalogOutputStatus(_, _) => (6, 0, 0, None, 0, 0),
            Event::OctetString(_, _) => (7, 0, 0, None, 0, 0),
        };
        let (tkind, tval) = time_code(time);
        Rec {
            data: Data { id: rec.id, index: rec.index, class: class_code(rec.class), ty, val, flags, tkind, tval, dflt },
            sel,
            state: state_code(rec.state.get()),
        }
    }

    fn abs<const CAP: usize>(b: &EventBuffer) -> Abs {
        let (ok, v) = vl::wf_view::<EventRecord, CAP>(&b.events);
        let mut a = Abs { ok_list: ok, n: 0, r: [NOREC; MAXN], slot: v.slot };
        if ok {
            a.n = v.n;
            // one snapshot per storage slot (concrete index), then picked by the slot number of the i-th oldest record
            let mut per_slot = [NOREC; MAXN];
            rep4!(j => {
                if let Some(rec) = vl::data_ref(&b.events, j) { put(&mut per_slot, j, snap(rec)); }
            });
            rep4!(i => {
                if i < v.n { put(&mut a.r, i, at(&per_slot, at(&v.slot, i, vl::NOSLOT), NOREC)); }
            });
        }
        a
    }

    /// number of records per type / class: all of them, and those awaiting confirmation (w*). `other` = any of the six
    /// types whose maximum is 0 in the harness configurations.
    #[derive(Copy, Clone, PartialEq)]
    struct Counts { bin: usize, ctr: usize, other: usize, c1: usize, c2: usize, c3: usize, wbin: usize, wctr: usize, wother: usize, wc1: usize, wc2: usize, wc3: usize }
    fn b2u(x: bool) -> usize { if x { 1 } else { 0 } }
    fn counts(a: &Abs) -> Counts {
        let mut k = Counts { bin: 0, ctr: 0, other: 0, c1: 0, c2: 0, c3: 0, wbin: 0, wctr: 0, wother: 0, wc1: 0, wc2: 0, wc3: 0 };
        rep4!(i => {
            if i < a.n {
                let r = at(&a.r, i, NOREC);
                let w = r.state == WRITTEN;
                let (is_bin, is_ctr) = (r.data.ty == TY_BINARY, r.data.ty == TY_COUNTER);
                k.bin = k.bin.wrapping_add(b2u(is_bin));
                k.ctr = k.ctr.wrapping_add(b2u(is_ctr));
                k.other = k.other.wrapping_add(b2u(!is_bin && !is_ctr));
                k.c1 = k.c1.wrapping_add(b2u(r.data.class == 0));
                k.c2 = k.c2.wrapping_add(b2u(r.data.class == 1));
                k.c3 = k.c3.wrapping_add(b2u(r.data.class == 2));
                k.wbin = k.wbin.wrapping_add(b2u(w && is_bin));
                k.wctr = k.wctr.wrapping_add(b2u(w && is_ctr));
                k.wother = k.wother.wrapping_add(b2u(w && !is_bin && !is_ctr));
                k.wc1 = k.wc1.wrapping_add(b2u(w && r.data.class == 0));
                k.wc2 = k.wc2.wrapping_add(b2u(w && r.data.class == 1));
                k.wc3 = k.wc3.wrapping_add(b2u(w && r.data.class == 2));
            }
        });
        k
    }

    /// the six counters of types that are disabled in the harness configurations are all zero
    fn others_zero(c: &TypeCounter) -> bool {
        c.num_double_binary.value == 0 && c.num_binary_output_status.value == 0 && c.num_frozen_counter.value == 0
            && c.num_analog.value == 0 && c.num_analog_output_status.value == 0 && c.num_octet_string.value == 0
    }
    fn others_disabled(c: &EventBufferConfig) -> bool {
        c.max_double_binary == 0 && c.max_binary_output_status == 0 && c.max_frozen_counter == 0 && c.max_analog == 0
            && c.max_analog_output_status == 0 && c.max_octet_string == 0
    }

    /// some enabled type (max > 0) holds as many records as its maximum
    fn any_type_at_capacity(b: &EventBuffer, k: &Counts) -> bool {
        (b.config.max_binary > 0 && k.bin >= b.config.max_binary as usize) || (b.config.max_counter > 0 && k.ctr >= b.config.max_counter as usize)
    }

    /// the representation invariant, piece by piece (each piece is asserted separately so that a failure names it)
    struct Inv { list: bool, totals: bool, written: bool, bounds: bool, ids: bool, ovf: bool }

    fn inv(b: &EventBuffer, a: &Abs) -> Inv {
        let k = counts(a);
        let totals = b.total.types.num_binary.value == k.bin && b.total.types.num_counter.value == k.ctr && others_zero(&b.total.types) && k.other == 0
            && b.total.classes.num_class_1.value == k.c1 && b.total.classes.num_class_2.value == k.c2 && b.total.classes.num_class_3.value == k.c3;
        let written = b.written.types.num_binary.value == k.wbin && b.written.types.num_counter.value == k.wctr && others_zero(&b.written.types) && k.wother == 0
            && b.written.classes.num_class_1.value == k.wc1 && b.written.classes.num_class_2.value == k.wc2 && b.written.classes.num_class_3.value == k.wc3;
        let bounds = others_disabled(&b.config) && k.bin <= b.config.max_binary as usize && k.ctr <= b.config.max_counter as usize && k.other == 0;
        let mut ids = true;
        rep4!(i => {
            if i < a.n && !(at(&a.r, i, NOREC).data.id < b.next) { ids = false; }
            if inc(i) < a.n && !(at(&a.r, i, NOREC).data.id < at(&a.r, inc(i), NOREC).data.id) { ids = false; }
        });
        let ovf = !b.is_overflown || any_type_at_capacity(b, &k);
        Inv { list: a.ok_list, totals, written, bounds, ids, ovf }
    }

    /// everything of the store besides the records
    #[derive(Copy, Clone, PartialEq)]
    struct Raw { t: (usize, usize, usize, usize, usize, usize, usize, usize), c: (usize, usize, usize) }
    fn raw(c: &Counters) -> Raw {
        Raw {
            t: (c.types.num_binary.value, c.types.num_double_binary.value, c.types.num_binary_output_status.value, c.types.num_counter.value,
                c.types.num_frozen_counter.value, c.types.num_analog.value, c.types.num_analog_output_status.value, c.types.num_octet_string.value),
            c: (c.classes.num_class_1.value, c.classes.num_class_2.value, c.classes.num_class_3.value),
        }
    }
    const RAW_ZERO: Raw = Raw { t: (0, 0, 0, 0, 0, 0, 0, 0), c: (0, 0, 0) };
    #[derive(Copy, Clone, PartialEq)]
    struct Misc { ovf: bool, next: u64, config: EventBufferConfig }
    #[derive(Copy, Clone, PartialEq)]
    struct Frame { total: Raw, written: Raw, misc: Misc }
    fn frame(b: &EventBuffer) -> Frame {
        Frame { total: raw(&b.total), written: raw(&b.written), misc: Misc { ovf: b.is_overflown, next: b.next, config: b.config } }
    }

    fn same_records(pre: &Abs, post: &Abs) -> bool {
        let mut ok = pre.n == post.n;
        rep4!(i => {
            if i < pre.n && !(at(&pre.r, i, NOREC) == at(&post.r, i, NOREC)) { ok = false; }
        });
        ok
    }

    // ---- arbitrary values
    fn any_class() -> EventClass {
        let k: u8 = kani::any();
        if k == 0 { EventClass::Class1 } else if k == 1 { EventClass::Class2 } else { EventClass::Class3 }
    }
    fn any_state() -> EventState {
        let k: u8 = kani::any();
        if k == 0 { EventState::Unselected } else if k == 1 { EventState::Selected } else { EventState::Written }
    }
    fn any_time() -> Option<Time> {
        let k: u8 = kani::any();
        let v: u64 = kani::any();
        if k == 0 { None } else if k == 1 { Some(Time::Synchronized(Timestamp::new(v))) } else { Some(Time::Unsynchronized(Timestamp::new(v))) }
    }
    fn any_bin_var() -> EventBinaryInputVariation {
        let k: u8 = kani::any();
        if k == 0 { EventBinaryInputVariation::Group2Var1 } else if k == 1 { EventBinaryInputVariation::Group2Var2 } else { EventBinaryInputVariation::Group2Var3 }
    }
    fn any_ctr_var() -> EventCounterVariation {
        let k: u8 = kani::any();
        if k == 0 { EventCounterVariation::Group22Var1 } else if k == 1 { EventCounterVariation::Group22Var2 } else if k == 2 { EventCounterVariation::Group22Var5 } else { EventCounterVariation::Group22Var6 }
    }
    fn any_binary() -> measurement::BinaryInput {
        measurement::BinaryInput { value: kani::any(), flags: Flags { value: kani::any() }, time: any_time() }
    }
    fn any_counter() -> measurement::Counter {
        measurement::Counter { value: kani::any(), flags: Flags { value: kani::any() }, time: any_time() }
    }
    fn any_record(state: EventState) -> EventRecord {
        let event = if kani::any() {
            Event::Binary(any_binary(), Variation { default: any_bin_var(), selected: Cell::new(any_bin_var()) })
        } else {
            Event::Counter(any_counter(), Variation { default: any_ctr_var(), selected: Cell::new(any_ctr_var()) })
        };
        EventRecord { index: kani::any(), id: kani::any(), class: any_class(), event, state: Cell::new(state) }
    }
    fn count_of(value: usize) -> Count { Count { value } }
    fn counters_of(bin: usize, ctr: usize, c1: usize, c2: usize, c3: usize) -> Counters {
        Counters {
            types: TypeCounter {
                num_binary: count_of(bin), num_double_binary: count_of(0), num_binary_output_status: count_of(0), num_counter: count_of(ctr),
                num_frozen_counter: count_of(0), num_analog: count_of(0), num_analog_output_status: count_of(0), num_octet_string: count_of(0),
            },
            classes: ClassCounter { num_class_1: count_of(c1), num_class_2: count_of(c2), num_class_3: count_of(c3) },
        }
    }

    /// LAYOUT 0: list links/free stack/flags symbolic (any well-formed layout); LAYOUT 1: the canonical concrete layout of
    /// vl::build_canonical, record contents and states symbolic; LAYOUT 2: canonical layout and record states fixed by WMASK
    /// (bit p set = the p-th oldest record is Written, otherwise it is symbolic Unselected/Selected) - needed where control
    /// flow must be concrete (clear_written, see list fragment).
    fn any_buffer<const MA: u16, const MB: u16, const CAP: usize, const L: usize, const F: usize, const LAYOUT: usize, const WMASK: usize>() -> (EventBuffer, Abs) {
        let config = EventBufferConfig::new(MA, 0, 0, MB, 0, 0, 0, 0);
        let mut b = EventBuffer::new(config);
        if LAYOUT == 0 {
            b.events = vl::build::<EventRecord, CAP, L, F>(|| any_record(any_state()));
        } else if LAYOUT == 1 {
            b.events = vl::build_canonical::<EventRecord, CAP, L, F>(|| any_record(any_state()));
        } else {
            let mut slot: usize = 0;
            b.events = vl::build_canonical::<EventRecord, CAP, L, F>(|| {
                let st = if slot >= F && (WMASK >> (L.wrapping_sub(1).wrapping_sub(slot))) & 1 == 1 {
                    EventState::Written
                } else if kani::any() {
                    EventState::Unselected
                } else {
                    EventState::Selected
                };
                slot = inc(slot);
                any_record(st)
            });
        }
        b.is_overflown = kani::any();
        b.next = kani::any();
        let a = abs::<CAP>(&b);
        // The invariant fixes the 22 counters as functions of the records (total = number of records, written = number of
        // Written records, per class and per type), so "any counters satisfying the invariant" are exactly these:
        let k = counts(&a);
        b.total = counters_of(k.bin, k.ctr, k.c1, k.c2, k.c3);
        b.written = counters_of(k.wbin, k.wctr, k.wc1, k.wc2, k.wc3);
        let i = inv(&b, &a);
        kani::assume(i.list && i.totals && i.written && i.bounds && i.ids && i.ovf); // @assume: representation invariant of the pre-state (inductive hypothesis)
        (b, a)
    }

    fn assert_inv(b: &EventBuffer, a: &Abs) {
        let i = inv(b, a);
        assert!(i.list, "inv: list well-formed");
        assert!(i.totals, "inv: total counters equal the number of records per class and per type");
        assert!(i.written, "inv: written counters equal the number of Written records per class and per type (so written <= total)");
        assert!(i.bounds, "inv: no type holds more records than its maximum");
        assert!(i.ids, "inv: ids strictly increase oldest to newest and are below the next id");
        assert!(i.ovf, "inv: overflow flag set only while some type is at capacity");
    }

    // ---- base case
    fn new_contract<const MA: u16, const MB: u16, const CAP: usize>() {
        let b = EventBuffer::new(EventBufferConfig::new(MA, 0, 0, MB, 0, 0, 0, 0));
        let a = abs::<CAP>(&b);
        assert_inv(&b, &a);
        assert!(a.n == 0 && !b.is_overflown());
        let u = b.unwritten_classes();
        assert!(!u.class1 && !u.class2 && !u.class3);
        std::mem::forget(b);
        kani::cover!(a.ok_list);
    }

    // ---- insert: nothing lost or invented; a displaced record is exactly one, of the same type, and reported
    fn insert_contract<const LAYOUT: usize, const MA: u16, const MB: u16, const CAP: usize, const L: usize, const F: usize, const INS_B: bool>() {
        let (mut b, pre) = any_buffer::<MA, MB, CAP, L, F, LAYOUT, 0>();
        kani::assume(b.next < u64::MAX); // @assume: fewer than 2^64-1 events recorded so far (id counter has not wrapped)
        kani::assume(vl::next_version(&b.events) < u64::MAX); // @assume: same for the list's handle version counter
        let f0 = frame(&b);
        let k0 = counts(&pre);
        let index: u16 = kani::any();
        let class = any_class();
        let (r, nd, my_max, my_count) = if INS_B {
            let m = any_counter();
            let dv = any_ctr_var();
            let (tkind, tval) = time_code(m.time);
            (b.insert(index, class, &m, dv), Data { id: 0, index, class: class_code(class), ty: TY_COUNTER, val: m.value, flags: m.flags.value, tkind, tval, dflt: dv as u8 }, MB, k0.ctr)
        } else {
            let m = any_binary();
            let dv = any_bin_var();
            let (tkind, tval) = time_code(m.time);
            (b.insert(index, class, &m, dv), Data { id: 0, index, class: class_code(class), ty: TY_BINARY, val: m.value as u32, flags: m.flags.value, tkind, tval, dflt: dv as u8 }, MA, k0.bin)
        };
        let post = abs::<CAP>(&b);
        if my_max == 0 {
            assert!(r == Err(InsertError::TypeMaxIsZero), "insert: type with maximum 0 is refused");
            assert!(post.ok_list && same_records(&pre, &post) && frame(&b) == f0, "insert: refused insert changes nothing");
        } else {
            assert_inv(&b, &post);
            assert!(frame(&b).misc.config == f0.misc.config);
            let at_cap = my_count == my_max as usize;
            let (ok_result, id, discarded) = match r {
                Ok(id) => (true, id, None),
                Err(InsertError::Overflow { created, discarded }) => (true, created, Some(discarded)),
                Err(InsertError::TypeMaxIsZero) => (false, 0, None),
            };
            assert!(ok_result && discarded.is_some() == at_cap, "insert: enabled type accepted; a record is discarded (and reported) iff the type was at capacity");
            let mut k = MAXN; // position of the discarded record
            if let Some(d) = discarded {
                rep4!(i => {
                    if i < pre.n && at(&pre.r, i, NOREC).data.id == d { k = i; }
                });
                assert!(k < pre.n && at(&pre.r, k, NOREC).data.ty == nd.ty && post.n == pre.n, "insert: exactly one record discarded, it is a stored record of the inserted type and the one reported");
                assert!(b.is_overflown(), "insert: a discard sets the overflow indication");
            } else {
                assert!(b.is_overflown() == f0.misc.ovf && post.n == inc(pre.n), "insert: nothing discarded: one record more, overflow indication unchanged");
            }
            let mut survivors = true;
            rep4!(i => {
                if inc(i) < post.n && !(at(&post.r, i, NOREC) == at(&pre.r, spec::ev_skip(k, i), NOREC)) { survivors = false; }
            });
            assert!(survivors, "insert: survivors keep order, data, variation and state");
            let newest = at(&post.r, post.n.wrapping_sub(1), NOREC);
            assert!(post.n >= 1 && newest.data == Data { id, ..nd } && newest.state == UNSEL && newest.sel == nd.dflt,
                "insert: the new record is the newest, carries exactly the index, class, value, flags, time given, and is not part of any response");
        }
        std::mem::forget(b); // no drop glue: its loop over the storage would need its own unwind bound
        kani::cover!(if my_max > 0 && L - F >= my_max as usize { matches!(r, Err(InsertError::Overflow { .. })) } else { true });
        kani::cover!(if my_max > 0 && L - F < CAP { r.is_ok() } else { true });
        kani::cover!(if my_max == 0 { r.is_err() } else { true });
    }

    fn class_selected(c1: bool, c2: bool, c3: bool, class: u8) -> bool {
        (class == 0 && c1) || (class == 1 && c2) || (class == 2 && c3)
    }

    // ---- select_by_class / select_by_type: exactly the first min(limit, k) unselected matching records, oldest first
    fn select_contract<const LAYOUT: usize, const MA: u16, const MB: u16, const CAP: usize, const L: usize, const F: usize, const BY_TYPE: bool>() {
        let (mut b, pre) = any_buffer::<MA, MB, CAP, L, F, LAYOUT, 0>();
        let f0 = frame(&b);
        let limit: Option<usize> = kani::any();
        let lim = match limit { Some(x) => x, None => usize::MAX };
        let (c1, c2, c3): (bool, bool, bool) = (kani::any(), kani::any(), kani::any());
        let variation: Option<EventBinaryInputVariation> = if kani::any() { Some(any_bin_var()) } else { None };
        let mut cand = [false; MAXN];
        rep4!(i => {
            if i < pre.n {
                let r = at(&pre.r, i, NOREC);
                put(&mut cand, i, r.state == UNSEL && (if BY_TYPE { r.data.ty == TY_BINARY } else { class_selected(c1, c2, c3, r.data.class) }));
            }
        });
        let count = if BY_TYPE {
            b.select_by_type::<measurement::BinaryInput>(variation, limit)
        } else {
            b.select_by_class(EventClasses::new(c1, c2, c3), limit)
        };
        let post = abs::<CAP>(&b);
        assert_inv(&b, &post);
        assert!(frame(&b) == f0 && post.n == pre.n, "select: nothing added or removed; counters, overflow flag, id counter unchanged");
        let mut data_same = true;
        let mut taken_ok = true;
        let mut others_ok = true;
        rep4!(i => {
            if i < pre.n {
                let (p, q) = (at(&pre.r, i, NOREC), at(&post.r, i, NOREC));
                if !(q.data == p.data) { data_same = false; }
                if spec::ev_taken(&cand, i, lim) {
                    let want_sel = match (BY_TYPE, variation) { (true, Some(v)) => v as u8, _ => p.data.dflt };
                    if !(q.state == SEL && q.sel == want_sel) { taken_ok = false; }
                } else if !(q.state == p.state && q.sel == p.sel) {
                    others_ok = false;
                }
            }
        });
        assert!(data_same, "select: recorded data untouched");
        assert!(taken_ok, "select: the first min(limit,k) unselected matches become Selected with the requested (else default) variation");
        assert!(others_ok, "select: every other record keeps state and variation");
        assert!(count == spec::ev_taken_count(&cand, pre.n, lim), "select: returns min(limit, number of unselected matches)");
        let [cand0, cand1, _, _] = cand;
        std::mem::forget(b); // no drop glue: its loop over the storage would need its own unwind bound
        kani::cover!(if L - F >= 2 && (!BY_TYPE || MA >= 2) { count == 1 && cand0 && cand1 } else { true });
        kani::cover!(if L - F >= 2 && (!BY_TYPE || MA >= 2) { count == 2 } else { true });
        kani::cover!(if L - F >= 1 { count == 1 && limit.is_none() } else { count == 0 });
    }

    // ---- write_events: a prefix (oldest first) of the Selected records becomes Written, maximal w.r.t. the encoder's answers.
    // Event::write (the object encoders, subject of C09/C10) is replaced by a contract stub "returns Ok or Err(BadWrite)" that
    // logs on which record it was called.
    static mut W_RES: [bool; MAXN] = [false; MAXN];
    static mut W_LOG: [(usize, u16); MAXN] = [(0, 0); MAXN];
    static mut W_CALLS: usize = 0;
    impl Event {
        fn verif_stub_write(&self, index: u16, cursor: &mut WriteCursor, writer: &mut EventWriter) -> Result<(), BadWrite> {
            unsafe {
                let k = W_CALLS;
                W_CALLS = inc(k);
                put(&mut W_LOG, k, (self as *const Event as usize, index));
                if at(&W_RES, k, false) { Ok(()) } else { Err(BadWrite) }
            }
        }
    }

    fn write_contract<const LAYOUT: usize, const MA: u16, const MB: u16, const CAP: usize, const L: usize, const F: usize>() {
        let (mut b, pre) = any_buffer::<MA, MB, CAP, L, F, LAYOUT, 0>();
        let f0 = frame(&b);
        let res: [bool; MAXN] = [kani::any(), kani::any(), kani::any(), kani::any()];
        unsafe { W_RES = res; W_CALLS = 0; }
        let mut sel = [false; MAXN];
        rep4!(i => {
            if i < pre.n { put(&mut sel, i, at(&pre.r, i, NOREC).state == SEL); }
        });
        let m = spec::ev_rank(&sel, pre.n); // number of Selected records
        // j = number of leading successful encoder answers among the first m
        let mut j = 0;
        let mut stop = false;
        rep4!(q => {
            if q < m && !stop { if at(&res, q, false) { j = inc(j); } else { stop = true; } }
        });
        let mut backing = [0u8; 8];
        let mut cursor = WriteCursor::new(&mut backing);
        let r = b.write_events(&mut cursor);
        let post = abs::<CAP>(&b);
        assert_inv(&b, &post);
        let f1 = frame(&b);
        assert!(f1.total == f0.total && f1.misc == f0.misc && post.n == pre.n, "write_events: nothing added or removed; totals, overflow flag, id counter unchanged");
        let calls = unsafe { W_CALLS };
        assert!(calls == (if j < m { inc(j) } else { m }), "write_events: encoder asked once per Selected record, oldest first, until it refuses");
        let mut untouched = true;
        let mut states_ok = true;
        let mut log_ok = true;
        rep4!(i => {
            if i < pre.n {
                let (p, q) = (at(&pre.r, i, NOREC), at(&post.r, i, NOREC));
                if !(q.data == p.data && q.sel == p.sel) { untouched = false; }
                let rank = spec::ev_rank(&sel, i);
                let is_sel = at(&sel, i, false);
                if !(q.state == (if is_sel && rank < j { WRITTEN } else { p.state })) { states_ok = false; }
                if is_sel && rank < calls {
                    let logged = unsafe { at(&W_LOG, rank, (0, 0)) };
                    let ev_addr = match vl::data_ref(&b.events, at(&post.slot, i, vl::NOSLOT)) { Some(rec) => &rec.event as *const Event as usize, None => 0 };
                    if !(logged.0 == ev_addr && logged.1 == p.data.index) { log_ok = false; }
                }
            }
        });
        assert!(untouched, "write_events: recorded data and variation untouched");
        assert!(states_ok, "write_events: exactly the encoded prefix of the Selected records becomes Written, every other record keeps its state");
        assert!(log_ok, "write_events: the k-th encoded object is the k-th oldest Selected record, under its own index");
        assert!(r == (if j == m { Ok(m) } else { Err(j) }), "write_events: Ok(n) iff every Selected record was encoded, else Err(number encoded)");
        std::mem::forget(b); // no drop glue: its loop over the storage would need its own unwind bound
        kani::cover!(if L - F >= 2 { r == Err(1) } else { true });
        kani::cover!(if L - F >= 2 { r == Ok(2) } else { true });
        kani::cover!(if L - F >= 1 { r == Ok(1) } else { r == Ok(0) });
    }

    // ---- clear_written (the confirm path): exactly the Written records are released, each reported once, oldest first
    static mut CLEARED: [u64; MAXN] = [0; MAXN];
    static mut N_CLEARED: usize = 0;
    struct GhostApp;
    impl OutstationApplication for GhostApp {
        fn event_cleared(&mut self, id: u64) {
            unsafe {
                put(&mut CLEARED, N_CLEARED, id);
                N_CLEARED = inc(N_CLEARED);
            }
        }
    }

    fn clear_contract<const LAYOUT: usize, const MA: u16, const MB: u16, const CAP: usize, const L: usize, const F: usize, const WMASK: usize>() {
        let (mut b, pre) = any_buffer::<MA, MB, CAP, L, F, LAYOUT, WMASK>();
        let f0 = frame(&b);
        unsafe { N_CLEARED = 0; }
        let mut app = GhostApp;
        let count = b.clear_written(&mut app);
        let post = abs::<CAP>(&b);
        assert_inv(&b, &post);
        let n_cleared = unsafe { N_CLEARED };
        let cleared = unsafe { CLEARED };
        let mut reported = true;
        let mut survive = true;
        let mut kept = 0;
        let mut gone = 0;
        rep4!(i => {
            if i < pre.n {
                let p = at(&pre.r, i, NOREC);
                if p.state == WRITTEN {
                    if !(gone < n_cleared && at(&cleared, gone, 0) == p.data.id) { reported = false; }
                    gone = inc(gone);
                } else {
                    if !(kept < post.n && at(&post.r, kept, NOREC) == p) { survive = false; }
                    kept = inc(kept);
                }
            }
        });
        assert!(reported && n_cleared == gone && count == gone, "clear_written: each released record is reported to the application exactly once, oldest first; nothing else is reported; count returned");
        assert!(survive && post.n == kept, "clear_written: exactly the records awaiting confirmation are released; every other record survives in order with data, variation, state");
        let f1 = frame(&b);
        assert!(f1.written == RAW_ZERO && f1.misc.next == f0.misc.next && f1.misc.config == f0.misc.config, "clear_written: written counters zero, id counter unchanged");
        assert!(b.is_overflown() == spec::ev_overflow_after_confirm(f0.misc.ovf, any_type_at_capacity(&b, &counts(&post))), "clear_written: overflow indication cleared iff no type is left at capacity");
        let ovf1 = b.is_overflown();
        std::mem::forget(b); // no drop glue: its loop over the storage would need its own unwind bound
        kani::cover!(gone + kept == L - F && (LAYOUT != 2 || gone == WMASK.count_ones() as usize));
        kani::cover!(if LAYOUT != 2 && L - F >= 2 { gone == 1 && kept == L - F - 1 } else { true });
        kani::cover!(if L - F == CAP && (LAYOUT != 2 || WMASK + 1 == 1 << CAP) { f0.misc.ovf && !ovf1 && gone == L - F } else { true });
        kani::cover!(if L - F == CAP && (LAYOUT != 2 || WMASK == 0) { f0.misc.ovf && ovf1 && gone == 0 } else { true });
    }

    // ---- reset (series aborted / connection dropped): nothing released, every record offered again
    fn reset_contract<const LAYOUT: usize, const MA: u16, const MB: u16, const CAP: usize, const L: usize, const F: usize>() {
        let (mut b, pre) = any_buffer::<MA, MB, CAP, L, F, LAYOUT, 0>();
        let f0 = frame(&b);
        b.reset();
        let post = abs::<CAP>(&b);
        assert_inv(&b, &post);
        let mut good = post.n == pre.n;
        rep4!(i => {
            if i < pre.n {
                let (p, q) = (at(&pre.r, i, NOREC), at(&post.r, i, NOREC));
                if !(q.data == p.data && q.sel == p.sel && q.state == UNSEL) { good = false; }
            }
        });
        assert!(good, "reset: nothing removed, every record keeps its data and is Unselected again");
        let f1 = frame(&b);
        assert!(f1.total == f0.total && f1.misc == f0.misc && f1.written == RAW_ZERO, "reset: totals, overflow flag, id counter unchanged; written counters zero");
        let u = b.unwritten_classes();
        let k = counts(&post);
        assert!(u.class1 == (k.c1 > 0) && u.class2 == (k.c2 > 0) && u.class3 == (k.c3 > 0), "reset: every stored class is announced again");
        std::mem::forget(b); // no drop glue: its loop over the storage would need its own unwind bound
        kani::cover!(if L - F >= 1 { at(&pre.r, 0, NOREC).state == WRITTEN } else { true });
    }

    // ---- unwritten_classes / is_overflown / buffer_state (C13): class bit iff a record of that class is not awaiting confirmation
    fn observers_contract<const LAYOUT: usize, const MA: u16, const MB: u16, const CAP: usize, const L: usize, const F: usize>() {
        let (b, pre) = any_buffer::<MA, MB, CAP, L, F, LAYOUT, 0>();
        let ovf: bool = b.is_overflown;
        let u = b.unwritten_classes();
        let (mut w1, mut w2, mut w3) = (false, false, false);
        rep4!(i => {
            if i < pre.n {
                let p = at(&pre.r, i, NOREC);
                if p.state != WRITTEN {
                    if p.data.class == 0 { w1 = true; } else if p.data.class == 1 { w2 = true; } else { w3 = true; }
                }
            }
        });
        assert!(u.class1 == w1 && u.class2 == w2 && u.class3 == w3, "unwritten_classes: class bit set iff a record of that class exists that is not awaiting confirmation");
        assert!(b.is_overflown() == ovf);
        let s = b.buffer_state();
        let k = counts(&pre);
        assert!(s.classes.num_class_1 == k.c1 && s.classes.num_class_2 == k.c2 && s.classes.num_class_3 == k.c3
            && s.types.num_binary_input == k.bin && s.types.num_counter == k.ctr, "buffer_state: per-class and per-type counts are the stored records");
        let post = abs::<CAP>(&b);
        assert!(post.ok_list && same_records(&pre, &post));
        std::mem::forget(b); // no drop glue: its loop over the storage would need its own unwind bound
        kani::cover!(if L - F >= 1 { !u.class1 && !u.class2 && !u.class3 } else { true });
        kani::cover!(if L - F >= 2 { u.class1 && !u.class2 && u.class3 } else { true });
    }

    // $u = unwind bound = number of stored records + 1 (what the real loops need; the helpers have none)
    macro_rules! buf_harness {
        ($name:ident, $contract:ident, $u:expr, $($g:expr),*) => {
            #[kani::proof]
            #[kani::unwind($u)]
            fn $name() {
                $contract::<$($g),*>();
            }
        };
    }
    macro_rules! buf_write_harness {
        ($name:ident, $u:expr, $($g:expr),*) => {
            #[kani::proof]
            #[kani::unwind($u)]
            #[kani::stub(Event::write, Event::verif_stub_write)]
            fn $name() {
                write_contract::<$($g),*>();
            }
        };
    }

    // ---- bounded history from the empty store (object encoder = the logged contract stub, answering Ok): a record that is awaiting confirmation is displaced
    // by an overflow. The property allows the displacement (it is reported) but the store must stay consistent: the class bits
    // computed afterwards must not claim or underflow. This is the shortest history that reaches the pre-state in which
    // vk_c03_buf_insert_* fails (D2), so that failure is not an artefact of an unreachable pre-state.
    // @harness ids=C03,C13 tier=quick kind=bounded bound="history: new(max_binary=1); insert; select_by_class(all); write_events; insert - record contents symbolic" units=outstation::database::details::event::buffer::EventBuffer::insert,outstation::database::details::event::buffer::EventBuffer::select_by_class,outstation::database::details::event::buffer::EventBuffer::write_events,outstation::database::details::event::buffer::EventBuffer::unwritten_classes timeout=250 stubs=1 note="after insert, select, write (record awaits confirmation), insert (overflow displaces it): invariant holds, the displaced record is reported, unwritten_classes does not underflow and announces exactly the class of the new record"
    #[kani::proof]
    #[kani::unwind(2)]
    #[kani::stub(Event::write, Event::verif_stub_write)]
    fn vk_c03_history_overflow_displaces_written() {
        let mut b = EventBuffer::new(EventBufferConfig::new(1, 0, 0, 0, 0, 0, 0, 0));
        let (m1, m2) = (any_binary(), any_binary());
        let (c1, c2) = (any_class(), any_class());
        let r1 = b.insert(kani::any(), c1, &m1, EventBinaryInputVariation::Group2Var1);
        let n = b.select_by_class(EventClasses::new(true, true, true), None);
        unsafe { W_RES = [true, true, true, true]; W_CALLS = 0; }
        let mut backing = [0u8; 16];
        let mut cursor = WriteCursor::new(&mut backing);
        let w = b.write_events(&mut cursor);
        assert!(r1 == Ok(0) && n == 1 && w == Ok(1));
        let r2 = b.insert(kani::any(), c2, &m2, EventBinaryInputVariation::Group2Var1);
        assert!(r2 == Err(InsertError::Overflow { created: 1, discarded: 0 }) && b.is_overflown(), "overflow is reported");
        kani::cover!(c1 != c2);
        kani::cover!(c1 == c2);
        let u = b.unwritten_classes();
        assert!(u.class1 == (c2 == EventClass::Class1) && u.class2 == (c2 == EventClass::Class2) && u.class3 == (c2 == EventClass::Class3), "exactly the class of the one stored, unreported record is announced");
        let post = abs::<1>(&b);
        assert_inv(&b, &post);
    }

    // ---- bounded history: the overflow indication must survive a confirmation that only releases events of ANOTHER type
    // (C13: "the overflow bit is set from the moment an event is discarded until a confirmation leaves every type below
    // capacity"). clear_written on stores of >= 2 records is beyond the solver from an arbitrary pre-state (see above),
    // this history reaches the relevant state from the empty store with symbolic record contents.
    // @harness ids=C03,C13 tier=quick kind=bounded bound="history: new(max_binary=1,max_counter=1); insert bin; insert bin (overflow); insert counter; select counters; write_events; clear_written - record contents symbolic" units=outstation::database::details::event::buffer::EventBuffer::clear_written,outstation::database::details::event::buffer::EventBuffer::is_any_full,outstation::database::details::event::buffer::EventBuffer::select_by_type timeout=900 stubs=1 note="after an overflow in the binary type, confirming a response that carried only a counter event releases exactly that event (reported once) and leaves the overflow indication set because the binary type is still at capacity; confirming the binary event as well clears it"
    #[kani::proof]
    #[kani::unwind(4)]
    #[kani::stub(Event::write, Event::verif_stub_write)]
    fn vk_c13_history_overflow_survives_unrelated_confirm() {
        let mut b = EventBuffer::new(EventBufferConfig::new(1, 0, 0, 1, 0, 0, 0, 0));
        let (m1, m2, k1) = (any_binary(), any_binary(), any_counter());
        let r1 = b.insert(kani::any(), any_class(), &m1, EventBinaryInputVariation::Group2Var1);
        let r2 = b.insert(kani::any(), any_class(), &m2, EventBinaryInputVariation::Group2Var1);
        assert!(r1 == Ok(0) && r2 == Err(InsertError::Overflow { created: 1, discarded: 0 }) && b.is_overflown());
        let cc = any_class();
        let r3 = b.insert(kani::any(), cc, &k1, EventCounterVariation::Group22Var1);
        assert!(r3 == Ok(2));
        let n = b.select_by_type::<measurement::Counter>(None, None);
        unsafe { W_RES = [true, true, true, true]; W_CALLS = 0; }
        let mut backing = [0u8; 16];
        let mut cursor = WriteCursor::new(&mut backing);
        let w = b.write_events(&mut cursor);
        assert!(n == 1 && w == Ok(1));
        unsafe { N_CLEARED = 0; }
        let mut app = GhostApp;
        let count = b.clear_written(&mut app);
        assert!(count == 1 && unsafe { N_CLEARED } == 1 && unsafe { CLEARED[0] } == 2, "exactly the confirmed counter event is released and reported");
        assert!(b.is_overflown(), "binary type still at capacity: overflow indication stays");
        let u = b.unwritten_classes();
        assert!(u.class1 || u.class2 || u.class3, "the unreported binary event is still announced");
        kani::cover!(true);
    }

//@@INSTANCES@@
    // @harness ids=C03,C13,C01 tier=quick kind=proof units=outstation::database::details::event::buffer::EventBuffer::new timeout=120 note="a new store (max_binary=2, max_counter=1) satisfies the invariant, is empty, announces nothing (base case)"
    buf_harness!(vk_c03_buf_new_a2_b1, new_contract, 1, 2, 1, 3);
    // @harness ids=C03,C13 tier=thorough kind=bounded bound="capacity<=3: max_binary=2 max_counter=1 others 0; canonical list layout with storage length 0, free-stack length 0; record contents, states, versions symbolic under the invariant" units=outstation::database::details::event::buffer::EventBuffer::insert timeout=900 note="insert<BinaryInput> on ANY invariant state: max 0 => refused, nothing changes; else appended as newest, Unselected, with exactly the given index/class/value/flags/time; a record is discarded iff the type was at capacity, then exactly one of that type, reported (Overflow result, overflow flag); survivors keep order/data/state; invariant restored"
    buf_harness!(vk_c03_buf_insert_bin_a2_b1_l0_f0, insert_contract, 1, 1, 2, 1, 3, 0, 0, false);
    // @harness ids=C03,C13 tier=thorough kind=bounded bound="capacity<=3: max_binary=2 max_counter=1 others 0; canonical list layout with storage length 0, free-stack length 0; record contents, states, versions symbolic under the invariant" units=outstation::database::details::event::buffer::EventBuffer::insert timeout=900 note="same contract for insert<Counter> (second enabled type)"
    buf_harness!(vk_c03_buf_insert_ctr_a2_b1_l0_f0, insert_contract, 1, 1, 2, 1, 3, 0, 0, true);
    // @harness ids=C03,C13 tier=thorough kind=bounded bound="capacity<=3: max_binary=2 max_counter=1 others 0; canonical list layout with storage length 0, free-stack length 0; record contents, states, versions symbolic under the invariant" units=outstation::database::details::event::buffer::EventBuffer::select_by_class,outstation::database::details::event::buffer::EventBuffer::select timeout=900 note="select_by_class for every class set and limit: exactly the first min(limit,k) Unselected matching records become Selected (default variation), oldest first; returns that count; nothing else changes"
    buf_harness!(vk_c03_buf_select_class_a2_b1_l0_f0, select_contract, 1, 1, 2, 1, 3, 0, 0, false);
    // @harness ids=C03,C13 tier=thorough kind=bounded bound="capacity<=3: max_binary=2 max_counter=1 others 0; canonical list layout with storage length 0, free-stack length 0; record contents, states, versions symbolic under the invariant" units=outstation::database::details::event::buffer::EventBuffer::select_by_type,outstation::database::details::event::buffer::EventBuffer::select_specific_variation,outstation::database::details::event::buffer::EventBuffer::select_default_variation,outstation::database::details::event::buffer::EventBuffer::select timeout=900 note="select_by_type<BinaryInput> for every variation choice and limit: exactly the first min(limit,k) Unselected records of the type become Selected with that variation; nothing else changes"
    buf_harness!(vk_c03_buf_select_type_a2_b1_l0_f0, select_contract, 1, 1, 2, 1, 3, 0, 0, true);
    // @harness ids=C03,C13 tier=thorough kind=bounded bound="capacity<=3: max_binary=2 max_counter=1 others 0; canonical list layout with storage length 0, free-stack length 0; record contents, states, versions symbolic under the invariant" units=outstation::database::details::event::buffer::EventBuffer::write_events,outstation::database::details::event::buffer::EventBuffer::selected_iter timeout=900 stubs=1 note="write_events: the encoder (contract stub, logged) is asked once per Selected record oldest first until it refuses; exactly the encoded prefix becomes Written; Ok(n) iff all encoded else Err(encoded); written counters follow (invariant); nothing else changes"
    buf_write_harness!(vk_c03_buf_write_a2_b1_l0_f0, 1, 1, 2, 1, 3, 0, 0);
    // @harness ids=C03,C13 tier=thorough kind=bounded bound="capacity<=3: max_binary=2 max_counter=1 others 0; canonical list layout with storage length 0, free-stack length 0; record contents, states, versions symbolic under the invariant" units=outstation::database::details::event::buffer::EventBuffer::reset,outstation::database::details::event::buffer::EventBuffer::unwritten_classes timeout=900 note="reset: every record keeps its data and becomes Unselected, nothing is removed, written counters zero, every stored class announced again"
    buf_harness!(vk_c03_buf_reset_a2_b1_l0_f0, reset_contract, 1, 1, 2, 1, 3, 0, 0);
    // @harness ids=C03,C13 tier=thorough kind=bounded bound="capacity<=3: max_binary=2 max_counter=1 others 0; canonical list layout with storage length 0, free-stack length 0; record contents, states, versions symbolic under the invariant" units=outstation::database::details::event::buffer::EventBuffer::unwritten_classes,outstation::database::details::event::buffer::EventBuffer::is_overflown,outstation::database::details::event::buffer::EventBuffer::buffer_state timeout=900 note="unwritten_classes: class bit set IFF a record of that class exists whose state is not Written (no underflow); buffer_state counts are the stored records"
    buf_harness!(vk_c03_buf_observers_a2_b1_l0_f0, observers_contract, 1, 1, 2, 1, 3, 0, 0);
    // @harness ids=C03,C13 tier=thorough kind=bounded bound="capacity<=3: max_binary=2 max_counter=1 others 0; canonical list layout with storage length 0, free-stack length 0; at most one stored record; record contents, states, versions symbolic under the invariant" units=outstation::database::details::event::buffer::EventBuffer::clear_written,outstation::database::details::event::buffer::EventBuffer::is_any_full,outstation::database::details::event::buffer::EventBuffer::is_full timeout=300 note="clear_written: exactly the Written records are released, each reported to the application exactly once oldest first; every other record survives with data/variation/state; written counters zero; overflow flag cleared iff no type left at capacity; invariant restored"
    buf_harness!(vk_c03_buf_clear_a2_b1_l0_f0, clear_contract, 1, 1, 2, 1, 3, 0, 0, 0);
    // @harness ids=C03,C13 tier=thorough kind=bounded bound="capacity<=3: max_binary=2 max_counter=1 others 0; canonical list layout with storage length 1, free-stack length 0; record contents, states, versions symbolic under the invariant" units=outstation::database::details::event::buffer::EventBuffer::insert timeout=900 note="insert<BinaryInput> on ANY invariant state: max 0 => refused, nothing changes; else appended as newest, Unselected, with exactly the given index/class/value/flags/time; a record is discarded iff the type was at capacity, then exactly one of that type, reported (Overflow result, overflow flag); survivors keep order/data/state; invariant restored"
    buf_harness!(vk_c03_buf_insert_bin_a2_b1_l1_f0, insert_contract, 2, 1, 2, 1, 3, 1, 0, false);
    // @harness ids=C03,C13 tier=thorough kind=bounded bound="capacity<=3: max_binary=2 max_counter=1 others 0; canonical list layout with storage length 1, free-stack length 0; record contents, states, versions symbolic under the invariant" units=outstation::database::details::event::buffer::EventBuffer::insert timeout=900 note="same contract for insert<Counter> (second enabled type)"
    buf_harness!(vk_c03_buf_insert_ctr_a2_b1_l1_f0, insert_contract, 2, 1, 2, 1, 3, 1, 0, true);
    // @harness ids=C03,C13 tier=thorough kind=bounded bound="capacity<=3: max_binary=2 max_counter=1 others 0; canonical list layout with storage length 1, free-stack length 0; record contents, states, versions symbolic under the invariant" units=outstation::database::details::event::buffer::EventBuffer::select_by_class,outstation::database::details::event::buffer::EventBuffer::select timeout=900 note="select_by_class for every class set and limit: exactly the first min(limit,k) Unselected matching records become Selected (default variation), oldest first; returns that count; nothing else changes"
    buf_harness!(vk_c03_buf_select_class_a2_b1_l1_f0, select_contract, 2, 1, 2, 1, 3, 1, 0, false);
    // @harness ids=C03,C13 tier=thorough kind=bounded bound="capacity<=3: max_binary=2 max_counter=1 others 0; canonical list layout with storage length 1, free-stack length 0; record contents, states, versions symbolic under the invariant" units=outstation::database::details::event::buffer::EventBuffer::select_by_type,outstation::database::details::event::buffer::EventBuffer::select_specific_variation,outstation::database::details::event::buffer::EventBuffer::select_default_variation,outstation::database::details::event::buffer::EventBuffer::select timeout=900 note="select_by_type<BinaryInput> for every variation choice and limit: exactly the first min(limit,k) Unselected records of the type become Selected with that variation; nothing else changes"
    buf_harness!(vk_c03_buf_select_type_a2_b1_l1_f0, select_contract, 2, 1, 2, 1, 3, 1, 0, true);
    // @harness ids=C03,C13 tier=thorough kind=bounded bound="capacity<=3: max_binary=2 max_counter=1 others 0; canonical list layout with storage length 1, free-stack length 0; record contents, states, versions symbolic under the invariant" units=outstation::database::details::event::buffer::EventBuffer::write_events,outstation::database::details::event::buffer::EventBuffer::selected_iter timeout=900 stubs=1 note="write_events: the encoder (contract stub, logged) is asked once per Selected record oldest first until it refuses; exactly the encoded prefix becomes Written; Ok(n) iff all encoded else Err(encoded); written counters follow (invariant); nothing else changes"
    buf_write_harness!(vk_c03_buf_write_a2_b1_l1_f0, 2, 1, 2, 1, 3, 1, 0);
    // @harness ids=C03,C13 tier=thorough kind=bounded bound="capacity<=3: max_binary=2 max_counter=1 others 0; canonical list layout with storage length 1, free-stack length 0; record contents, states, versions symbolic under the invariant" units=outstation::database::details::event::buffer::EventBuffer::reset,outstation::database::details::event::buffer::EventBuffer::unwritten_classes timeout=900 note="reset: every record keeps its data and becomes Unselected, nothing is removed, written counters zero, every stored class announced again"
    buf_harness!(vk_c03_buf_reset_a2_b1_l1_f0, reset_contract, 2, 1, 2, 1, 3, 1, 0);
    // @harness ids=C03,C13 tier=thorough kind=bounded bound="capacity<=3: max_binary=2 max_counter=1 others 0; canonical list layout with storage length 1, free-stack length 0; record contents, states, versions symbolic under the invariant" units=outstation::database::details::event::buffer::EventBuffer::unwritten_classes,outstation::database::details::event::buffer::EventBuffer::is_overflown,outstation::database::details::event::buffer::EventBuffer::buffer_state timeout=900 note="unwritten_classes: class bit set IFF a record of that class exists whose state is not Written (no underflow); buffer_state counts are the stored records"
    buf_harness!(vk_c03_buf_observers_a2_b1_l1_f0, observers_contract, 2, 1, 2, 1, 3, 1, 0);
    // @harness ids=C03,C13 tier=thorough kind=bounded bound="capacity<=3: max_binary=2 max_counter=1 others 0; canonical list layout with storage length 1, free-stack length 0; at most one stored record; record contents, states, versions symbolic under the invariant" units=outstation::database::details::event::buffer::EventBuffer::clear_written,outstation::database::details::event::buffer::EventBuffer::is_any_full,outstation::database::details::event::buffer::EventBuffer::is_full timeout=300 note="clear_written: exactly the Written records are released, each reported to the application exactly once oldest first; every other record survives with data/variation/state; written counters zero; overflow flag cleared iff no type left at capacity; invariant restored"
    buf_harness!(vk_c03_buf_clear_a2_b1_l1_f0, clear_contract, 2, 1, 2, 1, 3, 1, 0, 0);
    // @harness ids=C03,C13 tier=thorough kind=bounded bound="capacity<=3: max_binary=2 max_counter=1 others 0; canonical list layout with storage length 1, free-stack length 1; record contents, states, versions symbolic under the invariant" units=outstation::database::details::event::buffer::EventBuffer::insert timeout=900 note="insert<BinaryInput> on ANY invariant state: max 0 => refused, nothing changes; else appended as newest, Unselected, with exactly the given index/class/value/flags/time; a record is discarded iff the type was at capacity, then exactly one of that type, reported (Overflow result, overflow flag); survivors keep order/data/state; invariant restored"
    buf_harness!(vk_c03_buf_insert_bin_a2_b1_l1_f1, insert_contract, 1, 1, 2, 1, 3, 1, 1, false);
    // @harness ids=C03,C13 tier=thorough kind=bounded bound="capacity<=3: max_binary=2 max_counter=1 others 0; canonical list layout with storage length 1, free-stack length 1; record contents, states, versions symbolic under the invariant" units=outstation::database::details::event::buffer::EventBuffer::insert timeout=900 note="same contract for insert<Counter> (second enabled type)"
    buf_harness!(vk_c03_buf_insert_ctr_a2_b1_l1_f1, insert_contract, 1, 1, 2, 1, 3, 1, 1, true);
    // @harness ids=C03,C13 tier=thorough kind=bounded bound="capacity<=3: max_binary=2 max_counter=1 others 0; canonical list layout with storage length 1, free-stack length 1; record contents, states, versions symbolic under the invariant" units=outstation::database::details::event::buffer::EventBuffer::select_by_class,outstation::database::details::event::buffer::EventBuffer::select timeout=900 note="select_by_class for every class set and limit: exactly the first min(limit,k) Unselected matching records become Selected (default variation), oldest first; returns that count; nothing else changes"
    buf_harness!(vk_c03_buf_select_class_a2_b1_l1_f1, select_contract, 1, 1, 2, 1, 3, 1, 1, false);
    // @harness ids=C03,C13 tier=thorough kind=bounded bound="capacity<=3: max_binary=2 max_counter=1 others 0; canonical list layout with storage length 1, free-stack length 1; record contents, states, versions symbolic under the invariant" units=outstation::database::details::event::buffer::EventBuffer::select_by_type,outstation::database::details::event::buffer::EventBuffer::select_specific_variation,outstation::database::details::event::buffer::EventBuffer::select_default_variation,outstation::database::details::event::buffer::EventBuffer::select timeout=900 note="select_by_type<BinaryInput> for every variation choice and limit: exactly the first min(limit,k) Unselected records of the type become Selected with that variation; nothing else changes"
    buf_harness!(vk_c03_buf_select_type_a2_b1_l1_f1, select_contract, 1, 1, 2, 1, 3, 1, 1, true);
    // @harness ids=C03,C13 tier=thorough kind=bounded bound="capacity<=3: max_binary=2 max_counter=1 others 0; canonical list layout with storage length 1, free-stack length 1; record contents, states, versions symbolic under the invariant" units=outstation::database::details::event::buffer::EventBuffer::write_events,outstation::database::details::event::buffer::EventBuffer::selected_iter timeout=900 stubs=1 note="write_events: the encoder (contract stub, logged) is asked once per Selected record oldest first until it refuses; exactly the encoded prefix becomes Written; Ok(n) iff all encoded else Err(encoded); written counters follow (invariant); nothing else changes"
    buf_write_harness!(vk_c03_buf_write_a2_b1_l1_f1, 1, 1, 2, 1, 3, 1, 1);
    // @harness ids=C03,C13 tier=thorough kind=bounded bound="capacity<=3: max_binary=2 max_counter=1 others 0; canonical list layout with storage length 1, free-stack length 1; record contents, states, versions symbolic under the invariant" units=outstation::database::details::event::buffer::EventBuffer::reset,outstation::database::details::event::buffer::EventBuffer::unwritten_classes timeout=900 note="reset: every record keeps its data and becomes Unselected, nothing is removed, written counters zero, every stored class announced again"
    buf_harness!(vk_c03_buf_reset_a2_b1_l1_f1, reset_contract, 1, 1, 2, 1, 3, 1, 1);
    // @harness ids=C03,C13 tier=thorough kind=bounded bound="capacity<=3: max_binary=2 max_counter=1 others 0; canonical list layout with storage length 1, free-stack length 1; record contents, states, versions symbolic under the invariant" units=outstation::database::details::event::buffer::EventBuffer::unwritten_classes,outstation::database::details::event::buffer::EventBuffer::is_overflown,outstation::database::details::event::buffer::EventBuffer::buffer_state timeout=900 note="unwritten_classes: class bit set IFF a record of that class exists whose state is not Written (no underflow); buffer_state counts are the stored records"
    buf_harness!(vk_c03_buf_observers_a2_b1_l1_f1, observers_contract, 1, 1, 2, 1, 3, 1, 1);
    // @harness ids=C03,C13 tier=thorough kind=bounded bound="capacity<=3: max_binary=2 max_counter=1 others 0; canonical list layout with storage length 1, free-stack length 1; at most one stored record; record contents, states, versions symbolic under the invariant" units=outstation::database::details::event::buffer::EventBuffer::clear_written,outstation::database::details::event::buffer::EventBuffer::is_any_full,outstation::database::details::event::buffer::EventBuffer::is_full timeout=300 note="clear_written: exactly the Written records are released, each reported to the application exactly once oldest first; every other record survives with data/variation/state; written counters zero; overflow flag cleared iff no type left at capacity; invariant restored"
    buf_harness!(vk_c03_buf_clear_a2_b1_l1_f1, clear_contract, 1, 1, 2, 1, 3, 1, 1, 0);
    // @harness ids=C03,C13 tier=thorough kind=bounded bound="capacity<=3: max_binary=2 max_counter=1 others 0; canonical list layout with storage length 2, free-stack length 0; record contents, states, versions symbolic under the invariant" units=outstation::database::details::event::buffer::EventBuffer::insert timeout=900 note="insert<BinaryInput> on ANY invariant state: max 0 => refused, nothing changes; else appended as newest, Unselected, with exactly the given index/class/value/flags/time; a record is discarded iff the type was at capacity, then exactly one of that type, reported (Overflow result, overflow flag); survivors keep order/data/state; invariant restored"
    buf_harness!(vk_c03_buf_insert_bin_a2_b1_l2_f0, insert_contract, 3, 1, 2, 1, 3, 2, 0, false);
    // @harness ids=C03,C13 tier=thorough kind=bounded bound="capacity<=3: max_binary=2 max_counter=1 others 0; canonical list layout with storage length 2, free-stack length 0; record contents, states, versions symbolic under the invariant" units=outstation::database::details::event::buffer::EventBuffer::insert timeout=900 note="same contract for insert<Counter> (second enabled type)"
    buf_harness!(vk_c03_buf_insert_ctr_a2_b1_l2_f0, insert_contract, 3, 1, 2, 1, 3, 2, 0, true);
    // @harness ids=C03,C13 tier=thorough kind=bounded bound="capacity<=3: max_binary=2 max_counter=1 others 0; canonical list layout with storage length 2, free-stack length 0; record contents, states, versions symbolic under the invariant" units=outstation::database::details::event::buffer::EventBuffer::select_by_class,outstation::database::details::event::buffer::EventBuffer::select timeout=900 note="select_by_class for every class set and limit: exactly the first min(limit,k) Unselected matching records become Selected (default variation), oldest first; returns that count; nothing else changes"
    buf_harness!(vk_c03_buf_select_class_a2_b1_l2_f0, select_contract, 3, 1, 2, 1, 3, 2, 0, false);
    // @harness ids=C03,C13 tier=thorough kind=bounded bound="capacity<=3: max_binary=2 max_counter=1 others 0; canonical list layout with storage length 2, free-stack length 0; record contents, states, versions symbolic under the invariant" units=outstation::database::details::event::buffer::EventBuffer::select_by_type,outstation::database::details::event::buffer::EventBuffer::select_specific_variation,outstation::database::details::event::buffer::EventBuffer::select_default_variation,outstation::database::details::event::buffer::EventBuffer::select timeout=900 note="select_by_type<BinaryInput> for every variation choice and limit: exactly the first min(limit,k) Unselected records of the type become Selected with that variation; nothing else changes"
    buf_harness!(vk_c03_buf_select_type_a2_b1_l2_f0, select_contract, 3, 1, 2, 1, 3, 2, 0, true);
    // @harness ids=C03,C13 tier=thorough kind=bounded bound="capacity<=3: max_binary=2 max_counter=1 others 0; canonical list layout with storage length 2, free-stack length 0; record contents, states, versions symbolic under the invariant" units=outstation::database::details::event::buffer::EventBuffer::write_events,outstation::database::details::event::buffer::EventBuffer::selected_iter timeout=900 stubs=1 note="write_events: the encoder (contract stub, logged) is asked once per Selected record oldest first until it refuses; exactly the encoded prefix becomes Written; Ok(n) iff all encoded else Err(encoded); written counters follow (invariant); nothing else changes"
    buf_write_harness!(vk_c03_buf_write_a2_b1_l2_f0, 3, 1, 2, 1, 3, 2, 0);
    // @harness ids=C03,C13 tier=thorough kind=bounded bound="capacity<=3: max_binary=2 max_counter=1 others 0; canonical list layout with storage length 2, free-stack length 0; record contents, states, versions symbolic under the invariant" units=outstation::database::details::event::buffer::EventBuffer::reset,outstation::database::details::event::buffer::EventBuffer::unwritten_classes timeout=900 note="reset: every record keeps its data and becomes Unselected, nothing is removed, written counters zero, every stored class announced again"
    buf_harness!(vk_c03_buf_reset_a2_b1_l2_f0, reset_contract, 3, 1, 2, 1, 3, 2, 0);
    // @harness ids=C03,C13 tier=thorough kind=bounded bound="capacity<=3: max_binary=2 max_counter=1 others 0; canonical list layout with storage length 2, free-stack length 0; record contents, states, versions symbolic under the invariant" units=outstation::database::details::event::buffer::EventBuffer::unwritten_classes,outstation::database::details::event::buffer::EventBuffer::is_overflown,outstation::database::details::event::buffer::EventBuffer::buffer_state timeout=900 note="unwritten_classes: class bit set IFF a record of that class exists whose state is not Written (no underflow); buffer_state counts are the stored records"
    buf_harness!(vk_c03_buf_observers_a2_b1_l2_f0, observers_contract, 3, 1, 2, 1, 3, 2, 0);
    // @harness ids=C03,C13 tier=thorough kind=bounded bound="capacity<=3: max_binary=2 max_counter=1 others 0; canonical list layout with storage length 2, free-stack length 1; record contents, states, versions symbolic under the invariant" units=outstation::database::details::event::buffer::EventBuffer::insert timeout=900 note="insert<BinaryInput> on ANY invariant state: max 0 => refused, nothing changes; else appended as newest, Unselected, with exactly the given index/class/value/flags/time; a record is discarded iff the type was at capacity, then exactly one of that type, reported (Overflow result, overflow flag); survivors keep order/data/state; invariant restored"
    buf_harness!(vk_c03_buf_insert_bin_a2_b1_l2_f1, insert_contract, 2, 1, 2, 1, 3, 2, 1, false);
    // @harness ids=C03,C13 tier=thorough kind=bounded bound="capacity<=3: max_binary=2 max_counter=1 others 0; canonical list layout with storage length 2, free-stack length 1; record contents, states, versions symbolic under the invariant" units=outstation::database::details::event::buffer::EventBuffer::insert timeout=900 note="same contract for insert<Counter> (second enabled type)"
    buf_harness!(vk_c03_buf_insert_ctr_a2_b1_l2_f1, insert_contract, 2, 1, 2, 1, 3, 2, 1, true);
    // @harness ids=C03,C13 tier=thorough kind=bounded bound="capacity<=3: max_binary=2 max_counter=1 others 0; canonical list layout with storage length 2, free-stack length 1; record contents, states, versions symbolic under the invariant" units=outstation::database::details::event::buffer::EventBuffer::select_by_class,outstation::database::details::event::buffer::EventBuffer::select timeout=900 note="select_by_class for every class set and limit: exactly the first min(limit,k) Unselected matching records become Selected (default variation), oldest first; returns that count; nothing else changes"
    buf_harness!(vk_c03_buf_select_class_a2_b1_l2_f1, select_contract, 2, 1, 2, 1, 3, 2, 1, false);
    // @harness ids=C03,C13 tier=thorough kind=bounded bound="capacity<=3: max_binary=2 max_counter=1 others 0; canonical list layout with storage length 2, free-stack length 1; record contents, states, versions symbolic under the invariant" units=outstation::database::details::event::buffer::EventBuffer::select_by_type,outstation::database::details::event::buffer::EventBuffer::select_specific_variation,outstation::database::details::event::buffer::EventBuffer::select_default_variation,outstation::database::details::event::buffer::EventBuffer::select timeout=900 note="select_by_type<BinaryInput> for every variation choice and limit: exactly the first min(limit,k) Unselected records of the type become Selected with that variation; nothing else changes"
    buf_harness!(vk_c03_buf_select_type_a2_b1_l2_f1, select_contract, 2, 1, 2, 1, 3, 2, 1, true);
    // @harness ids=C03,C13 tier=thorough kind=bounded bound="capacity<=3: max_binary=2 max_counter=1 others 0; canonical list layout with storage length 2, free-stack length 1; record contents, states, versions symbolic under the invariant" units=outstation::database::details::event::buffer::EventBuffer::write_events,outstation::database::details::event::buffer::EventBuffer::selected_iter timeout=900 stubs=1 note="write_events: the encoder (contract stub, logged) is asked once per Selected record oldest first until it refuses; exactly the encoded prefix becomes Written; Ok(n) iff all encoded else Err(encoded); written counters follow (invariant); nothing else changes"
    buf_write_harness!(vk_c03_buf_write_a2_b1_l2_f1, 2, 1, 2, 1, 3, 2, 1);
    // @harness ids=C03,C13 tier=thorough kind=bounded bound="capacity<=3: max_binary=2 max_counter=1 others 0; canonical list layout with storage length 2, free-stack length 1; record contents, states, versions symbolic under the invariant" units=outstation::database::details::event::buffer::EventBuffer::reset,outstation::database::details::event::buffer::EventBuffer::unwritten_classes timeout=900 note="reset: every record keeps its data and becomes Unselected, nothing is removed, written counters zero, every stored class announced again"
    buf_harness!(vk_c03_buf_reset_a2_b1_l2_f1, reset_contract, 2, 1, 2, 1, 3, 2, 1);
    // @harness ids=C03,C13 tier=thorough kind=bounded bound="capacity<=3: max_binary=2 max_counter=1 others 0; canonical list layout with storage length 2, free-stack length 1; record contents, states, versions symbolic under the invariant" units=outstation::database::details::event::buffer::EventBuffer::unwritten_classes,outstation::database::details::event::buffer::EventBuffer::is_overflown,outstation::database::details::event::buffer::EventBuffer::buffer_state timeout=900 note="unwritten_classes: class bit set IFF a record of that class exists whose state is not Written (no underflow); buffer_state counts are the stored records"
    buf_harness!(vk_c03_buf_observers_a2_b1_l2_f1, observers_contract, 2, 1, 2, 1, 3, 2, 1);
    // @harness ids=C03,C13 tier=thorough kind=bounded bound="capacity<=3: max_binary=2 max_counter=1 others 0; canonical list layout with storage length 2, free-stack length 1; at most one stored record; record contents, states, versions symbolic under the invariant" units=outstation::database::details::event::buffer::EventBuffer::clear_written,outstation::database::details::event::buffer::EventBuffer::is_any_full,outstation::database::details::event::buffer::EventBuffer::is_full timeout=300 note="clear_written: exactly the Written records are released, each reported to the application exactly once oldest first; every other record survives with data/variation/state; written counters zero; overflow flag cleared iff no type left at capacity; invariant restored"
    buf_harness!(vk_c03_buf_clear_a2_b1_l2_f1, clear_contract, 2, 1, 2, 1, 3, 2, 1, 0);
    // @harness ids=C03,C13 tier=thorough kind=bounded bound="capacity<=3: max_binary=2 max_counter=1 others 0; canonical list layout with storage length 2, free-stack length 2; record contents, states, versions symbolic under the invariant" units=outstation::database::details::event::buffer::EventBuffer::insert timeout=900 note="insert<BinaryInput> on ANY invariant state: max 0 => refused, nothing changes; else appended as newest, Unselected, with exactly the given index/class/value/flags/time; a record is discarded iff the type was at capacity, then exactly one of that type, reported (Overflow result, overflow flag); survivors keep order/data/state; invariant restored"
    buf_harness!(vk_c03_buf_insert_bin_a2_b1_l2_f2, insert_contract, 1, 1, 2, 1, 3, 2, 2, false);
    // @harness ids=C03,C13 tier=thorough kind=bounded bound="capacity<=3: max_binary=2 max_counter=1 others 0; canonical list layout with storage length 2, free-stack length 2; record contents, states, versions symbolic under the invariant" units=outstation::database::details::event::buffer::EventBuffer::insert timeout=900 note="same contract for insert<Counter> (second enabled type)"
    buf_harness!(vk_c03_buf_insert_ctr_a2_b1_l2_f2, insert_contract, 1, 1, 2, 1, 3, 2, 2, true);
    // @harness ids=C03,C13 tier=thorough kind=bounded bound="capacity<=3: max_binary=2 max_counter=1 others 0; canonical list layout with storage length 2, free-stack length 2; record contents, states, versions symbolic under the invariant" units=outstation::database::details::event::buffer::EventBuffer::select_by_class,outstation::database::details::event::buffer::EventBuffer::select timeout=900 note="select_by_class for every class set and limit: exactly the first min(limit,k) Unselected matching records become Selected (default variation), oldest first; returns that count; nothing else changes"
    buf_harness!(vk_c03_buf_select_class_a2_b1_l2_f2, select_contract, 1, 1, 2, 1, 3, 2, 2, false);
    // @harness ids=C03,C13 tier=thorough kind=bounded bound="capacity<=3: max_binary=2 max_counter=1 others 0; canonical list layout with storage length 2, free-stack length 2; record contents, states, versions symbolic under the invariant" units=outstation::database::details::event::buffer::EventBuffer::select_by_type,outstation::database::details::event::buffer::EventBuffer::select_specific_variation,outstation::database::details::event::buffer::EventBuffer::select_default_variation,outstation::database::details::event::buffer::EventBuffer::select timeout=900 note="select_by_type<BinaryInput> for every variation choice and limit: exactly the first min(limit,k) Unselected records of the type become Selected with that variation; nothing else changes"
    buf_harness!(vk_c03_buf_select_type_a2_b1_l2_f2, select_contract, 1, 1, 2, 1, 3, 2, 2, true);
    // @harness ids=C03,C13 tier=thorough kind=bounded bound="capacity<=3: max_binary=2 max_counter=1 others 0; canonical list layout with storage length 2, free-stack length 2; record contents, states, versions symbolic under the invariant" units=outstation::database::details::event::buffer::EventBuffer::write_events,outstation::database::details::event::buffer::EventBuffer::selected_iter timeout=900 stubs=1 note="write_events: the encoder (contract stub, logged) is asked once per Selected record oldest first until it refuses; exactly the encoded prefix becomes Written; Ok(n) iff all encoded else Err(encoded); written counters follow (invariant); nothing else changes"
    buf_write_harness!(vk_c03_buf_write_a2_b1_l2_f2, 1, 1, 2, 1, 3, 2, 2);
    // @harness ids=C03,C13 tier=thorough kind=bounded bound="capacity<=3: max_binary=2 max_counter=1 others 0; canonical list layout with storage length 2, free-stack length 2; record contents, states, versions symbolic under the invariant" units=outstation::database::details::event::buffer::EventBuffer::reset,outstation::database::details::event::buffer::EventBuffer::unwritten_classes timeout=900 note="reset: every record keeps its data and becomes Unselected, nothing is removed, written counters zero, every stored class announced again"
    buf_harness!(vk_c03_buf_reset_a2_b1_l2_f2, reset_contract, 1, 1, 2, 1, 3, 2, 2);
    // @harness ids=C03,C13 tier=thorough kind=bounded bound="capacity<=3: max_binary=2 max_counter=1 others 0; canonical list layout with storage length 2, free-stack length 2; record contents, states, versions symbolic under the invariant" units=outstation::database::details::event::buffer::EventBuffer::unwritten_classes,outstation::database::details::event::buffer::EventBuffer::is_overflown,outstation::database::details::event::buffer::EventBuffer::buffer_state timeout=900 note="unwritten_classes: class bit set IFF a record of that class exists whose state is not Written (no underflow); buffer_state counts are the stored records"
    buf_harness!(vk_c03_buf_observers_a2_b1_l2_f2, observers_contract, 1, 1, 2, 1, 3, 2, 2);
    // @harness ids=C03,C13 tier=thorough kind=bounded bound="capacity<=3: max_binary=2 max_counter=1 others 0; canonical list layout with storage length 2, free-stack length 2; at most one stored record; record contents, states, versions symbolic under the invariant" units=outstation::database::details::event::buffer::EventBuffer::clear_written,outstation::database::details::event::buffer::EventBuffer::is_any_full,outstation::database::details::event::buffer::EventBuffer::is_full timeout=300 note="clear_written: exactly the Written records are released, each reported to the application exactly once oldest first; every other record survives with data/variation/state; written counters zero; overflow flag cleared iff no type left at capacity; invariant restored"
    buf_harness!(vk_c03_buf_clear_a2_b1_l2_f2, clear_contract, 1, 1, 2, 1, 3, 2, 2, 0);
    // @harness ids=C03,C13 tier=quick kind=bounded bound="capacity<=3: max_binary=2 max_counter=1 others 0; canonical list layout with storage length 3, free-stack length 0; record contents, states, versions symbolic under the invariant" units=outstation::database::details::event::buffer::EventBuffer::insert timeout=300 note="insert<BinaryInput> on ANY invariant state: max 0 => refused, nothing changes; else appended as newest, Unselected, with exactly the given index/class/value/flags/time; a record is discarded iff the type was at capacity, then exactly one of that type, reported (Overflow result, overflow flag); survivors keep order/data/state; invariant restored"
    buf_harness!(vk_c03_buf_insert_bin_a2_b1_l3_f0, insert_contract, 4, 1, 2, 1, 3, 3, 0, false);
    // @harness ids=C03,C13 tier=quick kind=bounded bound="capacity<=3: max_binary=2 max_counter=1 others 0; canonical list layout with storage length 3, free-stack length 0; record contents, states, versions symbolic under the invariant" units=outstation::database::details::event::buffer::EventBuffer::insert timeout=300 note="same contract for insert<Counter> (second enabled type)"
    buf_harness!(vk_c03_buf_insert_ctr_a2_b1_l3_f0, insert_contract, 4, 1, 2, 1, 3, 3, 0, true);
    // @harness ids=C03,C13 tier=thorough kind=bounded bound="capacity<=3: max_binary=2 max_counter=1 others 0; canonical list layout with storage length 3, free-stack length 0; record contents, states, versions symbolic under the invariant" units=outstation::database::details::event::buffer::EventBuffer::select_by_class,outstation::database::details::event::buffer::EventBuffer::select timeout=900 note="select_by_class for every class set and limit: exactly the first min(limit,k) Unselected matching records become Selected (default variation), oldest first; returns that count; nothing else changes"
    buf_harness!(vk_c03_buf_select_class_a2_b1_l3_f0, select_contract, 4, 1, 2, 1, 3, 3, 0, false);
    // @harness ids=C03,C13 tier=thorough kind=bounded bound="capacity<=3: max_binary=2 max_counter=1 others 0; canonical list layout with storage length 3, free-stack length 0; record contents, states, versions symbolic under the invariant" units=outstation::database::details::event::buffer::EventBuffer::select_by_type,outstation::database::details::event::buffer::EventBuffer::select_specific_variation,outstation::database::details::event::buffer::EventBuffer::select_default_variation,outstation::database::details::event::buffer::EventBuffer::select timeout=900 note="select_by_type<BinaryInput> for every variation choice and limit: exactly the first min(limit,k) Unselected records of the type become Selected with that variation; nothing else changes"
    buf_harness!(vk_c03_buf_select_type_a2_b1_l3_f0, select_contract, 4, 1, 2, 1, 3, 3, 0, true);
    // @harness ids=C03,C13 tier=quick kind=bounded bound="capacity<=3: max_binary=2 max_counter=1 others 0; canonical list layout with storage length 3, free-stack length 0; record contents, states, versions symbolic under the invariant" units=outstation::database::details::event::buffer::EventBuffer::write_events,outstation::database::details::event::buffer::EventBuffer::selected_iter timeout=300 stubs=1 note="write_events: the encoder (contract stub, logged) is asked once per Selected record oldest first until it refuses; exactly the encoded prefix becomes Written; Ok(n) iff all encoded else Err(encoded); written counters follow (invariant); nothing else changes"
    buf_write_harness!(vk_c03_buf_write_a2_b1_l3_f0, 4, 1, 2, 1, 3, 3, 0);
    // @harness ids=C03,C13 tier=quick kind=bounded bound="capacity<=3: max_binary=2 max_counter=1 others 0; canonical list layout with storage length 3, free-stack length 0; record contents, states, versions symbolic under the invariant" units=outstation::database::details::event::buffer::EventBuffer::reset,outstation::database::details::event::buffer::EventBuffer::unwritten_classes timeout=300 note="reset: every record keeps its data and becomes Unselected, nothing is removed, written counters zero, every stored class announced again"
    buf_harness!(vk_c03_buf_reset_a2_b1_l3_f0, reset_contract, 4, 1, 2, 1, 3, 3, 0);
    // @harness ids=C03,C13 tier=quick kind=bounded bound="capacity<=3: max_binary=2 max_counter=1 others 0; canonical list layout with storage length 3, free-stack length 0; record contents, states, versions symbolic under the invariant" units=outstation::database::details::event::buffer::EventBuffer::unwritten_classes,outstation::database::details::event::buffer::EventBuffer::is_overflown,outstation::database::details::event::buffer::EventBuffer::buffer_state timeout=300 note="unwritten_classes: class bit set IFF a record of that class exists whose state is not Written (no underflow); buffer_state counts are the stored records"
    buf_harness!(vk_c03_buf_observers_a2_b1_l3_f0, observers_contract, 4, 1, 2, 1, 3, 3, 0);
    // @harness ids=C03,C13 tier=quick kind=bounded bound="capacity<=3: max_binary=2 max_counter=1 others 0; canonical list layout with storage length 3, free-stack length 1; record contents, states, versions symbolic under the invariant" units=outstation::database::details::event::buffer::EventBuffer::insert timeout=300 note="insert<BinaryInput> on ANY invariant state: max 0 => refused, nothing changes; else appended as newest, Unselected, with exactly the given index/class/value/flags/time; a record is discarded iff the type was at capacity, then exactly one of that type, reported (Overflow result, overflow flag); survivors keep order/data/state; invariant restored"
    buf_harness!(vk_c03_buf_insert_bin_a2_b1_l3_f1, insert_contract, 3, 1, 2, 1, 3, 3, 1, false);
    // @harness ids=C03,C13 tier=thorough kind=bounded bound="capacity<=3: max_binary=2 max_counter=1 others 0; canonical list layout with storage length 3, free-stack length 1; record contents, states, versions symbolic under the invariant" units=outstation::database::details::event::buffer::EventBuffer::insert timeout=900 note="same contract for insert<Counter> (second enabled type)"
    buf_harness!(vk_c03_buf_insert_ctr_a2_b1_l3_f1, insert_contract, 3, 1, 2, 1, 3, 3, 1, true);
    // @harness ids=C03,C13 tier=quick kind=bounded bound="capacity<=3: max_binary=2 max_counter=1 others 0; canonical list layout with storage length 3, free-stack length 1; record contents, states, versions symbolic under the invariant" units=outstation::database::details::event::buffer::EventBuffer::select_by_class,outstation::database::details::event::buffer::EventBuffer::select timeout=300 note="select_by_class for every class set and limit: exactly the first min(limit,k) Unselected matching records become Selected (default variation), oldest first; returns that count; nothing else changes"
    buf_harness!(vk_c03_buf_select_class_a2_b1_l3_f1, select_contract, 3, 1, 2, 1, 3, 3, 1, false);
    // @harness ids=C03,C13 tier=thorough kind=bounded bound="capacity<=3: max_binary=2 max_counter=1 others 0; canonical list layout with storage length 3, free-stack length 1; record contents, states, versions symbolic under the invariant" units=outstation::database::details::event::buffer::EventBuffer::select_by_type,outstation::database::details::event::buffer::EventBuffer::select_specific_variation,outstation::database::details::event::buffer::EventBuffer::select_default_variation,outstation::database::details::event::buffer::EventBuffer::select timeout=900 note="select_by_type<BinaryInput> for every variation choice and limit: exactly the first min(limit,k) Unselected records of the type become Selected with that variation; nothing else changes"
    buf_harness!(vk_c03_buf_select_type_a2_b1_l3_f1, select_contract, 3, 1, 2, 1, 3, 3, 1, true);
    // @harness ids=C03,C13 tier=quick kind=bounded bound="capacity<=3: max_binary=2 max_counter=1 others 0; canonical list layout with storage length 3, free-stack length 1; record contents, states, versions symbolic under the invariant" units=outstation::database::details::event::buffer::EventBuffer::write_events,outstation::database::details::event::buffer::EventBuffer::selected_iter timeout=300 stubs=1 note="write_events: the encoder (contract stub, logged) is asked once per Selected record oldest first until it refuses; exactly the encoded prefix becomes Written; Ok(n) iff all encoded else Err(encoded); written counters follow (invariant); nothing else changes"
    buf_write_harness!(vk_c03_buf_write_a2_b1_l3_f1, 3, 1, 2, 1, 3, 3, 1);
    // @harness ids=C03,C13 tier=quick kind=bounded bound="capacity<=3: max_binary=2 max_counter=1 others 0; canonical list layout with storage length 3, free-stack length 1; record contents, states, versions symbolic under the invariant" units=outstation::database::details::event::buffer::EventBuffer::reset,outstation::database::details::event::buffer::EventBuffer::unwritten_classes timeout=300 note="reset: every record keeps its data and becomes Unselected, nothing is removed, written counters zero, every stored class announced again"
    buf_harness!(vk_c03_buf_reset_a2_b1_l3_f1, reset_contract, 3, 1, 2, 1, 3, 3, 1);
    // @harness ids=C03,C13 tier=quick kind=bounded bound="capacity<=3: max_binary=2 max_counter=1 others 0; canonical list layout with storage length 3, free-stack length 1; record contents, states, versions symbolic under the invariant" units=outstation::database::details::event::buffer::EventBuffer::unwritten_classes,outstation::database::details::event::buffer::EventBuffer::is_overflown,outstation::database::details::event::buffer::EventBuffer::buffer_state timeout=300 note="unwritten_classes: class bit set IFF a record of that class exists whose state is not Written (no underflow); buffer_state counts are the stored records"
    buf_harness!(vk_c03_buf_observers_a2_b1_l3_f1, observers_contract, 3, 1, 2, 1, 3, 3, 1);
    // @harness ids=C03,C13 tier=thorough kind=bounded bound="capacity<=3: max_binary=2 max_counter=1 others 0; canonical list layout with storage length 3, free-stack length 2; record contents, states, versions symbolic under the invariant" units=outstation::database::details::event::buffer::EventBuffer::insert timeout=900 note="insert<BinaryInput> on ANY invariant state: max 0 => refused, nothing changes; else appended as newest, Unselected, with exactly the given index/class/value/flags/time; a record is discarded iff the type was at capacity, then exactly one of that type, reported (Overflow result, overflow flag); survivors keep order/data/state; invariant restored"
    buf_harness!(vk_c03_buf_insert_bin_a2_b1_l3_f2, insert_contract, 2, 1, 2, 1, 3, 3, 2, false);
    // @harness ids=C03,C13 tier=thorough kind=bounded bound="capacity<=3: max_binary=2 max_counter=1 others 0; canonical list layout with storage length 3, free-stack length 2; record contents, states, versions symbolic under the invariant" units=outstation::database::details::event::buffer::EventBuffer::insert timeout=900 note="same contract for insert<Counter> (second enabled type)"
    buf_harness!(vk_c03_buf_insert_ctr_a2_b1_l3_f2, insert_contract, 2, 1, 2, 1, 3, 3, 2, true);
    // @harness ids=C03,C13 tier=thorough kind=bounded bound="capacity<=3: max_binary=2 max_counter=1 others 0; canonical list layout with storage length 3, free-stack length 2; record contents, states, versions symbolic under the invariant" units=outstation::database::details::event::buffer::EventBuffer::select_by_class,outstation::database::details::event::buffer::EventBuffer::select timeout=900 note="select_by_class for every class set and limit: exactly the first min(limit,k) Unselected matching records become Selected (default variation), oldest first; returns that count; nothing else changes"
    buf_harness!(vk_c03_buf_select_class_a2_b1_l3_f2, select_contract, 2, 1, 2, 1, 3, 3, 2, false);
    // @harness ids=C03,C13 tier=thorough kind=bounded bound="capacity<=3: max_binary=2 max_counter=1 others 0; canonical list layout with storage length 3, free-stack length 2; record contents, states, versions symbolic under the invariant" units=outstation::database::details::event::buffer::EventBuffer::select_by_type,outstation::database::details::event::buffer::EventBuffer::select_specific_variation,outstation::database::details::event::buffer::EventBuffer::select_default_variation,outstation::database::details::event::buffer::EventBuffer::select timeout=900 note="select_by_type<BinaryInput> for every variation choice and limit: exactly the first min(limit,k) Unselected records of the type become Selected with that variation; nothing else changes"
    buf_harness!(vk_c03_buf_select_type_a2_b1_l3_f2, select_contract, 2, 1, 2, 1, 3, 3, 2, true);
    // @harness ids=C03,C13 tier=thorough kind=bounded bound="capacity<=3: max_binary=2 max_counter=1 others 0; canonical list layout with storage length 3, free-stack length 2; record contents, states, versions symbolic under the invariant" units=outstation::database::details::event::buffer::EventBuffer::write_events,outstation::database::details::event::buffer::EventBuffer::selected_iter timeout=900 stubs=1 note="write_events: the encoder (contract stub, logged) is asked once per Selected record oldest first until it refuses; exactly the encoded prefix becomes Written; Ok(n) iff all encoded else Err(encoded); written counters follow (invariant); nothing else changes"
    buf_write_harness!(vk_c03_buf_write_a2_b1_l3_f2, 2, 1, 2, 1, 3, 3, 2);
    // @harness ids=C03,C13 tier=quick kind=bounded bound="capacity<=3: max_binary=2 max_counter=1 others 0; canonical list layout with storage length 3, free-stack length 2; record contents, states, versions symbolic under the invariant" units=outstation::database::details::event::buffer::EventBuffer::reset,outstation::database::details::event::buffer::EventBuffer::unwritten_classes timeout=300 note="reset: every record keeps its data and becomes Unselected, nothing is removed, written counters zero, every stored class announced again"
    buf_harness!(vk_c03_buf_reset_a2_b1_l3_f2, reset_contract, 2, 1, 2, 1, 3, 3, 2);
    // @harness ids=C03,C13 tier=quick kind=bounded bound="capacity<=3: max_binary=2 max_counter=1 others 0; canonical list layout with storage length 3, free-stack length 2; record contents, states, versions symbolic under the invariant" units=outstation::database::details::event::buffer::EventBuffer::unwritten_classes,outstation::database::details::event::buffer::EventBuffer::is_overflown,outstation::database::details::event::buffer::EventBuffer::buffer_state timeout=300 note="unwritten_classes: class bit set IFF a record of that class exists whose state is not Written (no underflow); buffer_state counts are the stored records"
    buf_harness!(vk_c03_buf_observers_a2_b1_l3_f2, observers_contract, 2, 1, 2, 1, 3, 3, 2);
    // @harness ids=C03,C13 tier=quick kind=bounded bound="capacity<=3: max_binary=2 max_counter=1 others 0; canonical list layout with storage length 3, free-stack length 2; at most one stored record; record contents, states, versions symbolic under the invariant" units=outstation::database::details::event::buffer::EventBuffer::clear_written,outstation::database::details::event::buffer::EventBuffer::is_any_full,outstation::database::details::event::buffer::EventBuffer::is_full timeout=300 note="clear_written: exactly the Written records are released, each reported to the application exactly once oldest first; every other record survives with data/variation/state; written counters zero; overflow flag cleared iff no type left at capacity; invariant restored"
    buf_harness!(vk_c03_buf_clear_a2_b1_l3_f2, clear_contract, 2, 1, 2, 1, 3, 3, 2, 0);
    // @harness ids=C03,C13 tier=thorough kind=bounded bound="capacity<=3: max_binary=2 max_counter=1 others 0; canonical list layout with storage length 3, free-stack length 3; record contents, states, versions symbolic under the invariant" units=outstation::database::details::event::buffer::EventBuffer::insert timeout=900 note="insert<BinaryInput> on ANY invariant state: max 0 => refused, nothing changes; else appended as newest, Unselected, with exactly the given index/class/value/flags/time; a record is discarded iff the type was at capacity, then exactly one of that type, reported (Overflow result, overflow flag); survivors keep order/data/state; invariant restored"
    buf_harness!(vk_c03_buf_insert_bin_a2_b1_l3_f3, insert_contract, 1, 1, 2, 1, 3, 3, 3, false);
    // @harness ids=C03,C13 tier=thorough kind=bounded bound="capacity<=3: max_binary=2 max_counter=1 others 0; canonical list layout with storage length 3, free-stack length 3; record contents, states, versions symbolic under the invariant" units=outstation::database::details::event::buffer::EventBuffer::insert timeout=900 note="same contract for insert<Counter> (second enabled type)"
    buf_harness!(vk_c03_buf_insert_ctr_a2_b1_l3_f3, insert_contract, 1, 1, 2, 1, 3, 3, 3, true);
    // @harness ids=C03,C13 tier=thorough kind=bounded bound="capacity<=3: max_binary=2 max_counter=1 others 0; canonical list layout with storage length 3, free-stack length 3; record contents, states, versions symbolic under the invariant" units=outstation::database::details::event::buffer::EventBuffer::select_by_class,outstation::database::details::event::buffer::EventBuffer::select timeout=900 note="select_by_class for every class set and limit: exactly the first min(limit,k) Unselected matching records become Selected (default variation), oldest first; returns that count; nothing else changes"
    buf_harness!(vk_c03_buf_select_class_a2_b1_l3_f3, select_contract, 1, 1, 2, 1, 3, 3, 3, false);
    // @harness ids=C03,C13 tier=thorough kind=bounded bound="capacity<=3: max_binary=2 max_counter=1 others 0; canonical list layout with storage length 3, free-stack length 3; record contents, states, versions symbolic under the invariant" units=outstation::database::details::event::buffer::EventBuffer::select_by_type,outstation::database::details::event::buffer::EventBuffer::select_specific_variation,outstation::database::details::event::buffer::EventBuffer::select_default_variation,outstation::database::details::event::buffer::EventBuffer::select timeout=900 note="select_by_type<BinaryInput> for every variation choice and limit: exactly the first min(limit,k) Unselected records of the type become Selected with that variation; nothing else changes"
    buf_harness!(vk_c03_buf_select_type_a2_b1_l3_f3, select_contract, 1, 1, 2, 1, 3, 3, 3, true);
    // @harness ids=C03,C13 tier=thorough kind=bounded bound="capacity<=3: max_binary=2 max_counter=1 others 0; canonical list layout with storage length 3, free-stack length 3; record contents, states, versions symbolic under the invariant" units=outstation::database::details::event::buffer::EventBuffer::write_events,outstation::database::details::event::buffer::EventBuffer::selected_iter timeout=900 stubs=1 note="write_events: the encoder (contract stub, logged) is asked once per Selected record oldest first until it refuses; exactly the encoded prefix becomes Written; Ok(n) iff all encoded else Err(encoded); written counters follow (invariant); nothing else changes"
    buf_write_harness!(vk_c03_buf_write_a2_b1_l3_f3, 1, 1, 2, 1, 3, 3, 3);
    // @harness ids=C03,C13 tier=quick kind=bounded bound="capacity<=3: max_binary=2 max_counter=1 others 0; canonical list layout with storage length 3, free-stack length 3; record contents, states, versions symbolic under the invariant" units=outstation::database::details::event::buffer::EventBuffer::reset,outstation::database::details::event::buffer::EventBuffer::unwritten_classes timeout=300 note="reset: every record keeps its data and becomes Unselected, nothing is removed, written counters zero, every stored class announced again"
    buf_harness!(vk_c03_buf_reset_a2_b1_l3_f3, reset_contract, 1, 1, 2, 1, 3, 3, 3);
    // @harness ids=C03,C13 tier=quick kind=bounded bound="capacity<=3: max_binary=2 max_counter=1 others 0; canonical list layout with storage length 3, free-stack length 3; record contents, states, versions symbolic under the invariant" units=outstation::database::details::event::buffer::EventBuffer::unwritten_classes,outstation::database::details::event::buffer::EventBuffer::is_overflown,outstation::database::details::event::buffer::EventBuffer::buffer_state timeout=300 note="unwritten_classes: class bit set IFF a record of that class exists whose state is not Written (no underflow); buffer_state counts are the stored records"
    buf_harness!(vk_c03_buf_observers_a2_b1_l3_f3, observers_contract, 1, 1, 2, 1, 3, 3, 3);
    // @harness ids=C03,C13 tier=quick kind=bounded bound="capacity<=3: max_binary=2 max_counter=1 others 0; canonical list layout with storage length 3, free-stack length 3; at most one stored record; record contents, states, versions symbolic under the invariant" units=outstation::database::details::event::buffer::EventBuffer::clear_written,outstation::database::details::event::buffer::EventBuffer::is_any_full,outstation::database::details::event::buffer::EventBuffer::is_full timeout=300 note="clear_written: exactly the Written records are released, each reported to the application exactly once oldest first; every other record survives with data/variation/state; written counters zero; overflow flag cleared iff no type left at capacity; invariant restored"
    buf_harness!(vk_c03_buf_clear_a2_b1_l3_f3, clear_contract, 1, 1, 2, 1, 3, 3, 3, 0);
    // @harness ids=C03,C13,C01 tier=quick kind=proof units=outstation::database::details::event::buffer::EventBuffer::new timeout=120 note="a new store (max_binary=1, max_counter=1) satisfies the invariant, is empty, announces nothing (base case)"
    buf_harness!(vk_c03_buf_new_a1_b1, new_contract, 1, 1, 1, 2);
    // @harness ids=C03,C13 tier=thorough kind=bounded bound="capacity<=3: max_binary=1 max_counter=1 others 0; canonical list layout with storage length 0, free-stack length 0; record contents, states, versions symbolic under the invariant" units=outstation::database::details::event::buffer::EventBuffer::insert timeout=900 note="insert<BinaryInput> on ANY invariant state: max 0 => refused, nothing changes; else appended as newest, Unselected, with exactly the given index/class/value/flags/time; a record is discarded iff the type was at capacity, then exactly one of that type, reported (Overflow result, overflow flag); survivors keep order/data/state; invariant restored"
    buf_harness!(vk_c03_buf_insert_bin_a1_b1_l0_f0, insert_contract, 1, 1, 1, 1, 2, 0, 0, false);
    // @harness ids=C03,C13 tier=thorough kind=bounded bound="capacity<=3: max_binary=1 max_counter=1 others 0; canonical list layout with storage length 0, free-stack length 0; record contents, states, versions symbolic under the invariant" units=outstation::database::details::event::buffer::EventBuffer::insert timeout=900 note="same contract for insert<Counter> (second enabled type)"
    buf_harness!(vk_c03_buf_insert_ctr_a1_b1_l0_f0, insert_contract, 1, 1, 1, 1, 2, 0, 0, true);
    // @harness ids=C03,C13 tier=thorough kind=bounded bound="capacity<=3: max_binary=1 max_counter=1 others 0; canonical list layout with storage length 0, free-stack length 0; record contents, states, versions symbolic under the invariant" units=outstation::database::details::event::buffer::EventBuffer::select_by_class,outstation::database::details::event::buffer::EventBuffer::select timeout=900 note="select_by_class for every class set and limit: exactly the first min(limit,k) Unselected matching records become Selected (default variation), oldest first; returns that count; nothing else changes"
    buf_harness!(vk_c03_buf_select_class_a1_b1_l0_f0, select_contract, 1, 1, 1, 1, 2, 0, 0, false);
    // @harness ids=C03,C13 tier=thorough kind=bounded bound="capacity<=3: max_binary=1 max_counter=1 others 0; canonical list layout with storage length 0, free-stack length 0; record contents, states, versions symbolic under the invariant" units=outstation::database::details::event::buffer::EventBuffer::select_by_type,outstation::database::details::event::buffer::EventBuffer::select_specific_variation,outstation::database::details::event::buffer::EventBuffer::select_default_variation,outstation::database::details::event::buffer::EventBuffer::select timeout=900 note="select_by_type<BinaryInput> for every variation choice and limit: exactly the first min(limit,k) Unselected records of the type become Selected with that variation; nothing else changes"
    buf_harness!(vk_c03_buf_select_type_a1_b1_l0_f0, select_contract, 1, 1, 1, 1, 2, 0, 0, true);
    // @harness ids=C03,C13 tier=thorough kind=bounded bound="capacity<=3: max_binary=1 max_counter=1 others 0; canonical list layout with storage length 0, free-stack length 0; record contents, states, versions symbolic under the invariant" units=outstation::database::details::event::buffer::EventBuffer::write_events,outstation::database::details::event::buffer::EventBuffer::selected_iter timeout=900 stubs=1 note="write_events: the encoder (contract stub, logged) is asked once per Selected record oldest first until it refuses; exactly the encoded prefix becomes Written; Ok(n) iff all encoded else Err(encoded); written counters follow (invariant); nothing else changes"
    buf_write_harness!(vk_c03_buf_write_a1_b1_l0_f0, 1, 1, 1, 1, 2, 0, 0);
    // @harness ids=C03,C13 tier=thorough kind=bounded bound="capacity<=3: max_binary=1 max_counter=1 others 0; canonical list layout with storage length 0, free-stack length 0; record contents, states, versions symbolic under the invariant" units=outstation::database::details::event::buffer::EventBuffer::reset,outstation::database::details::event::buffer::EventBuffer::unwritten_classes timeout=900 note="reset: every record keeps its data and becomes Unselected, nothing is removed, written counters zero, every stored class announced again"
    buf_harness!(vk_c03_buf_reset_a1_b1_l0_f0, reset_contract, 1, 1, 1, 1, 2, 0, 0);
    // @harness ids=C03,C13 tier=thorough kind=bounded bound="capacity<=3: max_binary=1 max_counter=1 others 0; canonical list layout with storage length 0, free-stack length 0; record contents, states, versions symbolic under the invariant" units=outstation::database::details::event::buffer::EventBuffer::unwritten_classes,outstation::database::details::event::buffer::EventBuffer::is_overflown,outstation::database::details::event::buffer::EventBuffer::buffer_state timeout=900 note="unwritten_classes: class bit set IFF a record of that class exists whose state is not Written (no underflow); buffer_state counts are the stored records"
    buf_harness!(vk_c03_buf_observers_a1_b1_l0_f0, observers_contract, 1, 1, 1, 1, 2, 0, 0);
    // @harness ids=C03,C13 tier=thorough kind=bounded bound="capacity<=3: max_binary=1 max_counter=1 others 0; canonical list layout with storage length 0, free-stack length 0; at most one stored record; record contents, states, versions symbolic under the invariant" units=outstation::database::details::event::buffer::EventBuffer::clear_written,outstation::database::details::event::buffer::EventBuffer::is_any_full,outstation::database::details::event::buffer::EventBuffer::is_full timeout=300 note="clear_written: exactly the Written records are released, each reported to the application exactly once oldest first; every other record survives with data/variation/state; written counters zero; overflow flag cleared iff no type left at capacity; invariant restored"
    buf_harness!(vk_c03_buf_clear_a1_b1_l0_f0, clear_contract, 1, 1, 1, 1, 2, 0, 0, 0);
    // @harness ids=C03,C13 tier=thorough kind=bounded bound="capacity<=3: max_binary=1 max_counter=1 others 0; canonical list layout with storage length 1, free-stack length 0; record contents, states, versions symbolic under the invariant" units=outstation::database::details::event::buffer::EventBuffer::insert timeout=900 note="insert<BinaryInput> on ANY invariant state: max 0 => refused, nothing changes; else appended as newest, Unselected, with exactly the given index/class/value/flags/time; a record is discarded iff the type was at capacity, then exactly one of that type, reported (Overflow result, overflow flag); survivors keep order/data/state; invariant restored"
    buf_harness!(vk_c03_buf_insert_bin_a1_b1_l1_f0, insert_contract, 2, 1, 1, 1, 2, 1, 0, false);
    // @harness ids=C03,C13 tier=thorough kind=bounded bound="capacity<=3: max_binary=1 max_counter=1 others 0; canonical list layout with storage length 1, free-stack length 0; record contents, states, versions symbolic under the invariant" units=outstation::database::details::event::buffer::EventBuffer::insert timeout=900 note="same contract for insert<Counter> (second enabled type)"
    buf_harness!(vk_c03_buf_insert_ctr_a1_b1_l1_f0, insert_contract, 2, 1, 1, 1, 2, 1, 0, true);
    // @harness ids=C03,C13 tier=thorough kind=bounded bound="capacity<=3: max_binary=1 max_counter=1 others 0; canonical list layout with storage length 1, free-stack length 0; record contents, states, versions symbolic under the invariant" units=outstation::database::details::event::buffer::EventBuffer::select_by_class,outstation::database::details::event::buffer::EventBuffer::select timeout=900 note="select_by_class for every class set and limit: exactly the first min(limit,k) Unselected matching records become Selected (default variation), oldest first; returns that count; nothing else changes"
    buf_harness!(vk_c03_buf_select_class_a1_b1_l1_f0, select_contract, 2, 1, 1, 1, 2, 1, 0, false);
    // @harness ids=C03,C13 tier=thorough kind=bounded bound="capacity<=3: max_binary=1 max_counter=1 others 0; canonical list layout with storage length 1, free-stack length 0; record contents, states, versions symbolic under the invariant" units=outstation::database::details::event::buffer::EventBuffer::select_by_type,outstation::database::details::event::buffer::EventBuffer::select_specific_variation,outstation::database::details::event::buffer::EventBuffer::select_default_variation,outstation::database::details::event::buffer::EventBuffer::select timeout=900 note="select_by_type<BinaryInput> for every variation choice and limit: exactly the first min(limit,k) Unselected records of the type become Selected with that variation; nothing else changes"
    buf_harness!(vk_c03_buf_select_type_a1_b1_l1_f0, select_contract, 2, 1, 1, 1, 2, 1, 0, true);
    // @harness ids=C03,C13 tier=thorough kind=bounded bound="capacity<=3: max_binary=1 max_counter=1 others 0; canonical list layout with storage length 1, free-stack length 0; record contents, states, versions symbolic under the invariant" units=outstation::database::details::event::buffer::EventBuffer::write_events,outstation::database::details::event::buffer::EventBuffer::selected_iter timeout=900 stubs=1 note="write_events: the encoder (contract stub, logged) is asked once per Selected record oldest first until it refuses; exactly the encoded prefix becomes Written; Ok(n) iff all encoded else Err(encoded); written counters follow (invariant); nothing else changes"
    buf_write_harness!(vk_c03_buf_write_a1_b1_l1_f0, 2, 1, 1, 1, 2, 1, 0);
    // @harness ids=C03,C13 tier=thorough kind=bounded bound="capacity<=3: max_binary=1 max_counter=1 others 0; canonical list layout with storage length 1, free-stack length 0; record contents, states, versions symbolic under the invariant" units=outstation::database::details::event::buffer::EventBuffer::reset,outstation::database::details::event::buffer::EventBuffer::unwritten_classes timeout=900 note="reset: every record keeps its data and becomes Unselected, nothing is removed, written counters zero, every stored class announced again"
    buf_harness!(vk_c03_buf_reset_a1_b1_l1_f0, reset_contract, 2, 1, 1, 1, 2, 1, 0);
    // @harness ids=C03,C13 tier=thorough kind=bounded bound="capacity<=3: max_binary=1 max_counter=1 others 0; canonical list layout with storage length 1, free-stack length 0; record contents, states, versions symbolic under the invariant" units=outstation::database::details::event::buffer::EventBuffer::unwritten_classes,outstation::database::details::event::buffer::EventBuffer::is_overflown,outstation::database::details::event::buffer::EventBuffer::buffer_state timeout=900 note="unwritten_classes: class bit set IFF a record of that class exists whose state is not Written (no underflow); buffer_state counts are the stored records"
    buf_harness!(vk_c03_buf_observers_a1_b1_l1_f0, observers_contract, 2, 1, 1, 1, 2, 1, 0);
    // @harness ids=C03,C13 tier=thorough kind=bounded bound="capacity<=3: max_binary=1 max_counter=1 others 0; canonical list layout with storage length 1, free-stack length 0; at most one stored record; record contents, states, versions symbolic under the invariant" units=outstation::database::details::event::buffer::EventBuffer::clear_written,outstation::database::details::event::buffer::EventBuffer::is_any_full,outstation::database::details::event::buffer::EventBuffer::is_full timeout=300 note="clear_written: exactly the Written records are released, each reported to the application exactly once oldest first; every other record survives with data/variation/state; written counters zero; overflow flag cleared iff no type left at capacity; invariant restored"
    buf_harness!(vk_c03_buf_clear_a1_b1_l1_f0, clear_contract, 2, 1, 1, 1, 2, 1, 0, 0);
    // @harness ids=C03,C13 tier=thorough kind=bounded bound="capacity<=3: max_binary=1 max_counter=1 others 0; canonical list layout with storage length 1, free-stack length 1; record contents, states, versions symbolic under the invariant" units=outstation::database::details::event::buffer::EventBuffer::insert timeout=900 note="insert<BinaryInput> on ANY invariant state: max 0 => refused, nothing changes; else appended as newest, Unselected, with exactly the given index/class/value/flags/time; a record is discarded iff the type was at capacity, then exactly one of that type, reported (Overflow result, overflow flag); survivors keep order/data/state; invariant restored"
    buf_harness!(vk_c03_buf_insert_bin_a1_b1_l1_f1, insert_contract, 1, 1, 1, 1, 2, 1, 1, false);
    // @harness ids=C03,C13 tier=thorough kind=bounded bound="capacity<=3: max_binary=1 max_counter=1 others 0; canonical list layout with storage length 1, free-stack length 1; record contents, states, versions symbolic under the invariant" units=outstation::database::details::event::buffer::EventBuffer::insert timeout=900 note="same contract for insert<Counter> (second enabled type)"
    buf_harness!(vk_c03_buf_insert_ctr_a1_b1_l1_f1, insert_contract, 1, 1, 1, 1, 2, 1, 1, true);
    // @harness ids=C03,C13 tier=thorough kind=bounded bound="capacity<=3: max_binary=1 max_counter=1 others 0; canonical list layout with storage length 1, free-stack length 1; record contents, states, versions symbolic under the invariant" units=outstation::database::details::event::buffer::EventBuffer::select_by_class,outstation::database::details::event::buffer::EventBuffer::select timeout=900 note="select_by_class for every class set and limit: exactly the first min(limit,k) Unselected matching records become Selected (default variation), oldest first; returns that count; nothing else changes"
    buf_harness!(vk_c03_buf_select_class_a1_b1_l1_f1, select_contract, 1, 1, 1, 1, 2, 1, 1, false);
    // @harness ids=C03,C13 tier=thorough kind=bounded bound="capacity<=3: max_binary=1 max_counter=1 others 0; canonical list layout with storage length 1, free-stack length 1; record contents, states, versions symbolic under the invariant" units=outstation::database::details::event::buffer::EventBuffer::select_by_type,outstation::database::details::event::buffer::EventBuffer::select_specific_variation,outstation::database::details::event::buffer::EventBuffer::select_default_variation,outstation::database::details::event::buffer::EventBuffer::select timeout=900 note="select_by_type<BinaryInput> for every variation choice and limit: exactly the first min(limit,k) Unselected records of the type become Selected with that variation; nothing else changes"
    buf_harness!(vk_c03_buf_select_type_a1_b1_l1_f1, select_contract, 1, 1, 1, 1, 2, 1, 1, true);
    // @harness ids=C03,C13 tier=thorough kind=bounded bound="capacity<=3: max_binary=1 max_counter=1 others 0; canonical list layout with storage length 1, free-stack length 1; record contents, states, versions symbolic under the invariant" units=outstation::database::details::event::buffer::EventBuffer::write_events,outstation::database::details::event::buffer::EventBuffer::selected_iter timeout=900 stubs=1 note="write_events: the encoder (contract stub, logged) is asked once per Selected record oldest first until it refuses; exactly the encoded prefix becomes Written; Ok(n) iff all encoded else Err(encoded); written counters follow (invariant); nothing else changes"
    buf_write_harness!(vk_c03_buf_write_a1_b1_l1_f1, 1, 1, 1, 1, 2, 1, 1);
    // @harness ids=C03,C13 tier=thorough kind=bounded bound="capacity<=3: max_binary=1 max_counter=1 others 0; canonical list layout with storage length 1, free-stack length 1; record contents, states, versions symbolic under the invariant" units=outstation::database::details::event::buffer::EventBuffer::reset,outstation::database::details::event::buffer::EventBuffer::unwritten_classes timeout=900 note="reset: every record keeps its data and becomes Unselected, nothing is removed, written counters zero, every stored class announced again"
    buf_harness!(vk_c03_buf_reset_a1_b1_l1_f1, reset_contract, 1, 1, 1, 1, 2, 1, 1);
    // @harness ids=C03,C13 tier=thorough kind=bounded bound="capacity<=3: max_binary=1 max_counter=1 others 0; canonical list layout with storage length 1, free-stack length 1; record contents, states, versions symbolic under the invariant" units=outstation::database::details::event::buffer::EventBuffer::unwritten_classes,outstation::database::details::event::buffer::EventBuffer::is_overflown,outstation::database::details::event::buffer::EventBuffer::buffer_state timeout=900 note="unwritten_classes: class bit set IFF a record of that class exists whose state is not Written (no underflow); buffer_state counts are the stored records"
    buf_harness!(vk_c03_buf_observers_a1_b1_l1_f1, observers_contract, 1, 1, 1, 1, 2, 1, 1);
    // @harness ids=C03,C13 tier=thorough kind=bounded bound="capacity<=3: max_binary=1 max_counter=1 others 0; canonical list layout with storage length 1, free-stack length 1; at most one stored record; record contents, states, versions symbolic under the invariant" units=outstation::database::details::event::buffer::EventBuffer::clear_written,outstation::database::details::event::buffer::EventBuffer::is_any_full,outstation::database::details::event::buffer::EventBuffer::is_full timeout=300 note="clear_written: exactly the Written records are released, each reported to the application exactly once oldest first; every other record survives with data/variation/state; written counters zero; overflow flag cleared iff no type left at capacity; invariant restored"
    buf_harness!(vk_c03_buf_clear_a1_b1_l1_f1, clear_contract, 1, 1, 1, 1, 2, 1, 1, 0);
    // @harness ids=C03,C13 tier=thorough kind=bounded bound="capacity<=3: max_binary=1 max_counter=1 others 0; canonical list layout with storage length 2, free-stack length 0; record contents, states, versions symbolic under the invariant" units=outstation::database::details::event::buffer::EventBuffer::insert timeout=900 note="insert<BinaryInput> on ANY invariant state: max 0 => refused, nothing changes; else appended as newest, Unselected, with exactly the given index/class/value/flags/time; a record is discarded iff the type was at capacity, then exactly one of that type, reported (Overflow result, overflow flag); survivors keep order/data/state; invariant restored"
    buf_harness!(vk_c03_buf_insert_bin_a1_b1_l2_f0, insert_contract, 3, 1, 1, 1, 2, 2, 0, false);
    // @harness ids=C03,C13 tier=quick kind=bounded bound="capacity<=3: max_binary=1 max_counter=1 others 0; canonical list layout with storage length 2, free-stack length 0; record contents, states, versions symbolic under the invariant" units=outstation::database::details::event::buffer::EventBuffer::insert timeout=300 note="same contract for insert<Counter> (second enabled type)"
    buf_harness!(vk_c03_buf_insert_ctr_a1_b1_l2_f0, insert_contract, 3, 1, 1, 1, 2, 2, 0, true);
    // @harness ids=C03,C13 tier=thorough kind=bounded bound="capacity<=3: max_binary=1 max_counter=1 others 0; canonical list layout with storage length 2, free-stack length 0; record contents, states, versions symbolic under the invariant" units=outstation::database::details::event::buffer::EventBuffer::select_by_class,outstation::database::details::event::buffer::EventBuffer::select timeout=900 note="select_by_class for every class set and limit: exactly the first min(limit,k) Unselected matching records become Selected (default variation), oldest first; returns that count; nothing else changes"
    buf_harness!(vk_c03_buf_select_class_a1_b1_l2_f0, select_contract, 3, 1, 1, 1, 2, 2, 0, false);
    // @harness ids=C03,C13 tier=quick kind=bounded bound="capacity<=3: max_binary=1 max_counter=1 others 0; canonical list layout with storage length 2, free-stack length 0; record contents, states, versions symbolic under the invariant" units=outstation::database::details::event::buffer::EventBuffer::select_by_type,outstation::database::details::event::buffer::EventBuffer::select_specific_variation,outstation::database::details::event::buffer::EventBuffer::select_default_variation,outstation::database::details::event::buffer::EventBuffer::select timeout=300 note="select_by_type<BinaryInput> for every variation choice and limit: exactly the first min(limit,k) Unselected records of the type become Selected with that variation; nothing else changes"
    buf_harness!(vk_c03_buf_select_type_a1_b1_l2_f0, select_contract, 3, 1, 1, 1, 2, 2, 0, true);
    // @harness ids=C03,C13 tier=quick kind=bounded bound="capacity<=3: max_binary=1 max_counter=1 others 0; canonical list layout with storage length 2, free-stack length 0; record contents, states, versions symbolic under the invariant" units=outstation::database::details::event::buffer::EventBuffer::write_events,outstation::database::details::event::buffer::EventBuffer::selected_iter timeout=300 stubs=1 note="write_events: the encoder (contract stub, logged) is asked once per Selected record oldest first until it refuses; exactly the encoded prefix becomes Written; Ok(n) iff all encoded else Err(encoded); written counters follow (invariant); nothing else changes"
    buf_write_harness!(vk_c03_buf_write_a1_b1_l2_f0, 3, 1, 1, 1, 2, 2, 0);
    // @harness ids=C03,C13 tier=thorough kind=bounded bound="capacity<=3: max_binary=1 max_counter=1 others 0; canonical list layout with storage length 2, free-stack length 0; record contents, states, versions symbolic under the invariant" units=outstation::database::details::event::buffer::EventBuffer::reset,outstation::database::details::event::buffer::EventBuffer::unwritten_classes timeout=900 note="reset: every record keeps its data and becomes Unselected, nothing is removed, written counters zero, every stored class announced again"
    buf_harness!(vk_c03_buf_reset_a1_b1_l2_f0, reset_contract, 3, 1, 1, 1, 2, 2, 0);
    // @harness ids=C03,C13 tier=thorough kind=bounded bound="capacity<=3: max_binary=1 max_counter=1 others 0; canonical list layout with storage length 2, free-stack length 0; record contents, states, versions symbolic under the invariant" units=outstation::database::details::event::buffer::EventBuffer::unwritten_classes,outstation::database::details::event::buffer::EventBuffer::is_overflown,outstation::database::details::event::buffer::EventBuffer::buffer_state timeout=900 note="unwritten_classes: class bit set IFF a record of that class exists whose state is not Written (no underflow); buffer_state counts are the stored records"
    buf_harness!(vk_c03_buf_observers_a1_b1_l2_f0, observers_contract, 3, 1, 1, 1, 2, 2, 0);
    // @harness ids=C03,C13 tier=thorough kind=bounded bound="capacity<=3: max_binary=1 max_counter=1 others 0; canonical list layout with storage length 2, free-stack length 1; record contents, states, versions symbolic under the invariant" units=outstation::database::details::event::buffer::EventBuffer::insert timeout=900 note="insert<BinaryInput> on ANY invariant state: max 0 => refused, nothing changes; else appended as newest, Unselected, with exactly the given index/class/value/flags/time; a record is discarded iff the type was at capacity, then exactly one of that type, reported (Overflow result, overflow flag); survivors keep order/data/state; invariant restored"
    buf_harness!(vk_c03_buf_insert_bin_a1_b1_l2_f1, insert_contract, 2, 1, 1, 1, 2, 2, 1, false);
    // @harness ids=C03,C13 tier=thorough kind=bounded bound="capacity<=3: max_binary=1 max_counter=1 others 0; canonical list layout with storage length 2, free-stack length 1; record contents, states, versions symbolic under the invariant" units=outstation::database::details::event::buffer::EventBuffer::insert timeout=900 note="same contract for insert<Counter> (second enabled type)"
    buf_harness!(vk_c03_buf_insert_ctr_a1_b1_l2_f1, insert_contract, 2, 1, 1, 1, 2, 2, 1, true);
    // @harness ids=C03,C13 tier=thorough kind=bounded bound="capacity<=3: max_binary=1 max_counter=1 others 0; canonical list layout with storage length 2, free-stack length 1; record contents, states, versions symbolic under the invariant" units=outstation::database::details::event::buffer::EventBuffer::select_by_class,outstation::database::details::event::buffer::EventBuffer::select timeout=900 note="select_by_class for every class set and limit: exactly the first min(limit,k) Unselected matching records become Selected (default variation), oldest first; returns that count; nothing else changes"
    buf_harness!(vk_c03_buf_select_class_a1_b1_l2_f1, select_contract, 2, 1, 1, 1, 2, 2, 1, false);
    // @harness ids=C03,C13 tier=thorough kind=bounded bound="capacity<=3: max_binary=1 max_counter=1 others 0; canonical list layout with storage length 2, free-stack length 1; record contents, states, versions symbolic under the invariant" units=outstation::database::details::event::buffer::EventBuffer::select_by_type,outstation::database::details::event::buffer::EventBuffer::select_specific_variation,outstation::database::details::event::buffer::EventBuffer::select_default_variation,outstation::database::details::event::buffer::EventBuffer::select timeout=900 note="select_by_type<BinaryInput> for every variation choice and limit: exactly the first min(limit,k) Unselected records of the type become Selected with that variation; nothing else changes"
    buf_harness!(vk_c03_buf_select_type_a1_b1_l2_f1, select_contract, 2, 1, 1, 1, 2, 2, 1, true);
    // @harness ids=C03,C13 tier=thorough kind=bounded bound="capacity<=3: max_binary=1 max_counter=1 others 0; canonical list layout with storage length 2, free-stack length 1; record contents, states, versions symbolic under the invariant" units=outstation::database::details::event::buffer::EventBuffer::write_events,outstation::database::details::event::buffer::EventBuffer::selected_iter timeout=900 stubs=1 note="write_events: the encoder (contract stub, logged) is asked once per Selected record oldest first until it refuses; exactly the encoded prefix becomes Written; Ok(n) iff all encoded else Err(encoded); written counters follow (invariant); nothing else changes"
    buf_write_harness!(vk_c03_buf_write_a1_b1_l2_f1, 2, 1, 1, 1, 2, 2, 1);
    // @harness ids=C03,C13 tier=thorough kind=bounded bound="capacity<=3: max_binary=1 max_counter=1 others 0; canonical list layout with storage length 2, free-stack length 1; record contents, states, versions symbolic under the invariant" units=outstation::database::details::event::buffer::EventBuffer::reset,outstation::database::details::event::buffer::EventBuffer::unwritten_classes timeout=900 note="reset: every record keeps its data and becomes Unselected, nothing is removed, written counters zero, every stored class announced again"
    buf_harness!(vk_c03_buf_reset_a1_b1_l2_f1, reset_contract, 2, 1, 1, 1, 2, 2, 1);
    // @harness ids=C03,C13 tier=thorough kind=bounded bound="capacity<=3: max_binary=1 max_counter=1 others 0; canonical list layout with storage length 2, free-stack length 1; record contents, states, versions symbolic under the invariant" units=outstation::database::details::event::buffer::EventBuffer::unwritten_classes,outstation::database::details::event::buffer::EventBuffer::is_overflown,outstation::database::details::event::buffer::EventBuffer::buffer_state timeout=900 note="unwritten_classes: class bit set IFF a record of that class exists whose state is not Written (no underflow); buffer_state counts are the stored records"
    buf_harness!(vk_c03_buf_observers_a1_b1_l2_f1, observers_contract, 2, 1, 1, 1, 2, 2, 1);
    // @harness ids=C03,C13 tier=thorough kind=bounded bound="capacity<=3: max_binary=1 max_counter=1 others 0; canonical list layout with storage length 2, free-stack length 1; at most one stored record; record contents, states, versions symbolic under the invariant" units=outstation::database::details::event::buffer::EventBuffer::clear_written,outstation::database::details::event::buffer::EventBuffer::is_any_full,outstation::database::details::event::buffer::EventBuffer::is_full timeout=300 note="clear_written: exactly the Written records are released, each reported to the application exactly once oldest first; every other record survives with data/variation/state; written counters zero; overflow flag cleared iff no type left at capacity; invariant restored"
    buf_harness!(vk_c03_buf_clear_a1_b1_l2_f1, clear_contract, 2, 1, 1, 1, 2, 2, 1, 0);
    // @harness ids=C03,C13 tier=thorough kind=bounded bound="capacity<=3: max_binary=1 max_counter=1 others 0; canonical list layout with storage length 2, free-stack length 2; record contents, states, versions symbolic under the invariant" units=outstation::database::details::event::buffer::EventBuffer::insert timeout=900 note="insert<BinaryInput> on ANY invariant state: max 0 => refused, nothing changes; else appended as newest, Unselected, with exactly the given index/class/value/flags/time; a record is discarded iff the type was at capacity, then exactly one of that type, reported (Overflow result, overflow flag); survivors keep order/data/state; invariant restored"
    buf_harness!(vk_c03_buf_insert_bin_a1_b1_l2_f2, insert_contract, 1, 1, 1, 1, 2, 2, 2, false);
    // @harness ids=C03,C13 tier=thorough kind=bounded bound="capacity<=3: max_binary=1 max_counter=1 others 0; canonical list layout with storage length 2, free-stack length 2; record contents, states, versions symbolic under the invariant" units=outstation::database::details::event::buffer::EventBuffer::insert timeout=900 note="same contract for insert<Counter> (second enabled type)"
    buf_harness!(vk_c03_buf_insert_ctr_a1_b1_l2_f2, insert_contract, 1, 1, 1, 1, 2, 2, 2, true);
    // @harness ids=C03,C13 tier=thorough kind=bounded bound="capacity<=3: max_binary=1 max_counter=1 others 0; canonical list layout with storage length 2, free-stack length 2; record contents, states, versions symbolic under the invariant" units=outstation::database::details::event::buffer::EventBuffer::select_by_class,outstation::database::details::event::buffer::EventBuffer::select timeout=900 note="select_by_class for every class set and limit: exactly the first min(limit,k) Unselected matching records become Selected (default variation), oldest first; returns that count; nothing else changes"
    buf_harness!(vk_c03_buf_select_class_a1_b1_l2_f2, select_contract, 1, 1, 1, 1, 2, 2, 2, false);
    // @harness ids=C03,C13 tier=thorough kind=bounded bound="capacity<=3: max_binary=1 max_counter=1 others 0; canonical list layout with storage length 2, free-stack length 2; record contents, states, versions symbolic under the invariant" units=outstation::database::details::event::buffer::EventBuffer::select_by_type,outstation::database::details::event::buffer::EventBuffer::select_specific_variation,outstation::database::details::event::buffer::EventBuffer::select_default_variation,outstation::database::details::event::buffer::EventBuffer::select timeout=900 note="select_by_type<BinaryInput> for every variation choice and limit: exactly the first min(limit,k) Unselected records of the type become Selected with that variation; nothing else changes"
    buf_harness!(vk_c03_buf_select_type_a1_b1_l2_f2, select_contract, 1, 1, 1, 1, 2, 2, 2, true);
    // @harness ids=C03,C13 tier=thorough kind=bounded bound="capacity<=3: max_binary=1 max_counter=1 others 0; canonical list layout with storage length 2, free-stack length 2; record contents, states, versions symbolic under the invariant" units=outstation::database::details::event::buffer::EventBuffer::write_events,outstation::database::details::event::buffer::EventBuffer::selected_iter timeout=900 stubs=1 note="write_events: the encoder (contract stub, logged) is asked once per Selected record oldest first until it refuses; exactly the encoded prefix becomes Written; Ok(n) iff all encoded else Err(encoded); written counters follow (invariant); nothing else changes"
    buf_write_harness!(vk_c03_buf_write_a1_b1_l2_f2, 1, 1, 1, 1, 2, 2, 2);
    // @harness ids=C03,C13 tier=thorough kind=bounded bound="capacity<=3: max_binary=1 max_counter=1 others 0; canonical list layout with storage length 2, free-stack length 2; record contents, states, versions symbolic under the invariant" units=outstation::database::details::event::buffer::EventBuffer::reset,outstation::database::details::event::buffer::EventBuffer::unwritten_classes timeout=900 note="reset: every record keeps its data and becomes Unselected, nothing is removed, written counters zero, every stored class announced again"
    buf_harness!(vk_c03_buf_reset_a1_b1_l2_f2, reset_contract, 1, 1, 1, 1, 2, 2, 2);
    // @harness ids=C03,C13 tier=thorough kind=bounded bound="capacity<=3: max_binary=1 max_counter=1 others 0; canonical list layout with storage length 2, free-stack length 2; record contents, states, versions symbolic under the invariant" units=outstation::database::details::event::buffer::EventBuffer::unwritten_classes,outstation::database::details::event::buffer::EventBuffer::is_overflown,outstation::database::details::event::buffer::EventBuffer::buffer_state timeout=900 note="unwritten_classes: class bit set IFF a record of that class exists whose state is not Written (no underflow); buffer_state counts are the stored records"
    buf_harness!(vk_c03_buf_observers_a1_b1_l2_f2, observers_contract, 1, 1, 1, 1, 2, 2, 2);
    // @harness ids=C03,C13 tier=thorough kind=bounded bound="capacity<=3: max_binary=1 max_counter=1 others 0; canonical list layout with storage length 2, free-stack length 2; at most one stored record; record contents, states, versions symbolic under the invariant" units=outstation::database::details::event::buffer::EventBuffer::clear_written,outstation::database::details::event::buffer::EventBuffer::is_any_full,outstation::database::details::event::buffer::EventBuffer::is_full timeout=300 note="clear_written: exactly the Written records are released, each reported to the application exactly once oldest first; every other record survives with data/variation/state; written counters zero; overflow flag cleared iff no type left at capacity; invariant restored"
    buf_harness!(vk_c03_buf_clear_a1_b1_l2_f2, clear_contract, 1, 1, 1, 1, 2, 2, 2, 0);
    // @harness ids=C03,C13,C01 tier=quick kind=proof units=outstation::database::details::event::buffer::EventBuffer::new timeout=120 note="a new store (max_binary=1, max_counter=0) satisfies the invariant, is empty, announces nothing (base case)"
    buf_harness!(vk_c03_buf_new_a1_b0, new_contract, 1, 1, 0, 1);
    // @harness ids=C03,C13 tier=quick kind=bounded bound="capacity<=3: max_binary=1 max_counter=0 others 0; canonical list layout with storage length 0, free-stack length 0; record contents, states, versions symbolic under the invariant" units=outstation::database::details::event::buffer::EventBuffer::insert timeout=300 note="insert<BinaryInput> on ANY invariant state: max 0 => refused, nothing changes; else appended as newest, Unselected, with exactly the given index/class/value/flags/time; a record is discarded iff the type was at capacity, then exactly one of that type, reported (Overflow result, overflow flag); survivors keep order/data/state; invariant restored"
    buf_harness!(vk_c03_buf_insert_bin_a1_b0_l0_f0, insert_contract, 1, 1, 1, 0, 1, 0, 0, false);
    // @harness ids=C03,C13 tier=thorough kind=bounded bound="capacity<=3: max_binary=1 max_counter=0 others 0; canonical list layout with storage length 0, free-stack length 0; record contents, states, versions symbolic under the invariant" units=outstation::database::details::event::buffer::EventBuffer::insert timeout=900 note="same contract for insert<Counter> (second enabled type)"
    buf_harness!(vk_c03_buf_insert_ctr_a1_b0_l0_f0, insert_contract, 1, 1, 1, 0, 1, 0, 0, true);
    // @harness ids=C03,C13 tier=thorough kind=bounded bound="capacity<=3: max_binary=1 max_counter=0 others 0; canonical list layout with storage length 0, free-stack length 0; record contents, states, versions symbolic under the invariant" units=outstation::database::details::event::buffer::EventBuffer::select_by_class,outstation::database::details::event::buffer::EventBuffer::select timeout=900 note="select_by_class for every class set and limit: exactly the first min(limit,k) Unselected matching records become Selected (default variation), oldest first; returns that count; nothing else changes"
    buf_harness!(vk_c03_buf_select_class_a1_b0_l0_f0, select_contract, 1, 1, 1, 0, 1, 0, 0, false);
    // @harness ids=C03,C13 tier=thorough kind=bounded bound="capacity<=3: max_binary=1 max_counter=0 others 0; canonical list layout with storage length 0, free-stack length 0; record contents, states, versions symbolic under the invariant" units=outstation::database::details::event::buffer::EventBuffer::select_by_type,outstation::database::details::event::buffer::EventBuffer::select_specific_variation,outstation::database::details::event::buffer::EventBuffer::select_default_variation,outstation::database::details::event::buffer::EventBuffer::select timeout=900 note="select_by_type<BinaryInput> for every variation choice and limit: exactly the first min(limit,k) Unselected records of the type become Selected with that variation; nothing else changes"
    buf_harness!(vk_c03_buf_select_type_a1_b0_l0_f0, select_contract, 1, 1, 1, 0, 1, 0, 0, true);
    // @harness ids=C03,C13 tier=thorough kind=bounded bound="capacity<=3: max_binary=1 max_counter=0 others 0; canonical list layout with storage length 0, free-stack length 0; record contents, states, versions symbolic under the invariant" units=outstation::database::details::event::buffer::EventBuffer::write_events,outstation::database::details::event::buffer::EventBuffer::selected_iter timeout=900 stubs=1 note="write_events: the encoder (contract stub, logged) is asked once per Selected record oldest first until it refuses; exactly the encoded prefix becomes Written; Ok(n) iff all encoded else Err(encoded); written counters follow (invariant); nothing else changes"
    buf_write_harness!(vk_c03_buf_write_a1_b0_l0_f0, 1, 1, 1, 0, 1, 0, 0);
    // @harness ids=C03,C13 tier=thorough kind=bounded bound="capacity<=3: max_binary=1 max_counter=0 others 0; canonical list layout with storage length 0, free-stack length 0; record contents, states, versions symbolic under the invariant" units=outstation::database::details::event::buffer::EventBuffer::reset,outstation::database::details::event::buffer::EventBuffer::unwritten_classes timeout=900 note="reset: every record keeps its data and becomes Unselected, nothing is removed, written counters zero, every stored class announced again"
    buf_harness!(vk_c03_buf_reset_a1_b0_l0_f0, reset_contract, 1, 1, 1, 0, 1, 0, 0);
    // @harness ids=C03,C13 tier=thorough kind=bounded bound="capacity<=3: max_binary=1 max_counter=0 others 0; canonical list layout with storage length 0, free-stack length 0; record contents, states, versions symbolic under the invariant" units=outstation::database::details::event::buffer::EventBuffer::unwritten_classes,outstation::database::details::event::buffer::EventBuffer::is_overflown,outstation::database::details::event::buffer::EventBuffer::buffer_state timeout=900 note="unwritten_classes: class bit set IFF a record of that class exists whose state is not Written (no underflow); buffer_state counts are the stored records"
    buf_harness!(vk_c03_buf_observers_a1_b0_l0_f0, observers_contract, 1, 1, 1, 0, 1, 0, 0);
    // @harness ids=C03,C13 tier=thorough kind=bounded bound="capacity<=3: max_binary=1 max_counter=0 others 0; canonical list layout with storage length 0, free-stack length 0; at most one stored record; record contents, states, versions symbolic under the invariant" units=outstation::database::details::event::buffer::EventBuffer::clear_written,outstation::database::details::event::buffer::EventBuffer::is_any_full,outstation::database::details::event::buffer::EventBuffer::is_full timeout=300 note="clear_written: exactly the Written records are released, each reported to the application exactly once oldest first; every other record survives with data/variation/state; written counters zero; overflow flag cleared iff no type left at capacity; invariant restored"
    buf_harness!(vk_c03_buf_clear_a1_b0_l0_f0, clear_contract, 1, 1, 1, 0, 1, 0, 0, 0);
    // @harness ids=C03,C13 tier=quick kind=bounded bound="capacity<=3: max_binary=1 max_counter=0 others 0; canonical list layout with storage length 1, free-stack length 0; record contents, states, versions symbolic under the invariant" units=outstation::database::details::event::buffer::EventBuffer::insert timeout=300 note="insert<BinaryInput> on ANY invariant state: max 0 => refused, nothing changes; else appended as newest, Unselected, with exactly the given index/class/value/flags/time; a record is discarded iff the type was at capacity, then exactly one of that type, reported (Overflow result, overflow flag); survivors keep order/data/state; invariant restored"
    buf_harness!(vk_c03_buf_insert_bin_a1_b0_l1_f0, insert_contract, 2, 1, 1, 0, 1, 1, 0, false);
    // @harness ids=C03,C13 tier=thorough kind=bounded bound="capacity<=3: max_binary=1 max_counter=0 others 0; canonical list layout with storage length 1, free-stack length 0; record contents, states, versions symbolic under the invariant" units=outstation::database::details::event::buffer::EventBuffer::insert timeout=900 note="same contract for insert<Counter> (second enabled type)"
    buf_harness!(vk_c03_buf_insert_ctr_a1_b0_l1_f0, insert_contract, 2, 1, 1, 0, 1, 1, 0, true);
    // @harness ids=C03,C13 tier=thorough kind=bounded bound="capacity<=3: max_binary=1 max_counter=0 others 0; canonical list layout with storage length 1, free-stack length 0; record contents, states, versions symbolic under the invariant" units=outstation::database::details::event::buffer::EventBuffer::select_by_class,outstation::database::details::event::buffer::EventBuffer::select timeout=900 note="select_by_class for every class set and limit: exactly the first min(limit,k) Unselected matching records become Selected (default variation), oldest first; returns that count; nothing else changes"
    buf_harness!(vk_c03_buf_select_class_a1_b0_l1_f0, select_contract, 2, 1, 1, 0, 1, 1, 0, false);
    // @harness ids=C03,C13 tier=thorough kind=bounded bound="capacity<=3: max_binary=1 max_counter=0 others 0; canonical list layout with storage length 1, free-stack length 0; record contents, states, versions symbolic under the invariant" units=outstation::database::details::event::buffer::EventBuffer::select_by_type,outstation::database::details::event::buffer::EventBuffer::select_specific_variation,outstation::database::details::event::buffer::EventBuffer::select_default_variation,outstation::database::details::event::buffer::EventBuffer::select timeout=900 note="select_by_type<BinaryInput> for every variation choice and limit: exactly the first min(limit,k) Unselected records of the type become Selected with that variation; nothing else changes"
    buf_harness!(vk_c03_buf_select_type_a1_b0_l1_f0, select_contract, 2, 1, 1, 0, 1, 1, 0, true);
    // @harness ids=C03,C13 tier=thorough kind=bounded bound="capacity<=3: max_binary=1 max_counter=0 others 0; canonical list layout with storage length 1, free-stack length 0; record contents, states, versions symbolic under the invariant" units=outstation::database::details::event::buffer::EventBuffer::write_events,outstation::database::details::event::buffer::EventBuffer::selected_iter timeout=900 stubs=1 note="write_events: the encoder (contract stub, logged) is asked once per Selected record oldest first until it refuses; exactly the encoded prefix becomes Written; Ok(n) iff all encoded else Err(encoded); written counters follow (invariant); nothing else changes"
    buf_write_harness!(vk_c03_buf_write_a1_b0_l1_f0, 2, 1, 1, 0, 1, 1, 0);
    // @harness ids=C03,C13 tier=thorough kind=bounded bound="capacity<=3: max_binary=1 max_counter=0 others 0; canonical list layout with storage length 1, free-stack length 0; record contents, states, versions symbolic under the invariant" units=outstation::database::details::event::buffer::EventBuffer::reset,outstation::database::details::event::buffer::EventBuffer::unwritten_classes timeout=900 note="reset: every record keeps its data and becomes Unselected, nothing is removed, written counters zero, every stored class announced again"
    buf_harness!(vk_c03_buf_reset_a1_b0_l1_f0, reset_contract, 2, 1, 1, 0, 1, 1, 0);
    // @harness ids=C03,C13 tier=thorough kind=bounded bound="capacity<=3: max_binary=1 max_counter=0 others 0; canonical list layout with storage length 1, free-stack length 0; record contents, states, versions symbolic under the invariant" units=outstation::database::details::event::buffer::EventBuffer::unwritten_classes,outstation::database::details::event::buffer::EventBuffer::is_overflown,outstation::database::details::event::buffer::EventBuffer::buffer_state timeout=900 note="unwritten_classes: class bit set IFF a record of that class exists whose state is not Written (no underflow); buffer_state counts are the stored records"
    buf_harness!(vk_c03_buf_observers_a1_b0_l1_f0, observers_contract, 2, 1, 1, 0, 1, 1, 0);
    // @harness ids=C03,C13 tier=quick kind=bounded bound="capacity<=3: max_binary=1 max_counter=0 others 0; canonical list layout with storage length 1, free-stack length 0; at most one stored record; record contents, states, versions symbolic under the invariant" units=outstation::database::details::event::buffer::EventBuffer::clear_written,outstation::database::details::event::buffer::EventBuffer::is_any_full,outstation::database::details::event::buffer::EventBuffer::is_full timeout=300 note="clear_written: exactly the Written records are released, each reported to the application exactly once oldest first; every other record survives with data/variation/state; written counters zero; overflow flag cleared iff no type left at capacity; invariant restored"
    buf_harness!(vk_c03_buf_clear_a1_b0_l1_f0, clear_contract, 2, 1, 1, 0, 1, 1, 0, 0);
    // @harness ids=C03,C13 tier=quick kind=bounded bound="capacity<=3: max_binary=1 max_counter=0 others 0; canonical list layout with storage length 1, free-stack length 1; record contents, states, versions symbolic under the invariant" units=outstation::database::details::event::buffer::EventBuffer::insert timeout=300 note="insert<BinaryInput> on ANY invariant state: max 0 => refused, nothing changes; else appended as newest, Unselected, with exactly the given index/class/value/flags/time; a record is discarded iff the type was at capacity, then exactly one of that type, reported (Overflow result, overflow flag); survivors keep order/data/state; invariant restored"
    buf_harness!(vk_c03_buf_insert_bin_a1_b0_l1_f1, insert_contract, 1, 1, 1, 0, 1, 1, 1, false);
    // @harness ids=C03,C13 tier=thorough kind=bounded bound="capacity<=3: max_binary=1 max_counter=0 others 0; canonical list layout with storage length 1, free-stack length 1; record contents, states, versions symbolic under the invariant" units=outstation::database::details::event::buffer::EventBuffer::insert timeout=900 note="same contract for insert<Counter> (second enabled type)"
    buf_harness!(vk_c03_buf_insert_ctr_a1_b0_l1_f1, insert_contract, 1, 1, 1, 0, 1, 1, 1, true);
    // @harness ids=C03,C13 tier=thorough kind=bounded bound="capacity<=3: max_binary=1 max_counter=0 others 0; canonical list layout with storage length 1, free-stack length 1; record contents, states, versions symbolic under the invariant" units=outstation::database::details::event::buffer::EventBuffer::select_by_class,outstation::database::details::event::buffer::EventBuffer::select timeout=900 note="select_by_class for every class set and limit: exactly the first min(limit,k) Unselected matching records become Selected (default variation), oldest first; returns that count; nothing else changes"
    buf_harness!(vk_c03_buf_select_class_a1_b0_l1_f1, select_contract, 1, 1, 1, 0, 1, 1, 1, false);
    // @harness ids=C03,C13 tier=thorough kind=bounded bound="capacity<=3: max_binary=1 max_counter=0 others 0; canonical list layout with storage length 1, free-stack length 1; record contents, states, versions symbolic under the invariant" units=outstation::database::details::event::buffer::EventBuffer::select_by_type,outstation::database::details::event::buffer::EventBuffer::select_specific_variation,outstation::database::details::event::buffer::EventBuffer::select_default_variation,outstation::database::details::event::buffer::EventBuffer::select timeout=900 note="select_by_type<BinaryInput> for every variation choice and limit: exactly the first min(limit,k) Unselected records of the type become Selected with that variation; nothing else changes"
    buf_harness!(vk_c03_buf_select_type_a1_b0_l1_f1, select_contract, 1, 1, 1, 0, 1, 1, 1, true);
    // @harness ids=C03,C13 tier=thorough kind=bounded bound="capacity<=3: max_binary=1 max_counter=0 others 0; canonical list layout with storage length 1, free-stack length 1; record contents, states, versions symbolic under the invariant" units=outstation::database::details::event::buffer::EventBuffer::write_events,outstation::database::details::event::buffer::EventBuffer::selected_iter timeout=900 stubs=1 note="write_events: the encoder (contract stub, logged) is asked once per Selected record oldest first until it refuses; exactly the encoded prefix becomes Written; Ok(n) iff all encoded else Err(encoded); written counters follow (invariant); nothing else changes"
    buf_write_harness!(vk_c03_buf_write_a1_b0_l1_f1, 1, 1, 1, 0, 1, 1, 1);
    // @harness ids=C03,C13 tier=thorough kind=bounded bound="capacity<=3: max_binary=1 max_counter=0 others 0; canonical list layout with storage length 1, free-stack length 1; record contents, states, versions symbolic under the invariant" units=outstation::database::details::event::buffer::EventBuffer::reset,outstation::database::details::event::buffer::EventBuffer::unwritten_classes timeout=900 note="reset: every record keeps its data and becomes Unselected, nothing is removed, written counters zero, every stored class announced again"
    buf_harness!(vk_c03_buf_reset_a1_b0_l1_f1, reset_contract, 1, 1, 1, 0, 1, 1, 1);
    // @harness ids=C03,C13 tier=thorough kind=bounded bound="capacity<=3: max_binary=1 max_counter=0 others 0; canonical list layout with storage length 1, free-stack length 1; record contents, states, versions symbolic under the invariant" units=outstation::database::details::event::buffer::EventBuffer::unwritten_classes,outstation::database::details::event::buffer::EventBuffer::is_overflown,outstation::database::details::event::buffer::EventBuffer::buffer_state timeout=900 note="unwritten_classes: class bit set IFF a record of that class exists whose state is not Written (no underflow); buffer_state counts are the stored records"
    buf_harness!(vk_c03_buf_observers_a1_b0_l1_f1, observers_contract, 1, 1, 1, 0, 1, 1, 1);
    // @harness ids=C03,C13 tier=quick kind=bounded bound="capacity<=3: max_binary=1 max_counter=0 others 0; canonical list layout with storage length 1, free-stack length 1; at most one stored record; record contents, states, versions symbolic under the invariant" units=outstation::database::details::event::buffer::EventBuffer::clear_written,outstation::database::details::event::buffer::EventBuffer::is_any_full,outstation::database::details::event::buffer::EventBuffer::is_full timeout=300 note="clear_written: exactly the Written records are released, each reported to the application exactly once oldest first; every other record survives with data/variation/state; written counters zero; overflow flag cleared iff no type left at capacity; invariant restored"
    buf_harness!(vk_c03_buf_clear_a1_b0_l1_f1, clear_contract, 1, 1, 1, 0, 1, 1, 1, 0);
    // @harness ids=C03,C13,C01 tier=quick kind=proof units=outstation::database::details::event::buffer::EventBuffer::new timeout=120 note="a new store (max_binary=0, max_counter=1) satisfies the invariant, is empty, announces nothing (base case)"
    buf_harness!(vk_c03_buf_new_a0_b1, new_contract, 1, 0, 1, 1);
    // @harness ids=C03,C13 tier=thorough kind=bounded bound="capacity<=3: max_binary=0 max_counter=1 others 0; canonical list layout with storage length 0, free-stack length 0; record contents, states, versions symbolic under the invariant" units=outstation::database::details::event::buffer::EventBuffer::insert timeout=900 note="insert<BinaryInput> on ANY invariant state: max 0 => refused, nothing changes; else appended as newest, Unselected, with exactly the given index/class/value/flags/time; a record is discarded iff the type was at capacity, then exactly one of that type, reported (Overflow result, overflow flag); survivors keep order/data/state; invariant restored"
    buf_harness!(vk_c03_buf_insert_bin_a0_b1_l0_f0, insert_contract, 1, 1, 0, 1, 1, 0, 0, false);
    // @harness ids=C03,C13 tier=thorough kind=bounded bound="capacity<=3: max_binary=0 max_counter=1 others 0; canonical list layout with storage length 0, free-stack length 0; record contents, states, versions symbolic under the invariant" units=outstation::database::details::event::buffer::EventBuffer::insert timeout=900 note="same contract for insert<Counter> (second enabled type)"
    buf_harness!(vk_c03_buf_insert_ctr_a0_b1_l0_f0, insert_contract, 1, 1, 0, 1, 1, 0, 0, true);
    // @harness ids=C03,C13 tier=thorough kind=bounded bound="capacity<=3: max_binary=0 max_counter=1 others 0; canonical list layout with storage length 0, free-stack length 0; record contents, states, versions symbolic under the invariant" units=outstation::database::details::event::buffer::EventBuffer::select_by_class,outstation::database::details::event::buffer::EventBuffer::select timeout=900 note="select_by_class for every class set and limit: exactly the first min(limit,k) Unselected matching records become Selected (default variation), oldest first; returns that count; nothing else changes"
    buf_harness!(vk_c03_buf_select_class_a0_b1_l0_f0, select_contract, 1, 1, 0, 1, 1, 0, 0, false);
    // @harness ids=C03,C13 tier=thorough kind=bounded bound="capacity<=3: max_binary=0 max_counter=1 others 0; canonical list layout with storage length 0, free-stack length 0; record contents, states, versions symbolic under the invariant" units=outstation::database::details::event::buffer::EventBuffer::write_events,outstation::database::details::event::buffer::EventBuffer::selected_iter timeout=900 stubs=1 note="write_events: the encoder (contract stub, logged) is asked once per Selected record oldest first until it refuses; exactly the encoded prefix becomes Written; Ok(n) iff all encoded else Err(encoded); written counters follow (invariant); nothing else changes"
    buf_write_harness!(vk_c03_buf_write_a0_b1_l0_f0, 1, 1, 0, 1, 1, 0, 0);
    // @harness ids=C03,C13 tier=thorough kind=bounded bound="capacity<=3: max_binary=0 max_counter=1 others 0; canonical list layout with storage length 0, free-stack length 0; record contents, states, versions symbolic under the invariant" units=outstation::database::details::event::buffer::EventBuffer::reset,outstation::database::details::event::buffer::EventBuffer::unwritten_classes timeout=900 note="reset: every record keeps its data and becomes Unselected, nothing is removed, written counters zero, every stored class announced again"
    buf_harness!(vk_c03_buf_reset_a0_b1_l0_f0, reset_contract, 1, 1, 0, 1, 1, 0, 0);
    // @harness ids=C03,C13 tier=thorough kind=bounded bound="capacity<=3: max_binary=0 max_counter=1 others 0; canonical list layout with storage length 0, free-stack length 0; record contents, states, versions symbolic under the invariant" units=outstation::database::details::event::buffer::EventBuffer::unwritten_classes,outstation::database::details::event::buffer::EventBuffer::is_overflown,outstation::database::details::event::buffer::EventBuffer::buffer_state timeout=900 note="unwritten_classes: class bit set IFF a record of that class exists whose state is not Written (no underflow); buffer_state counts are the stored records"
    buf_harness!(vk_c03_buf_observers_a0_b1_l0_f0, observers_contract, 1, 1, 0, 1, 1, 0, 0);
    // @harness ids=C03,C13 tier=thorough kind=bounded bound="capacity<=3: max_binary=0 max_counter=1 others 0; canonical list layout with storage length 0, free-stack length 0; at most one stored record; record contents, states, versions symbolic under the invariant" units=outstation::database::details::event::buffer::EventBuffer::clear_written,outstation::database::details::event::buffer::EventBuffer::is_any_full,outstation::database::details::event::buffer::EventBuffer::is_full timeout=300 note="clear_written: exactly the Written records are released, each reported to the application exactly once oldest first; every other record survives with data/variation/state; written counters zero; overflow flag cleared iff no type left at capacity; invariant restored"
    buf_harness!(vk_c03_buf_clear_a0_b1_l0_f0, clear_contract, 1, 1, 0, 1, 1, 0, 0, 0);
    // @harness ids=C03,C13 tier=quick kind=bounded bound="capacity<=3: max_binary=0 max_counter=1 others 0; canonical list layout with storage length 1, free-stack length 0; record contents, states, versions symbolic under the invariant" units=outstation::database::details::event::buffer::EventBuffer::insert timeout=300 note="insert<BinaryInput> on ANY invariant state: max 0 => refused, nothing changes; else appended as newest, Unselected, with exactly the given index/class/value/flags/time; a record is discarded iff the type was at capacity, then exactly one of that type, reported (Overflow result, overflow flag); survivors keep order/data/state; invariant restored"
    buf_harness!(vk_c03_buf_insert_bin_a0_b1_l1_f0, insert_contract, 2, 1, 0, 1, 1, 1, 0, false);
    // @harness ids=C03,C13 tier=thorough kind=bounded bound="capacity<=3: max_binary=0 max_counter=1 others 0; canonical list layout with storage length 1, free-stack length 0; record contents, states, versions symbolic under the invariant" units=outstation::database::details::event::buffer::EventBuffer::insert timeout=900 note="same contract for insert<Counter> (second enabled type)"
    buf_harness!(vk_c03_buf_insert_ctr_a0_b1_l1_f0, insert_contract, 2, 1, 0, 1, 1, 1, 0, true);
    // @harness ids=C03,C13 tier=thorough kind=bounded bound="capacity<=3: max_binary=0 max_counter=1 others 0; canonical list layout with storage length 1, free-stack length 0; record contents, states, versions symbolic under the invariant" units=outstation::database::details::event::buffer::EventBuffer::select_by_class,outstation::database::details::event::buffer::EventBuffer::select timeout=900 note="select_by_class for every class set and limit: exactly the first min(limit,k) Unselected matching records become Selected (default variation), oldest first; returns that count; nothing else changes"
    buf_harness!(vk_c03_buf_select_class_a0_b1_l1_f0, select_contract, 2, 1, 0, 1, 1, 1, 0, false);
    // @harness ids=C03,C13 tier=thorough kind=bounded bound="capacity<=3: max_binary=0 max_counter=1 others 0; canonical list layout with storage length 1, free-stack length 0; record contents, states, versions symbolic under the invariant" units=outstation::database::details::event::buffer::EventBuffer::write_events,outstation::database::details::event::buffer::EventBuffer::selected_iter timeout=900 stubs=1 note="write_events: the encoder (contract stub, logged) is asked once per Selected record oldest first until it refuses; exactly the encoded prefix becomes Written; Ok(n) iff all encoded else Err(encoded); written counters follow (invariant); nothing else changes"
    buf_write_harness!(vk_c03_buf_write_a0_b1_l1_f0, 2, 1, 0, 1, 1, 1, 0);
    // @harness ids=C03,C13 tier=thorough kind=bounded bound="capacity<=3: max_binary=0 max_counter=1 others 0; canonical list layout with storage length 1, free-stack length 0; record contents, states, versions symbolic under the invariant" units=outstation::database::details::event::buffer::EventBuffer::reset,outstation::database::details::event::buffer::EventBuffer::unwritten_classes timeout=900 note="reset: every record keeps its data and becomes Unselected, nothing is removed, written counters zero, every stored class announced again"
    buf_harness!(vk_c03_buf_reset_a0_b1_l1_f0, reset_contract, 2, 1, 0, 1, 1, 1, 0);
    // @harness ids=C03,C13 tier=thorough kind=bounded bound="capacity<=3: max_binary=0 max_counter=1 others 0; canonical list layout with storage length 1, free-stack length 0; record contents, states, versions symbolic under the invariant" units=outstation::database::details::event::buffer::EventBuffer::unwritten_classes,outstation::database::details::event::buffer::EventBuffer::is_overflown,outstation::database::details::event::buffer::EventBuffer::buffer_state timeout=900 note="unwritten_classes: class bit set IFF a record of that class exists whose state is not Written (no underflow); buffer_state counts are the stored records"
    buf_harness!(vk_c03_buf_observers_a0_b1_l1_f0, observers_contract, 2, 1, 0, 1, 1, 1, 0);
    // @harness ids=C03,C13 tier=thorough kind=bounded bound="capacity<=3: max_binary=0 max_counter=1 others 0; canonical list layout with storage length 1, free-stack length 0; at most one stored record; record contents, states, versions symbolic under the invariant" units=outstation::database::details::event::buffer::EventBuffer::clear_written,outstation::database::details::event::buffer::EventBuffer::is_any_full,outstation::database::details::event::buffer::EventBuffer::is_full timeout=300 note="clear_written: exactly the Written records are released, each reported to the application exactly once oldest first; every other record survives with data/variation/state; written counters zero; overflow flag cleared iff no type left at capacity; invariant restored"
    buf_harness!(vk_c03_buf_clear_a0_b1_l1_f0, clear_contract, 2, 1, 0, 1, 1, 1, 0, 0);
    // @harness ids=C03,C13 tier=thorough kind=bounded bound="capacity<=3: max_binary=0 max_counter=1 others 0; canonical list layout with storage length 1, free-stack length 1; record contents, states, versions symbolic under the invariant" units=outstation::database::details::event::buffer::EventBuffer::insert timeout=900 note="insert<BinaryInput> on ANY invariant state: max 0 => refused, nothing changes; else appended as newest, Unselected, with exactly the given index/class/value/flags/time; a record is discarded iff the type was at capacity, then exactly one of that type, reported (Overflow result, overflow flag); survivors keep order/data/state; invariant restored"
    buf_harness!(vk_c03_buf_insert_bin_a0_b1_l1_f1, insert_contract, 1, 1, 0, 1, 1, 1, 1, false);
    // @harness ids=C03,C13 tier=thorough kind=bounded bound="capacity<=3: max_binary=0 max_counter=1 others 0; canonical list layout with storage length 1, free-stack length 1; record contents, states, versions symbolic under the invariant" units=outstation::database::details::event::buffer::EventBuffer::insert timeout=900 note="same contract for insert<Counter> (second enabled type)"
    buf_harness!(vk_c03_buf_insert_ctr_a0_b1_l1_f1, insert_contract, 1, 1, 0, 1, 1, 1, 1, true);
    // @harness ids=C03,C13 tier=thorough kind=bounded bound="capacity<=3: max_binary=0 max_counter=1 others 0; canonical list layout with storage length 1, free-stack length 1; record contents, states, versions symbolic under the invariant" units=outstation::database::details::event::buffer::EventBuffer::select_by_class,outstation::database::details::event::buffer::EventBuffer::select timeout=900 note="select_by_class for every class set and limit: exactly the first min(limit,k) Unselected matching records become Selected (default variation), oldest first; returns that count; nothing else changes"
    buf_harness!(vk_c03_buf_select_class_a0_b1_l1_f1, select_contract, 1, 1, 0, 1, 1, 1, 1, false);
    // @harness ids=C03,C13 tier=thorough kind=bounded bound="capacity<=3: max_binary=0 max_counter=1 others 0; canonical list layout with storage length 1, free-stack length 1; record contents, states, versions symbolic under the invariant" units=outstation::database::details::event::buffer::EventBuffer::write_events,outstation::database::details::event::buffer::EventBuffer::selected_iter timeout=900 stubs=1 note="write_events: the encoder (contract stub, logged) is asked once per Selected record oldest first until it refuses; exactly the encoded prefix becomes Written; Ok(n) iff all encoded else Err(encoded); written counters follow (invariant); nothing else changes"
    buf_write_harness!(vk_c03_buf_write_a0_b1_l1_f1, 1, 1, 0, 1, 1, 1, 1);
    // @harness ids=C03,C13 tier=thorough kind=bounded bound="capacity<=3: max_binary=0 max_counter=1 others 0; canonical list layout with storage length 1, free-stack length 1; record contents, states, versions symbolic under the invariant" units=outstation::database::details::event::buffer::EventBuffer::reset,outstation::database::details::event::buffer::EventBuffer::unwritten_classes timeout=900 note="reset: every record keeps its data and becomes Unselected, nothing is removed, written counters zero, every stored class announced again"
    buf_harness!(vk_c03_buf_reset_a0_b1_l1_f1, reset_contract, 1, 1, 0, 1, 1, 1, 1);
    // @harness ids=C03,C13 tier=thorough kind=bounded bound="capacity<=3: max_binary=0 max_counter=1 others 0; canonical list layout with storage length 1, free-stack length 1; record contents, states, versions symbolic under the invariant" units=outstation::database::details::event::buffer::EventBuffer::unwritten_classes,outstation::database::details::event::buffer::EventBuffer::is_overflown,outstation::database::details::event::buffer::EventBuffer::buffer_state timeout=900 note="unwritten_classes: class bit set IFF a record of that class exists whose state is not Written (no underflow); buffer_state counts are the stored records"
    buf_harness!(vk_c03_buf_observers_a0_b1_l1_f1, observers_contract, 1, 1, 0, 1, 1, 1, 1);
    // @harness ids=C03,C13 tier=thorough kind=bounded bound="capacity<=3: max_binary=0 max_counter=1 others 0; canonical list layout with storage length 1, free-stack length 1; at most one stored record; record contents, states, versions symbolic under the invariant" units=outstation::database::details::event::buffer::EventBuffer::clear_written,outstation::database::details::event::buffer::EventBuffer::is_any_full,outstation::database::details::event::buffer::EventBuffer::is_full timeout=300 note="clear_written: exactly the Written records are released, each reported to the application exactly once oldest first; every other record survives with data/variation/state; written counters zero; overflow flag cleared iff no type left at capacity; invariant restored"
    buf_harness!(vk_c03_buf_clear_a0_b1_l1_f1, clear_contract, 1, 1, 0, 1, 1, 1, 1, 0);
