    // C10: relative-time event variations (g2v3, g4v3): outstation write_cto  ->  5 bytes  ->  master to_measurement(cto).
    use crate::app::measurement::verif_kani_c10_measure as cm;
    use crate::app::Timestamp;
    use crate::verif_spec as spec;

    fn any_cto() -> (Time, bool, u64) {
        let raw: u64 = kani::any();
        let sync: bool = kani::any();
        let ts = Timestamp::new(raw); // masks to 48 bits: whole 48-bit domain
        (if sync { Time::Synchronized(ts) } else { Time::Unsynchronized(ts) }, sync, raw & spec::TIME_MAX)
    }

    /// what write_cto must do for an event time `t` against common time `cto`, and what the master must rebuild.
    /// Returns the relative field if the event was written.
    fn check_write_cto<const N: usize>(
        r: &Result<Continue, WriteError>,
        pos: usize,
        before: &[u8; N],
        after: &[u8; N],
        index: u16,
        wire_flags: u8,
        t: Option<Time>,
        cto_sync: bool,
        cto48: u64,
    ) -> Option<u16> {
        match t {
            None => None, // an event without time cannot be represented relative to a CTO: only absence of panics required
            Some(x) => {
                let rel = spec::cto_relative(x.is_synchronized(), x.timestamp().raw_value(), cto_sync, cto48);
                match rel {
                    None => {
                        assert!(matches!(r, Ok(Continue::NewHeader)), "C10 cto: NewHeader iff sync kind differs or time < cto or time - cto > 65535");
                        assert!(pos == 0, "C10 cto: nothing written when a new header is needed");
                        let mut i = 0;
                        while i < N {
                            assert!(after[i] == before[i]);
                            i += 1;
                        }
                        None
                    }
                    Some(d) => {
                        if N >= 5 {
                            assert!(matches!(r, Ok(Continue::Ok)), "C10 cto: representable => written under the current header");
                            assert!(pos == 5);
                            assert!(after[0] == (index & 0xFF) as u8 && after[1] == (index >> 8) as u8, "C10: index prefix unchanged");
                            assert!(after[2] == wire_flags, "C10: flag octet with state bits");
                            assert!(after[3] == (d & 0xFF) as u8 && after[4] == (d >> 8) as u8, "C10 cto: relative field = time - cto, never wrapped");
                            let mut i = 5;
                            while i < N {
                                assert!(after[i] == before[i]);
                                i += 1;
                            }
                            Some(d)
                        } else {
                            assert!(r.is_err(), "C10 cto: no room => error (caller rolls back)");
                            None
                        }
                    }
                }
            }
        }
    }

    fn run_g2v3<const N: usize>() -> (Option<u16>, bool, u64) {
        let value: bool = kani::any();
        let f: u8 = kani::any();
        let t = cm::any_time();
        let index: u16 = kani::any();
        let (cto, cto_sync, cto48) = any_cto();
        let m = BinaryInput { value, flags: Flags::new(f), time: t };
        let before: [u8; N] = kani::any();
        let mut buf = before;
        let (r, pos) = {
            let mut cursor = WriteCursor::new(&mut buf);
            let r = write_cto::<Group2Var3, BinaryInput>(&mut cursor, &m, index, cto);
            (r, cursor.position())
        };
        let wire = spec::wire_flags_binary(f, value);
        let rel = check_write_cto::<N>(&r, pos, &before, &buf, index, wire, t, cto_sync, cto48);
        if let Some(d) = rel {
            // master side: the object as parsed from those bytes, with the CTO of the preceding g51 header
            let obj = Group2Var3 { flags: buf[2], time: (buf[3] as u16) | ((buf[4] as u16) << 8) };
            assert!(obj.time == d);
            let back = obj.to_measurement(Some(cto));
            assert!(back.value == value, "C10: state arrives unchanged");
            assert!(back.flags.value == wire, "C10: flags arrive unchanged (bit 7 = state)");
            assert!(back.time == t, "C10 cto: absolute time and synchronisation quality reconstructed exactly: cto + (t - cto) == t");
            // without a CTO header the master must not invent a time
            assert!(obj.to_measurement(None).time.is_none());
        }
        let new_header = matches!(r, Ok(Continue::NewHeader));
        kani::cover!(new_header && t.map(|x| x.is_synchronized()) == Some(cto_sync));
        kani::cover!(new_header && matches!(t, Some(Time::Unsynchronized(_))) && cto_sync);
        kani::cover!(t.is_none());
        (rel, r.is_err(), cto48)
    }

    fn run_g4v3<const N: usize>() -> (Option<u16>, bool, u64) {
        let value = cm::any_double_bit();
        let f: u8 = kani::any();
        let t = cm::any_time();
        let index: u16 = kani::any();
        let (cto, cto_sync, cto48) = any_cto();
        let m = DoubleBitBinaryInput { value, flags: Flags::new(f), time: t };
        let before: [u8; N] = kani::any();
        let mut buf = before;
        let (r, pos) = {
            let mut cursor = WriteCursor::new(&mut buf);
            let r = write_cto::<Group4Var3, DoubleBitBinaryInput>(&mut cursor, &m, index, cto);
            (r, cursor.position())
        };
        let wire = spec::wire_flags_double(f, cm::double_bit_code(value));
        let rel = check_write_cto::<N>(&r, pos, &before, &buf, index, wire, t, cto_sync, cto48);
        if let Some(d) = rel {
            let obj = Group4Var3 { flags: buf[2], time: (buf[3] as u16) | ((buf[4] as u16) << 8) };
            assert!(obj.time == d);
            let back = obj.to_measurement(Some(cto));
            assert!(back.value == value, "C10: double-bit state arrives unchanged");
            assert!(back.flags.value == wire, "C10: flags arrive unchanged (bits 7..6 = state)");
            assert!(back.time == t, "C10 cto: absolute time and synchronisation quality reconstructed exactly");
            assert!(obj.to_measurement(None).time.is_none());
        }
        let new_header = matches!(r, Ok(Continue::NewHeader));
        kani::cover!(new_header && t.map(|x| x.is_synchronized()) == Some(cto_sync));
        kani::cover!(new_header && matches!(t, Some(Time::Unsynchronized(_))) && cto_sync);
        kani::cover!(t.is_none());
        (rel, r.is_err(), cto48)
    }

    // @harness ids=C10,C03,C01 tier=quick kind=proof units=outstation::database::details::event::write_fn::write_cto,master::convert::Group2Var3::to_measurement timeout=300 note="g2v3, room for the object (7-byte buffer): every BinaryInput x index x 48-bit cto of either kind: NewHeader (nothing written) iff kind differs or t<cto or t-cto>65535, else bytes = index, flag octet, t-cto; master to_measurement(cto) rebuilds value, flags, exact time and sync kind"
    #[kani::proof]
    #[kani::unwind(9)]
    fn vk_c10_write_cto_g2v3_n7() {
        let (rel, err, cto48) = run_g2v3::<7>();
        assert!(!err);
        kani::cover!(rel == Some(65535));
        kani::cover!(rel == Some(0) && cto48 == spec::TIME_MAX);
        kani::cover!(rel == Some(1) && cto48 == 0);
    }

    // @harness ids=C10,C03,C01 tier=thorough kind=proof units=outstation::database::details::event::write_fn::write_cto timeout=300 note="g2v3, 4-byte buffer (one byte short): representable event gives an error, never a truncated object reported as written; NewHeader decision unchanged"
    #[kani::proof]
    #[kani::unwind(7)]
    fn vk_c10_write_cto_g2v3_n4() {
        let (rel, err, _cto48) = run_g2v3::<4>();
        assert!(rel.is_none());
        kani::cover!(err);
        kani::cover!(!err);
    }

    // @harness ids=C10,C03,C01 tier=quick kind=proof units=outstation::database::details::event::write_fn::write_cto,master::convert::Group4Var3::to_measurement timeout=300 note="g4v3, same contract as g2v3 for DoubleBitBinaryInput (state code in bits 7..6)"
    #[kani::proof]
    #[kani::unwind(9)]
    fn vk_c10_write_cto_g4v3_n7() {
        let (rel, err, cto48) = run_g4v3::<7>();
        assert!(!err);
        kani::cover!(rel == Some(65535));
        kani::cover!(rel == Some(0) && cto48 == spec::TIME_MAX);
        kani::cover!(rel == Some(1) && cto48 == 0);
    }

    // @harness ids=C10,C03,C01 tier=thorough kind=proof units=outstation::database::details::event::write_fn::write_cto timeout=300 note="g4v3, 4-byte buffer: representable event gives an error"
    #[kani::proof]
    #[kani::unwind(7)]
    fn vk_c10_write_cto_g4v3_n4() {
        let (rel, err, _cto48) = run_g4v3::<4>();
        assert!(rel.is_none());
        kani::cover!(err);
        kani::cover!(!err);
    }

    fn check_rebuilt_time(cto: Option<Time>, rel: u16, got: Option<Time>) {
        match cto {
            None => assert!(got.is_none(), "C10 cto: no CTO received => no time, not an invented one"),
            Some(c) => match spec::time48_add(c.timestamp().raw_value(), rel as u64) {
                None => assert!(got.is_none(), "C10 cto: overflow of the 48-bit time gives no time, not a wrapped one"),
                Some(s) => match got {
                    None => assert!(false),
                    Some(g) => assert!(g.is_synchronized() == c.is_synchronized() && g.timestamp().raw_value() == s),
                },
            },
        }
    }

    // @harness ids=C10,C01 tier=quick kind=proof units=master::convert::Group2Var3::to_measurement timeout=300 note="master side alone, every flag octet x relative time x optional CTO: value = bit 7 of the octet, flags = octet, time = cto + relative (same kind) or None when no CTO was received or the sum leaves 48 bits; never wraps"
    #[kani::proof]
    fn vk_c10_cto_to_measurement_g2v3() {
        let flags: u8 = kani::any();
        let rel: u16 = kani::any();
        let cto = cm::any_time();
        let b = Group2Var3 { flags, time: rel }.to_measurement(cto);
        assert!(b.flags.value == flags);
        assert!(b.value == spec::state_of_binary_octet(flags));
        check_rebuilt_time(cto, rel, b.time);
        kani::cover!(cto.is_some() && b.time.is_none());
        kani::cover!(cto.is_none());
        kani::cover!(matches!(b.time, Some(Time::Unsynchronized(x)) if x.raw_value() == spec::TIME_MAX) && rel == 65535);
    }

    // @harness ids=C10,C01 tier=thorough kind=proof units=master::convert::Group4Var3::to_measurement timeout=300 note="master side alone, g4v3: value = state code in bits 7..6, flags = octet, time = cto + relative or None"
    #[kani::proof]
    fn vk_c10_cto_to_measurement_g4v3() {
        let flags: u8 = kani::any();
        let rel: u16 = kani::any();
        let cto = cm::any_time();
        let d = Group4Var3 { flags, time: rel }.to_measurement(cto);
        assert!(d.flags.value == flags);
        assert!(cm::double_bit_code(d.value) == spec::state_code_of_double_octet(flags));
        check_rebuilt_time(cto, rel, d.time);
        kani::cover!(cto.is_some() && d.time.is_none());
        kani::cover!(cto.is_none());
        kani::cover!(matches!(d.time, Some(Time::Synchronized(x)) if x.raw_value() == spec::TIME_MAX) && rel == 1);
    }
