    // C10: EventWriter::write, one step from any writer state, for the event type that has all three time capabilities
    // (BinaryInput: g2v1 no time, g2v2 absolute, g2v3 relative to a g51 common time of occurrence).
    use crate::app::measurement::verif_kani_c10_measure as cm;
    use crate::verif_spec as spec;

    /// the variation under test is fixed per harness instance (const generic) so that every byte offset is concrete
    fn bi_var<const VAR: u8>() -> EventBinaryInputVariation {
        match VAR {
            1 => EventBinaryInputVariation::Group2Var1,
            2 => EventBinaryInputVariation::Group2Var2,
            _ => EventBinaryInputVariation::Group2Var3,
        }
    }

    fn any_bi_var() -> (EventBinaryInputVariation, u8) {
        let k: u8 = kani::any();
        match k % 3 {
            0 => (EventBinaryInputVariation::Group2Var1, 1),
            1 => (EventBinaryInputVariation::Group2Var2, 2),
            _ => (EventBinaryInputVariation::Group2Var3, 3),
        }
    }

    fn le48(b: &[u8]) -> u64 {
        (b[0] as u64) | ((b[1] as u64) << 8) | ((b[2] as u64) << 16) | ((b[3] as u64) << 24) | ((b[4] as u64) << 32) | ((b[5] as u64) << 40)
    }

    /// the object (after the 2-byte index prefix) as the standard lays it out: flag octet, then nothing / 48-bit time / 16-bit relative time
    fn check_object(b: &[u8], var: u8, index: u16, wire: u8, t48: u64, rel: u16) -> usize {
        assert!(b[0] == (index & 0xFF) as u8 && b[1] == (index >> 8) as u8, "C10: index prefix = the point's index");
        assert!(b[2] == wire, "C10: flag octet = flags with the state bit");
        if var == 1 {
            3
        } else if var == 2 {
            assert!(le48(&b[3..9]) == t48, "C10: absolute time unchanged");
            9
        } else {
            assert!(b[3] == (rel & 0xFF) as u8 && b[4] == (rel >> 8) as u8, "C10: relative time = time - cto");
            5
        }
    }

    /// a fresh header for this event at `b`: optional g51 CTO object (count 8-bit = 1), then g2vX with qualifier 0x28 and count 1
    fn check_new_header(b: &[u8], var: u8, index: u16, wire: u8, sync: bool, t48: u64) -> usize {
        let mut p = 0;
        if var == 3 {
            assert!(b[0] == 51 && b[1] == (if sync { 1 } else { 2 }), "C10: g51v1 for synchronized, g51v2 for unsynchronized time");
            assert!(b[2] == 0x07 && b[3] == 1);
            assert!(le48(&b[4..10]) == t48, "C10: common time of occurrence = time of the first event");
            p = 10;
        }
        assert!(b[p] == 2 && b[p + 1] == var && b[p + 2] == 0x28 && b[p + 3] == 1 && b[p + 4] == 0);
        p + 5 + check_object(&b[p + 5..], var, index, wire, t48, 0)
    }

    fn event_writer_first<const VAR: u8>() {
        let value: bool = kani::any();
        let f: u8 = kani::any();
        let t = cm::any_time();
        let index: u16 = kani::any();
        let (variation, var) = (bi_var::<VAR>(), VAR);
        let m = BinaryInput { value, flags: Flags::new(f), time: t };
        let mut buf = [0u8; 32];
        let mut w = EventWriter::new();
        let (r, pos) = {
            let mut cursor = WriteCursor::new(&mut buf);
            let r = w.write(&mut cursor, &m, index, variation);
            (r, cursor.position())
        };
        let wire = spec::wire_flags_binary(f, value);
        if let Some(x) = t {
            assert!(r.is_ok());
            let n = check_new_header(&buf, var, index, wire, x.is_synchronized(), x.timestamp().raw_value());
            assert!(pos == n);
            match w.state {
                State::InProgress(hs, HeaderType::Binary(hv)) => {
                    assert!(hv == variation && hs.count == 1);
                    assert!(hs.count_position == if var == 3 { 13 } else { 3 });
                    assert!(hs.cto == x);
                }
                _ => assert!(false),
            }
        }
        kani::cover!(r.is_ok() && matches!(t, Some(Time::Unsynchronized(_))));
        kani::cover!(r.is_ok() && matches!(t, Some(Time::Synchronized(x)) if x.raw_value() == spec::TIME_MAX));
        kani::cover!(t.is_none());
    }

    fn event_writer_next<const VAR: u8>() {
        let value: bool = kani::any();
        let f: u8 = kani::any();
        let t = cm::any_time();
        let index: u16 = kani::any();
        let (variation, var) = (bi_var::<VAR>(), VAR);
        let m = BinaryInput { value, flags: Flags::new(f), time: t };
        // previous state: a header whose count field sits at 13..15 of 20 bytes already written
        let count: u16 = kani::any();
        // @assume: HeaderState invariant, count >= 1 once a header exists (HeaderState::new starts at 1)
        kani::assume(count >= 1);
        let cto_raw: u64 = kani::any();
        let cto_sync: bool = kani::any();
        let cto_ts = Timestamp::new(cto_raw);
        let cto = if cto_sync { Time::Synchronized(cto_ts) } else { Time::Unsynchronized(cto_ts) };
        let (hvar, hv) = any_bi_var();
        let other_type: bool = kani::any();
        let header = if other_type { HeaderType::Counter(EventCounterVariation::Group22Var1) } else { HeaderType::Binary(hvar) };
        let before: [u8; 44] = kani::any();
        let mut buf = before;
        let mut w = EventWriter { state: State::InProgress(HeaderState { count, count_position: 13, cto }, header) };
        let (r, pos) = {
            let mut cursor = WriteCursor::new(&mut buf);
            cursor.skip(20).unwrap();
            let r = w.write(&mut cursor, &m, index, variation);
            (r, cursor.position())
        };
        let wire = spec::wire_flags_binary(f, value);
        if let Some(x) = t {
            let t48 = x.timestamp().raw_value();
            let rel = spec::cto_relative(x.is_synchronized(), t48, cto_sync, cto_ts.raw_value());
            let same = !other_type && hv == var && count != 65535 && (var != 3 || rel.is_some());
            assert!(r.is_ok());
            if same {
                let n = check_object(&buf[20..], var, index, wire, t48, rel.unwrap_or(0));
                assert!(pos == 20 + n);
                assert!(buf[13] == ((count + 1) & 0xFF) as u8 && buf[14] == ((count + 1) >> 8) as u8, "C10: object count of the continued header patched");
                match w.state {
                    State::InProgress(hs, HeaderType::Binary(v2)) => {
                        assert!(v2 == variation && hs.count == count + 1 && hs.count_position == 13 && hs.cto == cto);
                    }
                    _ => assert!(false),
                }
            } else {
                let n = check_new_header(&buf[20..], var, index, wire, x.is_synchronized(), t48);
                assert!(pos == 20 + n);
                assert!(buf[13] == before[13] && buf[14] == before[14], "C10: finished header left alone");
                match w.state {
                    State::InProgress(hs, HeaderType::Binary(v2)) => {
                        assert!(v2 == variation && hs.count == 1 && hs.cto == x);
                        assert!(hs.count_position == 20 + if var == 3 { 13 } else { 3 });
                    }
                    _ => assert!(false),
                }
            }
            // bytes before the write position, other than a patched count, never change
            let mut i = 0;
            while i < 20 {
                if i != 13 && i != 14 {
                    assert!(buf[i] == before[i]);
                }
                i += 1;
            }
            kani::cover!(same && count == 65534);
            kani::cover!(same && (var != 3 || rel == Some(65535)));
            kani::cover!(var != 3 || (!same && !other_type && hv == var && count != 65535 && x.is_synchronized() != cto_sync));
            kani::cover!(var != 3 || (!same && !other_type && hv == var && count != 65535 && x.is_synchronized() == cto_sync && t48 < cto_ts.raw_value()));
            kani::cover!(!same && count == 65535 && hv == var && !other_type);
            kani::cover!(!same && other_type);
            kani::cover!(!same && !other_type && hv != var);
        }
        kani::cover!(t.is_none());
    }

    // @harness ids=C10,C01 tier=thorough kind=proof units=outstation::database::details::event::writer::EventWriter::write,outstation::database::details::event::writer::EventWriter::start_new_header timeout=300 note="g2v1: first event of a response, BinaryInput with a time, every variation g2v1/2/3: header (+ g51v1/g51v2 CTO chosen by the sync kind for g2v3), index, flag octet, time field laid out per Annex A; writer remembers count 1, the count position and the CTO = event time with its kind"
    #[kani::proof]
    #[kani::unwind(10)]
    fn vk_c10_event_writer_first_g2v1() {
        event_writer_first::<1>();
    }

    // @harness ids=C10,C01 tier=thorough kind=proof units=outstation::database::details::event::writer::EventWriter::write,outstation::database::details::event::writer::EventWriter::start_new_header timeout=300 note="g2v2: first event of a response, BinaryInput with a time, every variation g2v1/2/3: header (+ g51v1/g51v2 CTO chosen by the sync kind for g2v3), index, flag octet, time field laid out per Annex A; writer remembers count 1, the count position and the CTO = event time with its kind"
    #[kani::proof]
    #[kani::unwind(10)]
    fn vk_c10_event_writer_first_g2v2() {
        event_writer_first::<2>();
    }

    // @harness ids=C10,C01 tier=quick kind=proof units=outstation::database::details::event::writer::EventWriter::write,outstation::database::details::event::writer::EventWriter::start_new_header timeout=300 note="g2v3: first event of a response, BinaryInput with a time, every variation g2v1/2/3: header (+ g51v1/g51v2 CTO chosen by the sync kind for g2v3), index, flag octet, time field laid out per Annex A; writer remembers count 1, the count position and the CTO = event time with its kind"
    #[kani::proof]
    #[kani::unwind(10)]
    fn vk_c10_event_writer_first_g2v3() {
        event_writer_first::<3>();
    }

    // @harness ids=C10,C01 tier=thorough kind=proof units=outstation::database::details::event::writer::EventWriter::write,outstation::database::details::event::writer::EventWriter::try_write timeout=600 note="g2v1: next event, from any in-progress writer state (any count, any CTO, header of the same type with any variation or of another type): the same header is continued iff same type, same variation, count < 65535 and (for g2v3) the time is representable against the CTO; then the object is appended and the 16-bit count patched to count+1; otherwise a complete new header (with its own CTO) is appended and the old count left alone"
    #[kani::proof]
    #[kani::unwind(22)]
    fn vk_c10_event_writer_next_g2v1() {
        event_writer_next::<1>();
    }

    // @harness ids=C10,C01 tier=thorough kind=proof units=outstation::database::details::event::writer::EventWriter::write,outstation::database::details::event::writer::EventWriter::try_write timeout=600 note="g2v2: next event, from any in-progress writer state (any count, any CTO, header of the same type with any variation or of another type): the same header is continued iff same type, same variation, count < 65535 and (for g2v3) the time is representable against the CTO; then the object is appended and the 16-bit count patched to count+1; otherwise a complete new header (with its own CTO) is appended and the old count left alone"
    #[kani::proof]
    #[kani::unwind(22)]
    fn vk_c10_event_writer_next_g2v2() {
        event_writer_next::<2>();
    }

    // @harness ids=C10,C01 tier=thorough kind=proof units=outstation::database::details::event::writer::EventWriter::write,outstation::database::details::event::writer::EventWriter::try_write timeout=600 note="g2v3: next event, from any in-progress writer state (any count, any CTO, header of the same type with any variation or of another type): the same header is continued iff same type, same variation, count < 65535 and (for g2v3) the time is representable against the CTO; then the object is appended and the 16-bit count patched to count+1; otherwise a complete new header (with its own CTO) is appended and the old count left alone"
    #[kani::proof]
    #[kani::unwind(22)]
    fn vk_c10_event_writer_next_g2v3() {
        event_writer_next::<3>();
    }

    fn event_writer_no_room<const VAR: u8>() {
        let value: bool = kani::any();
        let f: u8 = kani::any();
        let t = cm::any_time();
        let index: u16 = kani::any();
        let variation = bi_var::<VAR>();
        let m = BinaryInput { value, flags: Flags::new(f), time: t };
        let mut buf = [0u8; 7]; // smallest complete g2v1 header + object is 8 bytes
        let mut w = EventWriter::new();
        let mut cursor = WriteCursor::new(&mut buf);
        let r = w.write(&mut cursor, &m, index, variation);
        assert!(r.is_err());
        assert!(cursor.position() == 0);
        assert!(matches!(w.state, State::Full));
        let r2 = w.write(&mut cursor, &m, index, variation);
        assert!(r2.is_err() && cursor.position() == 0);
        kani::cover!(t.is_some());
    }

    // @harness ids=C10,C01 tier=thorough kind=proof units=outstation::database::details::event::writer::EventWriter::write timeout=300 note="g2v1, no room (7 bytes, one short): the cursor is rolled back to where it was, the writer turns Full, and a Full writer writes nothing more"
    #[kani::proof]
    #[kani::unwind(10)]
    fn vk_c10_event_writer_no_room_g2v1() {
        event_writer_no_room::<1>();
    }

    // @harness ids=C10,C01 tier=thorough kind=proof units=outstation::database::details::event::writer::EventWriter::write timeout=300 note="g2v3, no room for the CTO header: cursor rolled back, writer Full, nothing more written"
    #[kani::proof]
    #[kani::unwind(10)]
    fn vk_c10_event_writer_no_room_g2v3() {
        event_writer_no_room::<3>();
    }
