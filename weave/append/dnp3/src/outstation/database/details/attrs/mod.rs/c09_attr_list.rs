    // @harness ids=C09,C01 tier=quick kind=proof units=outstation::database::details::attrs::get_list_encoding timeout=120 note="length octet of a device-attribute list (2 bytes per listed attribute): plain list when the byte count fits one octet, EXTENDED list with length = byte count - 256 when it is 256..=511 (the reader adds 256 back), nothing representable above that; full usize domain"
    #[kani::proof]
    fn vk_c09_attr_list_encoding() {
        let n: usize = kani::any();
        match get_list_encoding(n) {
            Some((len, AttrDataType::AttrList)) => assert!(n <= 127 && len as usize == 2 * n),
            Some((len, AttrDataType::ExtAttrList)) => assert!(n >= 128 && n <= 255 && len as usize + 256 == 2 * n),
            Some(_) => assert!(false),
            None => assert!(n > 255),
        }
        kani::cover!(n == 128);
        kani::cover!(n == 255);
        kani::cover!(n == 127);
    }
