    // C11: how one response fragment is assembled from events, static data and attributes (composition only; the three
    // writers are replaced by contract stubs returning any result and logging the call order).
    use crate::outstation::database::details::attrs::AttrHandler;
    use crate::util::BadWrite;

    pub(crate) static mut CALLS: [u8; 4] = [0; 4];
    pub(crate) static mut NCALLS: usize = 0;
    pub(crate) static mut EV_RESULT: (bool, usize) = (true, 0);
    pub(crate) static mut ST_RESULT: bool = true;
    pub(crate) static mut AT_RESULT: bool = true;

    fn log_call(tag: u8) {
        unsafe {
            if NCALLS < 4 { CALLS[NCALLS] = tag; }
            NCALLS += 1;
        }
    }

    impl EventBuffer {
        /// contract stub: Ok(n) = all selected events written (n of them), Err(n) = ran out of room after n
        pub(crate) fn stub_write_events(&mut self, _cursor: &mut WriteCursor) -> Result<usize, usize> {
            log_call(1);
            let (ok, n) = unsafe { EV_RESULT };
            if ok { Ok(n) } else { Err(n) }
        }
    }
    impl StaticDatabase {
        /// contract stub: Ok = every queued selection written, Err = ran out of room (C11 static harnesses)
        pub(crate) fn stub_write(&mut self, _cursor: &mut WriteCursor) -> Result<(), BadWrite> {
            log_call(2);
            if unsafe { ST_RESULT } { Ok(()) } else { Err(BadWrite) }
        }
    }
    impl AttrHandler {
        pub(crate) fn stub_write(&mut self, _cursor: &mut WriteCursor) -> bool {
            log_call(3);
            unsafe { AT_RESULT }
        }
    }

    // @harness ids=C11,C01 tier=quick kind=proof stubs=1 units=outstation::database::details::database::Database::write_response_headers timeout=300 note="one fragment: events are written first; static data is attempted only if all selected events fitted, attributes only if all static data fitted; has_events IFF at least one event was written; complete (=> FIN) IFF all three writers finished - so a fragment that could not take everything is never marked final"
    #[kani::proof]
    #[kani::stub(EventBuffer::write_events, EventBuffer::stub_write_events)]
    #[kani::stub(StaticDatabase::write, StaticDatabase::stub_write)]
    #[kani::stub(AttrHandler::write, AttrHandler::stub_write)]
    fn vk_c11_write_response_headers() {
        let mut db = Database::new(None, ClassZeroConfig::default(), EventBufferConfig::no_events());
        let ev: (bool, usize) = kani::any();
        let (st, at): (bool, bool) = (kani::any(), kani::any());
        unsafe { NCALLS = 0; CALLS = [0; 4]; EV_RESULT = ev; ST_RESULT = st; AT_RESULT = at; }
        let mut buf = [0u8; 8];
        let mut cursor = WriteCursor::new(&mut buf);
        let info = db.write_response_headers(&mut cursor);
        let (n, calls) = unsafe { (NCALLS, CALLS) };
        assert!(info.has_events == (ev.1 > 0));
        assert!(info.complete == (ev.0 && st && at));
        assert!(info.need_confirm() == (ev.1 > 0 || !(ev.0 && st && at)));
        // order: events, then static, then attributes; a later stage never runs after an earlier one ran out of room
        assert!(n >= 1 && calls[0] == 1);
        if !ev.0 { assert!(n == 1); }
        else if !st { assert!(n == 2 && calls[1] == 2); }
        else { assert!(n == 3 && calls[1] == 2 && calls[2] == 3); }
        kani::cover!(info.complete && info.has_events);
        kani::cover!(!info.complete && !info.has_events && n == 2);
        kani::cover!(n == 1 && ev.1 > 0);
        kani::cover!(n == 3 && !info.complete);
        std::mem::forget(db);
    }
