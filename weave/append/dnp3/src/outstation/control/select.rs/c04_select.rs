    use crate::verif_spec as spec;
    use std::time::Duration;

    /// A std Instant on Linux is (tv_sec: i64, tv_nsec: u32 < 10^9). Building one from primitives lets the harness range
    /// over every instant; `instant_layout_ok` below is asserted in every harness so a different layout cannot go unnoticed.
    pub(crate) fn mk_instant(secs: u64, nanos: u32) -> tokio::time::Instant {
        let std_i: std::time::Instant = unsafe { std::mem::transmute::<(i64, u32), std::time::Instant>((secs as i64, nanos)) };
        tokio::time::Instant::from_std(std_i)
    }

    pub(crate) fn instant_layout_ok() -> bool {
        let a = mk_instant(5, 999_999_999);
        let b = mk_instant(7, 1);
        b.checked_duration_since(a) == Some(Duration::new(1, 2)) && a.checked_duration_since(b).is_none()
    }

    static mut NOW_SECS: u64 = 0;
    static mut NOW_NANOS: u32 = 0;

    /// contract stub for the clock: returns whatever instant the harness chose (arbitrary)
    fn stub_now() -> tokio::time::Instant {
        unsafe { mk_instant(NOW_SECS, NOW_NANOS) }
    }

    const MAX_SECS: u64 = 1 << 40;

    pub(crate) fn any_time() -> (u64, u32) {
        let (s, n): (u64, u32) = (kani::any(), kani::any());
        // @assume: nanosecond field of a timespec is < 10^9 (type invariant); seconds < 2^40 (~34000 years) so that no clock arithmetic overflows
        kani::assume(s < MAX_SECS && n < 1_000_000_000);
        (s, n)
    }

    // @harness ids=C04,C01 tier=quick kind=proof stubs=1 units=outstation::control::select::SelectState::match_operate,outstation::control::select::SelectState::new timeout=300 note="clock stubbed to an arbitrary instant; all seq x frame ids x hashes x instants x timeouts: Ok(()) iff seq == sel.seq+1 mod 16 and frame_id == sel.frame_id+1 mod 2^32 and hash == sel.hash and now >= select time and now - select time <= timeout; otherwise Err(status) with status != Success; the select state is not modified"
    #[kani::proof]
    // @assume: the clock is replaced by a stub returning an arbitrary instant chosen by the harness (weaker than any real clock)
    #[kani::stub(tokio::time::Instant::now, stub_now)]
    // @assume: unwind bounds the self-recursion of std's Timespec::sub_timespec (it swaps its arguments at most once); the unwinding assertion stays on
    #[kani::unwind(3)]
    fn vk_c04_match_operate() {
        assert!(instant_layout_ok());
        let (sel_seq, sel_frame, sel_hash): (u8, u32, u64) = (kani::any(), kani::any(), kani::any());
        let (sel_s, sel_n) = any_time();
        let (now_s, now_n) = any_time();
        let (to_s, to_n) = any_time();
        let (seq, frame_id, hash): (u8, u32, u64) = (kani::any(), kani::any(), kani::any());
        unsafe {
            NOW_SECS = now_s;
            NOW_NANOS = now_n;
        }
        let sel = SelectState::new(Sequence::new(sel_seq), sel_frame, mk_instant(sel_s, sel_n), sel_hash);
        let r = sel.match_operate(Timeout(Duration::new(to_s, to_n)), Sequence::new(seq), frame_id, hash);
        let ok = spec::match_operate_ok(sel_seq, sel_frame, sel_hash, sel_s, sel_n, seq, frame_id, hash, now_s, now_n, to_s, to_n);
        match r {
            Ok(()) => assert!(ok),
            Err(status) => {
                assert!(!ok);
                assert!(status != CommandStatus::Success);
                assert!(!status.is_success());
            }
        }
        // read-only
        assert!(sel.seq.value() == sel_seq % 16 && sel.frame_id == sel_frame && sel.object_hash == sel_hash && sel.time == mk_instant(sel_s, sel_n));
        let seq_ok = seq % 16 == (sel_seq % 16 + 1) % 16;
        let frame_ok = frame_id == sel_frame.wrapping_add(1);
        kani::cover!(ok);
        kani::cover!(ok && sel_frame == u32::MAX && frame_id == 0 && sel_seq % 16 == 15);
        // boundary: exactly at the timeout is accepted, one nanosecond later is not
        kani::cover!(ok && now_s == sel_s + to_s && now_n == sel_n + to_n);
        kani::cover!(!ok && seq_ok && frame_ok && hash == sel_hash && now_s == sel_s + to_s && now_n == sel_n + to_n + 1);
        kani::cover!(!ok && seq_ok && frame_ok && hash == sel_hash && now_s < sel_s);
        kani::cover!(!ok && !seq_ok && frame_ok && hash == sel_hash);
        kani::cover!(!ok && seq_ok && !frame_ok && hash == sel_hash);
        kani::cover!(!ok && seq_ok && frame_ok && hash != sel_hash);
    }

    // @harness ids=C04,C01 tier=quick kind=proof units=outstation::control::select::SelectState::new,outstation::control::select::SelectState::update_frame_id timeout=120 note="new stores exactly its four arguments; update_frame_id changes the frame id and nothing else (a retransmitted SELECT keeps seq, time and hash)"
    #[kani::proof]
    fn vk_c04_select_state_frames() {
        assert!(instant_layout_ok());
        let (sq, f, h): (u8, u32, u64) = (kani::any(), kani::any(), kani::any());
        let (s, n) = any_time();
        let mut sel = SelectState::new(Sequence::new(sq), f, mk_instant(s, n), h);
        assert!(sel.seq.value() == sq % 16 && sel.frame_id == f && sel.object_hash == h && sel.time == mk_instant(s, n));
        let f2: u32 = kani::any();
        sel.update_frame_id(f2);
        assert!(sel.seq.value() == sq % 16 && sel.frame_id == f2 && sel.object_hash == h && sel.time == mk_instant(s, n));
        kani::cover!(f2 != f);
        kani::cover!(f2 == f.wrapping_add(1) && f == u32::MAX);
    }
