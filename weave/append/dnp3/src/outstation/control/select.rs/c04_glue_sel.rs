    /// field-wise equality of two select records (no logic)
    pub(crate) fn same_select(a: &SelectState, b: &SelectState) -> bool {
        a.seq == b.seq && a.frame_id == b.frame_id && a.time == b.time && a.object_hash == b.object_hash
    }
