    use crate::app::variations::Group12Var1;
    use crate::app::control::{CommandStatus, ControlCode, OpType, TripCloseCode};

    fn any_crob() -> Group12Var1 {
        Group12Var1 { code: ControlCode::from(kani::any()), count: kani::any(), on_time: kani::any(), off_time: kani::any(), status: CommandStatus::from(kani::any()) }
    }

    /// one PrefixWriter::write step with ROOM bytes left, from the fresh state or after one object (header already present)
    fn step_contract<const ROOM: usize>(continue_header: bool) -> bool {
        let mut buf: [u8; 40] = kani::any();
        let before = buf;
        let mut w: PrefixWriter<u8, Group12Var1> = PrefixWriter::new();
        let mut cursor = WriteCursor::new(&mut buf);
        if continue_header {
            assert!(w.write(&mut cursor, any_crob(), kani::any()).is_ok()); // 3 + 1 + 1 + 11 = 16 bytes
        }
        let start = cursor.position();
        // cut the room: a sub-cursor cannot be made, so pre-fill up to 40 - start - ROOM with skip
        let fill = 40 - start - ROOM;
        assert!(cursor.skip(fill).is_ok());
        let pos0 = cursor.position();
        let count_before = if continue_header { cursor.get(3..4).unwrap()[0] } else { 0 };
        let (v, i): (Group12Var1, u8) = (any_crob(), kani::any());
        let r = w.write(&mut cursor, v, i);
        let need = if continue_header { 12 } else { 16 };
        let ok = r.is_ok();
        assert!(ok == (ROOM >= need));
        if ok {
            assert!(cursor.position() == pos0 + need);
        } else {
            // all-or-nothing: the cursor is where it was, so the fragment ends after the last COMPLETE object,
            // and the count field still says how many complete objects there are
            assert!(cursor.position() == pos0);
            if continue_header { assert!(cursor.get(3..4).unwrap()[0] == count_before && count_before == 1); }
        }
        let _ = before;
        ok
    }

    // @harness ids=C12,C09,C01 tier=quick kind=proof units=outstation::control::prefix::PrefixWriter::write timeout=300 note="control echo writer, object that does not fit (room one byte short, new header or continued header): Err, cursor rolled back to the end of the last complete object and the count field unchanged, so a truncated echo still parses; with exactly enough room: Ok and advanced by the object size (+ header)"
    #[kani::proof]
    #[kani::unwind(42)]
    fn vk_c12_prefix_writer_all_or_nothing() {
        let ok_a = step_contract::<16>(false);
        let ok_b = step_contract::<15>(false);
        let ok_c = step_contract::<12>(true);
        let ok_d = step_contract::<11>(true);
        let ok_e = step_contract::<5>(true);
        assert!(ok_a && !ok_b && ok_c && !ok_d && !ok_e);
        kani::cover!(ok_a);
    }
