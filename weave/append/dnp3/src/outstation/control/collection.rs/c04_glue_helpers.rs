    // constructor (no logic) + contract stubs for the synchronous ControlCollection methods that iterate the control
    // headers through the app-layer dispatcher (does not finish in CBMC). Each stub returns ANY result and logs the call.
    pub(crate) fn mk_control_collection<'a>(inner: HeaderCollection<'a>) -> ControlCollection<'a> { ControlCollection { inner } }

    pub(crate) static mut SELECT_CALLS: usize = 0;
    pub(crate) static mut OPERATE_CALLS: usize = 0;
    pub(crate) static mut STATUS_CALLS: usize = 0;
    pub(crate) static mut STATUS_ARG: u8 = 0;
    pub(crate) static mut RESULT_CHOICE: (u8, u8) = (0, 0);
    pub(crate) static mut HASH_RET: u64 = 0;
    pub(crate) static mut OPERATE_TYPE_SBO: bool = false;

    fn chosen() -> Result<CommandStatus, WriteError> {
        let (k, code) = unsafe { RESULT_CHOICE };
        if k == 0 { Ok(CommandStatus::from(code)) } else { Err(WriteError::NumericOverflow) }
    }
    impl<'a> ControlCollection<'a> {
        pub(crate) fn stub_hash(&self) -> u64 { unsafe { HASH_RET } }
        pub(crate) fn stub_respond_with_status(&self, _cursor: &mut WriteCursor, status: CommandStatus) -> Result<(), WriteError> {
            unsafe { STATUS_CALLS += 1; STATUS_ARG = status.as_u8(); }
            Ok(())
        }
        pub(crate) fn stub_select_with_response(&self, _cursor: &mut WriteCursor, _tx: &mut ControlTransaction, _db: &mut DatabaseHandle, _max: Option<u16>) -> Result<CommandStatus, WriteError> {
            unsafe { SELECT_CALLS += 1; }
            chosen()
        }
        pub(crate) fn stub_operate_with_response(&self, _cursor: &mut WriteCursor, operate_type: OperateType, _tx: &mut ControlTransaction, _db: &mut DatabaseHandle, _max: Option<u16>) -> Result<CommandStatus, WriteError> {
            unsafe { OPERATE_CALLS += 1; OPERATE_TYPE_SBO = matches!(operate_type, OperateType::SelectBeforeOperate); }
            let (_, code) = unsafe { RESULT_CHOICE };
            Ok(CommandStatus::from(code))
        }
    }
