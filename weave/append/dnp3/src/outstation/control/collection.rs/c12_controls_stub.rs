    // contract stubs for ControlCollection::from (validating pass over the headers) and operate_no_ack (both iterate the
    // control headers through the app-layer dispatcher)
    pub(crate) static mut FROM_OK: bool = true;
    pub(crate) static mut NOACK_CALLS: usize = 0;
    impl<'a> ControlCollection<'a> {
        pub(crate) fn stub_from(headers: HeaderCollection<'a>) -> Result<ControlCollection<'a>, BadControlHeader> {
            if unsafe { FROM_OK } { Ok(ControlCollection { inner: headers }) } else { Err(BadControlHeader::new(Variation::Group1Var2, QualifierCode::AllObjects)) }
        }
        pub(crate) fn stub_operate_no_ack(&self, _tx: &mut ControlTransaction, _db: &mut DatabaseHandle, _max: Option<u16>) {
            unsafe { NOACK_CALLS += 1; }
        }
    }
