    use crate::app::parse::parser::verif_kani_helpers as ph;
    use crate::app::FunctionCode;

    static mut XXH_CALLS: usize = 0;
    static mut XXH_ARG: (*const u8, usize, u64) = (core::ptr::null(), 0, 0);
    static mut XXH_RET: u64 = 0;

    /// contract stub for xxh64: some u64 chosen by the harness (xxh64 is a function of its input; collision-freedom is
    /// the stated assumption of C04); logs its argument
    fn stub_xxh64(input: &[u8], seed: u64) -> u64 {
        unsafe {
            XXH_CALLS += 1;
            XXH_ARG = (input.as_ptr(), input.len(), seed);
            XXH_RET
        }
    }

    fn hash_once<const N: usize>(function: FunctionCode, data: &[u8; N]) -> (u64, (*const u8, usize, u64), usize) {
        let cc = ControlCollection { inner: ph::mk_header_collection(function, &data[..]) };
        unsafe { XXH_CALLS = 0; }
        let h = cc.hash();
        unsafe { (h, XXH_ARG, XXH_CALLS) }
    }

    // @harness ids=C04,C01 tier=quick kind=proof stubs=1 units=outstation::control::collection::ControlCollection::hash,app::parse::parser::HeaderCollection::hash timeout=120 note="the hash recorded at SELECT and compared at OPERATE is xxh64(seed 0) over exactly the object-header bytes of the request (all of them, nothing else: not the function code, not the sequence number), so byte-identical control objects give the same hash input"
    #[kani::proof]
    // @assume: xxh64 replaced by a logged contract stub (any u64; it is a pure function of its input, collisions are the stated assumption of C04)
    #[kani::stub(xxhash_rust::xxh64::xxh64, stub_xxh64)]
    fn vk_c04_control_hash_input() {
        const N: usize = 14; // one g12v1 object with an 8-bit count-and-prefix header
        let data: [u8; N] = kani::any();
        let ret: u64 = kani::any();
        unsafe { XXH_RET = ret; }
        let (h1, a1, c1) = hash_once::<N>(FunctionCode::Select, &data);
        let (h2, a2, c2) = hash_once::<N>(FunctionCode::Operate, &data);
        assert!(c1 == 1 && c2 == 1);
        assert!(h1 == ret && h2 == ret);
        assert!(a1 == (data.as_ptr(), N, 0));
        assert!(a2 == (data.as_ptr(), N, 0));
        // empty object section
        let none: [u8; 0] = [];
        let (_, a3, c3) = hash_once::<0>(FunctionCode::Operate, &none);
        assert!(c3 == 1 && a3.1 == 0 && a3.2 == 0);
        kani::cover!(ret == u64::MAX);
    }
