    use crate::transport::FragmentAddr;
    use crate::util::phys::PhysAddr;
    use crate::link::EndpointAddress;

    // @harness ids=C12,C14,C01 tier=quick kind=proof units=outstation::deferred::DeferredInfo::merge,outstation::deferred::DeferredInfo::new timeout=120 note="a READ deferred during an unsolicited confirm wait keeps EVERY rejection recorded for it: merging the later selection result ORs it into the IIN2 recorded at deferral time (none of the eight bits is lost), digest / sequence / source unchanged"
    #[kani::proof]
    fn vk_c12_deferred_info_merge() {
        let (a, b): (u8, u8) = (kani::any(), kani::any());
        let info = FragmentInfo::new(kani::any(), FragmentAddr { link: EndpointAddress::raw(7), phys: PhysAddr::None }, None);
        let h: u64 = kani::any();
        let seq = Sequence::new(kani::any());
        let d = DeferredInfo::new(h, seq, info, Iin2::new(a));
        let m = d.merge(Iin2::new(b));
        assert!(m.iin2.value == (a | b));
        assert!(m.hash == h && m.seq == seq && m.info.id == info.id);
        kani::cover!(a == 0x02 && b == 0x00);
    }
