    // Harness clock: `tokio::time::Instant::now` is replaced (#[kani::stub]) by a ghost variable the harness sets.
    // An Instant is manufactured from (seconds, nanoseconds); the layout assumption is re-checked by
    // the C18 harness (see end of file).
    #[repr(C)]
    struct RawTs { s: i64, n: u32 }
    pub(crate) static mut NOW: (i64, u32) = (0, 0);
    pub(crate) fn mk_instant(s: i64, n: u32) -> tokio::time::Instant {
        assert!(n < 1_000_000_000 && s >= 0);
        let std: std::time::Instant = unsafe { core::mem::transmute(RawTs { s, n }) };
        tokio::time::Instant::from_std(std)
    }
    pub(crate) fn any_instant() -> (tokio::time::Instant, i64, u32) {
        let s: i64 = kani::any();
        let n: u32 = kani::any();
        kani::assume(s >= 0 && s < (1i64 << 40) && n < 1_000_000_000);
        (mk_instant(s, n), s, n)
    }
    pub(crate) fn set_now(s: i64, n: u32) { unsafe { NOW = (s, n); } }
    pub(crate) fn stub_now() -> tokio::time::Instant {
        let (s, n) = unsafe { NOW };
        mk_instant(s, n)
    }
    /// b - a as (whole seconds, nanoseconds in 0..1e9) when b >= a, else None
    pub(crate) fn diff(a: (i64, u32), b: (i64, u32)) -> Option<(i64, u32)> {
        if b.0 < a.0 || (b.0 == a.0 && b.1 < a.1) { return None; }
        if b.1 >= a.1 { Some((b.0 - a.0, b.1 - a.1)) } else { Some((b.0 - a.0 - 1, b.1 + 1_000_000_000 - a.1)) }
    }
    /// floor milliseconds of a (secs, nanos) duration
    pub(crate) fn millis(d: (i64, u32)) -> i64 { d.0 * 1000 + (d.1 / 1_000_000) as i64 }

    // The layout assumption (which word is seconds, which nanoseconds) is cross-checked on every run by
    // vk_c18_write_at_last_recorded_time: its expected value is computed from the (s, ns) pairs with `diff`/`millis`
    // and must equal what the real code computes from the manufactured Instants (covers with > 65 s elapsed).
