    // Harness physical layer. Under cfg(kani) the weaver inserts an early `return verif_read/verif_write(..).await`
    // at the top of PhysLayer::read / PhysLayer::write (weave/inject/phys_io.json), so the socket code below it is
    // unreachable and is NOT part of the verified program: what is dropped is exactly the bodies of those two functions
    // (tokio TCP/UDP/TLS/serial I/O), for which the Kani compiler crashes. Everything above them is the real code.
    use core::future::Future;
    use core::pin::Pin;
    use core::task::{Context, Poll, Waker};

    pub(crate) const TX_CAP: usize = 320;
    pub(crate) static mut TX: [u8; TX_CAP] = [0; TX_CAP];
    pub(crate) static mut TX_LEN: usize = 0;
    pub(crate) static mut TX_CALLS: usize = 0;
    pub(crate) static mut TX_FRAME_END: [usize; 12] = [0; 12];
    pub(crate) static mut TX_FAIL_AT: usize = usize::MAX;

    pub(crate) fn tx_reset() { unsafe { TX_LEN = 0; TX_CALLS = 0; TX_FAIL_AT = usize::MAX; } }
    pub(crate) fn tx_len() -> usize { unsafe { TX_LEN } }
    pub(crate) fn tx_calls() -> usize { unsafe { TX_CALLS } }
    pub(crate) fn tx_byte(i: usize) -> u8 { unsafe { TX[i] } }
    pub(crate) fn tx_frame_end(k: usize) -> usize { unsafe { TX_FRAME_END[k] } }

    pub(crate) async fn verif_write(data: &[u8], _addr: PhysAddr) -> Result<(), std::io::Error> {
        unsafe {
            if TX_CALLS == TX_FAIL_AT {
                TX_CALLS += 1;
                return Err(std::io::Error::from(ErrorKind::BrokenPipe));
            }
            if TX_LEN + data.len() <= TX_CAP {
                TX[TX_LEN..TX_LEN + data.len()].copy_from_slice(data);
            }
            TX_LEN += data.len();
            if TX_CALLS < 12 { TX_FRAME_END[TX_CALLS] = TX_LEN; }
            TX_CALLS += 1;
        }
        Ok(())
    }

    // scripted input: successive reads return RX_CHUNK[k] bytes taken from RX (or an error when the script ends)
    pub(crate) const RX_CAP: usize = 64;
    pub(crate) static mut RX: [u8; RX_CAP] = [0; RX_CAP];
    pub(crate) static mut RX_POS: usize = 0;
    pub(crate) static mut RX_CHUNKS: [usize; 8] = [0; 8];
    pub(crate) static mut RX_NCHUNKS: usize = 0;
    pub(crate) static mut RX_CALLS: usize = 0;

    pub(crate) async fn verif_read(buffer: &mut [u8]) -> Result<(usize, PhysAddr), std::io::Error> {
        unsafe {
            if RX_CALLS >= RX_NCHUNKS {
                RX_CALLS += 1;
                return Err(std::io::Error::from(ErrorKind::UnexpectedEof));
            }
            let want = RX_CHUNKS[RX_CALLS];
            RX_CALLS += 1;
            let n = if want < buffer.len() { want } else { buffer.len() };
            buffer[..n].copy_from_slice(&RX[RX_POS..RX_POS + n]);
            RX_POS += n;
            Ok((n, PhysAddr::None))
        }
    }

    /// poll a future once with a no-op waker: every future built from the harness I/O completes without suspending
    pub(crate) fn run<F: Future>(mut f: F) -> Option<F::Output> {
        let waker = Waker::noop();
        let mut cx = Context::from_waker(&waker);
        let f = unsafe { Pin::new_unchecked(&mut f) };
        match f.poll(&mut cx) { Poll::Ready(x) => Some(x), Poll::Pending => None }
    }

    /// a PhysLayer that is never looked at (read/write return before touching `self`)
    pub(crate) struct IoShell { mem: core::mem::MaybeUninit<PhysLayer> }
    impl IoShell {
        pub(crate) fn new() -> Self { IoShell { mem: core::mem::MaybeUninit::zeroed() } }
        pub(crate) fn get(&mut self) -> &mut PhysLayer { unsafe { &mut *self.mem.as_mut_ptr() } }
    }
