    use crate::verif_spec as spec;

    // @harness ids=C08,C01 tier=quick kind=proof units=transport::real::header::Header::from_u8,transport::real::header::Header::to_u8,transport::real::header::Header::new,transport::real::sequence::Sequence::new,transport::real::sequence::Sequence::value timeout=120 note="all 256 octets: FIN = bit 7, FIR = bit 6, seq = low 6 bits (IEEE 1815 8.2.1); to_u8(from_u8(b)) == b; from_u8(to_u8(new(fin,fir,seq))) gives the same fields back"
    #[kani::proof]
    fn vk_c08_header_roundtrip() {
        let b: u8 = kani::any();
        let h = Header::from_u8(b);
        assert!(h.fin == spec::tp_fin(b));
        assert!(h.fin == (b >= 0x80));
        assert!(h.fir == spec::tp_fir(b));
        assert!(h.fir == ((b / 0x40) % 2 == 1));
        assert!(h.seq.value() == spec::tp_seq(b));
        assert!(h.seq.value() == b % 64);
        assert!(h.to_u8() == b);
        // the other direction, from arbitrary fields (sequence taken mod 64)
        let (fin, fir, s): (bool, bool, u8) = (kani::any(), kani::any(), kani::any());
        let x = Header::new(fin, fir, Sequence::new(s)).to_u8();
        assert!(x == spec::tp_header_byte(fin, fir, s));
        let h2 = Header::from_u8(x);
        assert!(h2.fin == fin && h2.fir == fir && h2.seq.value() == s % 64);
        kani::cover!(b == 0xFF);
        kani::cover!(b == 0x00);
        kani::cover!(fin && !fir && s == 63);
        kani::cover!(!fin && fir && s > 63);
    }

    // @harness ids=C08,C01 tier=quick kind=proof units=transport::real::sequence::Sequence::new,transport::real::sequence::Sequence::next,transport::real::sequence::Sequence::increment,transport::real::sequence::Sequence::reset timeout=120 note="transport sequence numbers are modulo 64: new masks to 6 bits, next == (v+1) mod 64, increment returns the old value and stores the successor, reset gives 0"
    #[kani::proof]
    fn vk_c08_sequence_mod64() {
        let v: u8 = kani::any();
        let mut s = Sequence::new(v);
        assert!(s.value() == v % 64);
        assert!(s.next() == ((v % 64) + 1) % 64);
        assert!(s.next() == spec::tp_seq_next(v));
        let old = s.increment();
        assert!(old.value() == v % 64);
        assert!(s.value() == ((v as u16 + 1) % 64) as u8);
        assert!(s.value() < 64);
        kani::cover!(v == 63 && s.value() == 0);
        kani::cover!(v == 255);
        kani::cover!(v == 0 && s.value() == 1);
        s.reset();
        assert!(s.value() == 0);
        assert!(Sequence::default().value() == 0);
    }
