    use crate::util::phys::verif_kani_io as io;
    use crate::util::phys::PhysAddr;

    /// Writer::write for a fragment of L bytes (NSEG = ceil(L/249) segments)
    fn write_contract<const L: usize, const NSEG: usize>() {
        let frag: [u8; L] = kani::any();
        let is_master: bool = kani::any();
        let local: u16 = kani::any();
        let dest: u16 = kani::any();
        kani::assume(local < 0xFFF0 && dest < 0xFFF0);
        let mut w = Writer::new(if is_master { EndpointType::Master } else { EndpointType::Outstation }, EndpointAddress::raw(local));
        let seq0: u8 = kani::any();
        kani::assume(seq0 < 64);
        w.seq = Sequence::new(seq0);
        let mut shell = io::IoShell::new();
        io::tx_reset();
        let r = io::run(w.write(shell.get(), DecodeLevel::nothing(), FragmentAddr { link: EndpointAddress::raw(dest), phys: PhysAddr::None }, &frag));
        assert!(matches!(r, Some(Ok(()))));
        // one link frame per segment, each written to the physical layer in one call
        assert!(io::tx_calls() == NSEG);
        let mut k = 0;
        let mut off = 0;     // offset of frame k in the transmitted byte stream
        while k < NSEG {
            let n = if L - 249 * k >= 249 { 249 } else { L - 249 * k };   // application bytes in segment k
            let flen = 10 + (n + 1) + 2 * ((n + 1 + 15) / 16);
            assert!(io::tx_frame_end(k) == off + flen);
            // link header: 05 64 len ctrl dst src (CRC checked by the C06 format contract)
            assert!(io::tx_byte(off) == 0x05 && io::tx_byte(off + 1) == 0x64);
            assert!(io::tx_byte(off + 2) as usize == n + 1 + 5);
            assert!(io::tx_byte(off + 3) == (if is_master { 0x80 } else { 0 }) | 0x44);
            assert!(io::tx_byte(off + 4) == (dest & 0xFF) as u8 && io::tx_byte(off + 5) == (dest >> 8) as u8);
            assert!(io::tx_byte(off + 6) == (local & 0xFF) as u8 && io::tx_byte(off + 7) == (local >> 8) as u8);
            // transport header: FIR on the first, FIN on the last, consecutive sequence numbers mod 64
            let th = io::tx_byte(off + 10);
            assert!((th & 0x40 != 0) == (k == 0));
            assert!((th & 0x80 != 0) == (k == NSEG - 1));
            assert!((th & 0x3F) as usize == (seq0 as usize + k) % 64);
            // application bytes of segment k = fragment[249k ..], in order (16-byte blocks, first block holds 15)
            // (placement of every byte inside the frame is the C06 format contract; here: the segment boundaries)
            let mut j = 0;
            while j < 2 {
                let i = if j == 0 { 0 } else { n - 1 };
                let u = i + 1; // position in user data (after the transport octet)
                assert!(io::tx_byte(off + 10 + (u / 16) * 18 + (u % 16)) == frag[249 * k + i]);
                j += 1;
            }
            off += flen;
            k += 1;
        }
        assert!(io::tx_len() == off);
        assert!(w.seq.value() as usize == (seq0 as usize + NSEG) % 64);
        kani::cover!(seq0 == 63);
    }

    // @harness ids=C08,C01 tier=quick kind=proof stubs=1 units=transport::real::writer::Writer::write timeout=1500 note="fragment of 250 bytes (2 segments: 249 + 1)"
    #[kani::proof]
    #[kani::unwind(252)]
    #[kani::stub(crate::link::crc::calc_crc, crate::link::crc::verif_kani_c06_crc::stub_calc_crc)]
    fn vk_c08_writer_l250() { write_contract::<250, 2>(); }

    // @harness ids=C08,C01 tier=quick kind=proof stubs=1 units=transport::real::writer::Writer::write timeout=900 note="fragment of 1 byte (1 segment)"
    #[kani::proof]
    #[kani::unwind(20)]
    #[kani::stub(crate::link::crc::calc_crc, crate::link::crc::verif_kani_c06_crc::stub_calc_crc)]
    fn vk_c08_writer_l1() { write_contract::<1, 1>(); }

    // @harness ids=C08,C01 tier=quick kind=proof stubs=1 units=transport::real::writer::Writer::write timeout=1500 note="fragment of exactly 249 bytes (one FULL segment: an exact multiple of the segment size must still end with FIN)"
    #[kani::proof]
    #[kani::unwind(252)]
    #[kani::stub(crate::link::crc::calc_crc, crate::link::crc::verif_kani_c06_crc::stub_calc_crc)]
    fn vk_c08_writer_l249() { write_contract::<249, 1>(); }
