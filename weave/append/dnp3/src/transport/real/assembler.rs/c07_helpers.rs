    // setter only, no logic: put the assembler into the state it has after a complete fragment of `len` bytes from `info`
    pub(crate) fn force_complete(a: &mut Assembler, info: crate::transport::FragmentInfo, len: usize) {
        a.state = InternalState::Complete(info, len);
    }
    pub(crate) fn is_empty(a: &Assembler) -> bool { matches!(a.state, InternalState::Empty) }
