    use crate::verif_spec as spec;
    use crate::link::header::{BroadcastConfirmMode, FrameType};
    use crate::link::EndpointAddress;
    use crate::transport::real::sequence::Sequence;
    use crate::util::phys::PhysAddr;
    use std::net::{Ipv4Addr, Ipv6Addr, SocketAddr, SocketAddrV4, SocketAddrV6};

    /// primitive image of "where a segment came from": link source, broadcast class, physical (UDP) address
    #[derive(Copy, Clone, PartialEq, Eq)]
    pub(crate) struct InfoPrim {
        pub(crate) src: u16,
        pub(crate) bc: u8,   // 0 = not broadcast, 1 = optional, 2 = mandatory, 3 = not required
        pub(crate) phys: u8, // 0 = none, 1 = UDP/IPv4, 2 = UDP/IPv6
        pub(crate) ip: u128,
        pub(crate) port: u16,
        pub(crate) flow: u32,
        pub(crate) scope: u32,
    }

    /// highest physical-address class generated (2 would include UDP/IPv6: measured 5-10x slower because address equality becomes a 16-byte memcmp)
    const MAX_PHYS: u8 = 1;

    pub(crate) fn any_info_prim() -> InfoPrim {
        let p = InfoPrim { src: kani::any(), bc: kani::any(), phys: kani::any(), ip: kani::any(), port: kani::any(), flow: kani::any(), scope: kani::any() };
        // @assume: canonical form of the primitive image only (unused components are zero); every FrameInfo value with frame_type Data is produced
        kani::assume(p.bc <= 3 && p.phys <= MAX_PHYS);
        kani::assume(p.phys != 0 || (p.ip == 0 && p.port == 0));
        kani::assume(p.phys == 2 || (p.ip <= 0xFFFF_FFFF && p.flow == 0 && p.scope == 0));
        p
    }

    pub(crate) fn bc_of(p: &InfoPrim) -> Option<BroadcastConfirmMode> {
        match p.bc { 0 => None, 1 => Some(BroadcastConfirmMode::Optional), 2 => Some(BroadcastConfirmMode::Mandatory), _ => Some(BroadcastConfirmMode::NotRequired) }
    }

    pub(crate) fn phys_of(p: &InfoPrim) -> PhysAddr {
        match p.phys {
            0 => PhysAddr::None,
            1 => PhysAddr::Udp(SocketAddr::V4(SocketAddrV4::new(Ipv4Addr::from(p.ip as u32), p.port))),
            _ => {
                if MAX_PHYS >= 2 {
                    PhysAddr::Udp(SocketAddr::V6(SocketAddrV6::new(Ipv6Addr::from(p.ip), p.port, p.flow, p.scope)))
                } else {
                    PhysAddr::None
                }
            }
        }
    }

    /// the assembler is only ever handed frames of type Data (transport/real/reader.rs matches on it)
    pub(crate) fn frame_info_of(p: &InfoPrim) -> FrameInfo {
        FrameInfo::new(EndpointAddress::raw(p.src), bc_of(p), FrameType::Data, phys_of(p))
    }

    pub(crate) fn fragment_info_of(id: u32, p: &InfoPrim) -> FragmentInfo {
        FragmentInfo::new(id, FragmentAddr { link: EndpointAddress::raw(p.src), phys: phys_of(p) }, bc_of(p))
    }

    pub(crate) fn fragment_info_is(fi: &FragmentInfo, id: u32, p: &InfoPrim) -> bool {
        fi.id == id && fi.addr.link.raw_value() == p.src && fi.addr.phys == phys_of(p) && fi.broadcast == bc_of(p)
    }

    pub(crate) struct Pre<const CAP: usize> {
        pub(crate) asm: Assembler,
        pub(crate) data: [u8; CAP],
        pub(crate) st: spec::AsmState,
        pub(crate) prim: InfoPrim, // source of the fragment in progress (kind 1) / of the complete fragment (kind 2)
        pub(crate) frag_id: u32,   // id of the complete fragment (kind 2)
    }

    /// an arbitrary assembler of the given state kind satisfying the invariant `stored length <= buffer capacity`;
    /// `fixed_len` pins the stored length of this instance (contents stay arbitrary)
    pub(crate) fn any_assembler<const CAP: usize>(kind: u8, fixed_len: Option<usize>) -> Pre<CAP> {
        let data: [u8; CAP] = kani::any();
        let mut asm = Assembler::new(CAP);
        asm.buffer.write_cursor().write_bytes(&data).unwrap();
        asm.frame_id = kani::any();
        let prim = any_info_prim();
        let len: usize = match fixed_len {
            Some(l) => l,
            None => kani::any(),
        };
        // @assume: type invariant of Assembler: the tracked length never exceeds the buffer
        kani::assume(len <= CAP);
        let frag_id: u32 = kani::any();
        let st = match kind {
            0 => {
                asm.state = InternalState::Empty;
                spec::AsmState { kind: 0, len: 0, seq: 0, frame_id: asm.frame_id }
            }
            1 => {
                let hb: u8 = kani::any();
                let h = Header::from_u8(hb);
                asm.state = InternalState::Running(frame_info_of(&prim), h, len);
                spec::AsmState { kind: 1, len, seq: hb % 64, frame_id: asm.frame_id }
            }
            _ => {
                asm.state = InternalState::Complete(fragment_info_of(frag_id, &prim), len);
                spec::AsmState { kind: 2, len, seq: 0, frame_id: asm.frame_id }
            }
        };
        Pre { asm, data, st, prim, frag_id }
    }

    pub(crate) fn is_empty(a: &Assembler) -> bool {
        matches!(a.state, InternalState::Empty)
    }

    fn view(a: &Assembler) -> spec::AsmState {
        match a.state {
            InternalState::Empty => spec::AsmState { kind: 0, len: 0, seq: 0, frame_id: a.frame_id },
            InternalState::Running(_, h, n) => spec::AsmState { kind: 1, len: n, seq: h.seq.value(), frame_id: a.frame_id },
            InternalState::Complete(_, n) => spec::AsmState { kind: 2, len: n, seq: 0, frame_id: a.frame_id },
        }
    }

    /// what one step did, for the vacuity guards
    struct Obs {
        outcome: u8,
        fir: bool,
        fin: bool,
        broadcast: bool,
        kept: bool,
        seq_ok: bool,
        same_info: bool,
        same_src: bool,
        pre_len: usize,
        post_len: usize,
        post_frame_id: u32,
    }

    /// One call of `assemble` from an arbitrary pre-state of kind `kind`, payload of P arbitrary bytes, buffer of CAP bytes.
    /// `fir_fixed`: case split on the FIR bit (a literal FIR lets CBMC prune the match arms that cannot be taken; with a
    /// symbolic FIR the never-taken `Running` arm of a Complete pre-state still costs a copy to a symbolic offset: 165 s vs 15 s).
    /// `bc_fixed`: case split on "segment was sent to a broadcast address".
    /// `content`: also check the buffer bytes (expensive when the stored length is symbolic: the copy then goes to a symbolic offset).
    fn step_contract<const P: usize, const CAP: usize>(kind: u8, fir_fixed: Option<bool>, bc_fixed: Option<bool>, fixed_len: Option<usize>, content: bool) -> Obs {
        let mut pre = any_assembler::<CAP>(kind, fixed_len);
        let seg = any_info_prim();
        let fin: bool = kani::any();
        let fir: bool = match fir_fixed {
            Some(b) => b,
            None => kani::any(),
        };
        let seq_raw: u8 = kani::any();
        let seq = seq_raw % 64;
        let broadcast = seg.bc != 0;
        if let Some(b) = bc_fixed {
            // @assume: case split on the broadcast class of the segment; the sibling harness takes the complement
            kani::assume(broadcast == b);
        }
        let same_info = seg == pre.prim;
        let exp = spec::assembler_step(pre.st, CAP, fir, fin, seq_raw, same_info, broadcast, P);

        let payload: [u8; P] = kani::any();
        let ret = pre.asm.assemble(frame_info_of(&seg), Header::new(fin, fir, Sequence::new(seq_raw)), &payload);

        let post = view(&pre.asm);
        // the caller is told "complete" exactly when a fragment is waiting
        assert!(matches!(ret, AssemblyState::Complete) == (post.kind == 2));
        // invariant preserved
        assert!(post.len <= CAP);
        // frame id: +1 (wrapping) exactly when this segment completed a fragment, otherwise unchanged
        assert!(post.frame_id == exp.next.frame_id);
        assert!((exp.outcome == 3) == (post.frame_id != pre.st.frame_id));
        let mut kept = false;
        match exp.outcome {
            0 => {
                // ignored: what was there is either kept as it was or cleared; the segment starts or extends nothing
                if post.kind == 0 {
                    assert!(post == spec::AsmState { kind: 0, len: 0, seq: 0, frame_id: pre.st.frame_id });
                } else {
                    kept = true;
                    assert!(post == pre.st);
                    match pre.asm.state {
                        InternalState::Empty => {}
                        InternalState::Running(fi, _, _) => assert!(fi == frame_info_of(&pre.prim)),
                        InternalState::Complete(fi, _) => assert!(fragment_info_is(&fi, pre.frag_id, &pre.prim)),
                    }
                }
            }
            1 => {
                assert!(post == exp.next);
                assert!(post.kind == 0);
            }
            2 => {
                assert!(post == exp.next);
                match pre.asm.state {
                    InternalState::Running(fi, h, n) => {
                        assert!(fi == frame_info_of(&seg));
                        assert!(fi.source.raw_value() == seg.src);
                        assert!(h.seq.value() == seq);
                        assert!(n == exp.start + P);
                    }
                    _ => assert!(false),
                }
            }
            _ => {
                assert!(post == exp.next);
                match pre.asm.state {
                    InternalState::Complete(fi, n) => {
                        assert!(fragment_info_is(&fi, pre.st.frame_id, &seg));
                        assert!(n == exp.start + P);
                    }
                    _ => assert!(false),
                }
            }
        }
        if exp.outcome >= 2 {
            if !fir {
                assert!(exp.start == pre.st.len && pre.st.kind == 1 && same_info && seq == spec::tp_seq_next(pre.st.seq));
            } else {
                assert!(exp.start == 0);
            }
        }
        // what a taker now sees: a fragment iff Complete, of exactly the tracked length, with the info of this segment if it completed one
        match pre.asm.peek() {
            None => assert!(post.kind != 2),
            Some(f) => {
                assert!(post.kind == 2 && f.data.len() == post.len);
                if exp.outcome == 3 {
                    assert!(fragment_info_is(&f.info, pre.st.frame_id, &seg));
                }
            }
        }
        if content {
            let i: usize = kani::any();
            // @assume: universally quantified buffer index
            kani::assume(i < CAP);
            let after = pre.asm.buffer.get(CAP).unwrap()[i];
            if exp.outcome >= 2 {
                // bytes already buffered unchanged, payload copied right after them, nothing else written
                if i >= exp.start && i < exp.start + P {
                    assert!(after == payload[i - exp.start]);
                } else {
                    assert!(after == pre.data[i]);
                }
            }
            if kept && i < pre.st.len {
                assert!(after == pre.data[i]);
            }
        }
        Obs {
            outcome: exp.outcome, fir, fin, broadcast, kept, same_info,
            seq_ok: seq == spec::tp_seq_next(pre.st.seq),
            same_src: seg.src == pre.prim.src,
            pre_len: pre.st.len, post_len: post.len, post_frame_id: post.frame_id,
        }
    }

    // vacuity guards per pre-state kind
    fn covers_empty<const P: usize, const CAP: usize>(o: &Obs) {
        kani::cover!(o.outcome == 0 && !o.fir && !o.broadcast);
        kani::cover!(o.outcome == 0 && o.fir && o.broadcast);
        kani::cover!(o.outcome == 2 && o.post_len == P);
        kani::cover!(o.outcome == 3 && o.broadcast && o.post_frame_id == 0);
        kani::cover!(o.outcome == 3 && !o.broadcast);
    }

    fn covers_running<const P: usize, const CAP: usize>(o: &Obs) {
        kani::cover!(o.outcome == 0 && o.kept);
        kani::cover!(o.outcome == 1 && !o.fir && !o.seq_ok && o.same_info);
        kani::cover!(o.outcome == 1 && !o.fir && o.seq_ok && !o.same_info && !o.same_src);
        kani::cover!(o.outcome == 1 && !o.fir && o.seq_ok && !o.same_info && o.same_src && !o.broadcast);
        kani::cover!(P == 0 || (o.outcome == 1 && !o.fir && !o.broadcast && o.same_info && o.seq_ok));
        kani::cover!(o.outcome == 1 && o.fir && o.broadcast);
        kani::cover!(o.outcome == 2 && !o.fir && o.pre_len > 0);
        kani::cover!(o.outcome == 3 && !o.fir && o.post_len == CAP && o.post_frame_id == 0);
        kani::cover!(o.outcome == 2 && o.fir && o.pre_len > 0);
    }

    fn covers_running_fits<const P: usize, const CAP: usize>(o: &Obs) {
        kani::cover!(o.outcome == 2 && !o.fir);
        kani::cover!(o.outcome == 3 && !o.fir);
        kani::cover!(o.outcome == 0 && o.kept);
        kani::cover!(o.outcome == 1 && !o.seq_ok);
    }

    fn covers_running_overflows<const P: usize, const CAP: usize>(o: &Obs) {
        kani::cover!(o.outcome == 1 && !o.fir && !o.broadcast && o.same_info && o.seq_ok);
        kani::cover!(o.outcome == 0 && o.kept);
    }

    fn covers_running_fir<const P: usize, const CAP: usize>(o: &Obs) {
        kani::cover!(o.outcome == 2 && o.pre_len > P);
        kani::cover!(o.outcome == 3 && o.broadcast);
        kani::cover!(o.outcome == 1 && o.broadcast);
    }

    fn covers_complete_fir<const P: usize, const CAP: usize>(o: &Obs) {
        kani::cover!(o.outcome == 0 && o.broadcast);
        kani::cover!(o.outcome == 2 && o.pre_len > P);
        kani::cover!(o.outcome == 3 && o.broadcast);
        kani::cover!(o.outcome == 3 && !o.broadcast);
    }

    fn covers_complete_nonfir<const P: usize, const CAP: usize>(o: &Obs) {
        kani::cover!(o.outcome == 0 && o.fin);
        kani::cover!(o.outcome == 0 && !o.fin);
    }

    macro_rules! asm_step {
        ($name:ident, $kind:expr, $fir:expr, $bc:expr, $fixed:expr, $content:expr, $p:expr, $cap:expr, $covers:ident) => {
            #[kani::proof]
            fn $name() {
                let o = step_contract::<$p, $cap>($kind, $fir, $bc, $fixed, $content);
                $covers::<$p, $cap>(&o);
            }
        };
    }

    // ---- Empty pre-state: offset is always 0, so state logic and buffer bytes are checked together at real capacities
    // @harness ids=C08,C01 tier=quick kind=proof units=transport::real::assembler::Assembler::assemble,transport::real::assembler::Assembler::append,transport::real::assembler::Assembler::peek timeout=300 note="Empty pre-state, payload 1 byte, buffer 249: post-state == spec::assembler_step (non-FIR ignored, FIR starts at offset 0, broadcast only FIR+FIN, FIN completes with id = frame_id and frame_id+1 wrapping, info = the segment's source), payload copied exactly to [0,1), rest of buffer untouched"
    asm_step!(vk_c08_asm_empty_p1_c249, 0, None, None, None, true, 1, 249, covers_empty);
    // @harness ids=C08,C01 tier=quick kind=proof units=transport::real::assembler::Assembler::assemble,transport::real::assembler::Assembler::append,transport::real::assembler::Assembler::peek timeout=300 note="Empty pre-state, payload 249 bytes (maximum segment), buffer 249: same contract; a one-segment fragment that exactly fills the buffer is delivered"
    asm_step!(vk_c08_asm_empty_p249_c249, 0, None, None, None, true, 249, 249, covers_empty);
    // @harness ids=C08,C01 tier=quick kind=proof units=transport::real::assembler::Assembler::assemble,transport::real::assembler::Assembler::append,transport::real::assembler::Assembler::peek timeout=400 note="Empty pre-state, empty payload, buffer 2048: same contract"
    asm_step!(vk_c08_asm_empty_p0_c2048, 0, None, None, None, true, 0, 2048, covers_empty);

    // ---- Running pre-state, state logic for EVERY stored length (buffer bytes: see the *_bytes_* harnesses below)
    // @harness ids=C08,C01 tier=quick kind=proof units=transport::real::assembler::Assembler::assemble,transport::real::assembler::Assembler::append,transport::real::assembler::Assembler::peek timeout=300 note="Running pre-state (any link source, broadcast class, physical address None or UDP/IPv4, any last header, any stored length <= 249), payload 1 byte, buffer 249: continues only if seq == prev+1 mod 64 AND same source/phys address/broadcast class, else dropped; overflow dropped; FIR restarts at 0; new length = old + 1; info/seq/frame id per spec; both expect() unreachable"
    asm_step!(vk_c08_asm_running_p1_c249, 1, None, None, None, false, 1, 249, covers_running);
    // @harness ids=C08,C01 tier=quick kind=proof units=transport::real::assembler::Assembler::assemble,transport::real::assembler::Assembler::append,transport::real::assembler::Assembler::peek timeout=300 note="Running pre-state, empty payload, buffer 249: same state contract"
    asm_step!(vk_c08_asm_running_p0_c249, 1, None, None, None, false, 0, 249, covers_running);
    // @harness ids=C08,C01 tier=quick kind=proof units=transport::real::assembler::Assembler::assemble,transport::real::assembler::Assembler::append,transport::real::assembler::Assembler::peek timeout=400 note="Running pre-state, payload 249 bytes, buffer 300: same state contract (overflow unless stored length <= 51)"
    asm_step!(vk_c08_asm_running_p249_c300, 1, None, None, None, false, 249, 300, covers_running);
    // @harness ids=C08,C01 tier=quick kind=proof units=transport::real::assembler::Assembler::assemble,transport::real::assembler::Assembler::append,transport::real::assembler::Assembler::peek timeout=600 note="Running pre-state, payload 249 bytes, buffer 2048 (default maximum fragment size): same state contract"
    asm_step!(vk_c08_asm_running_p249_c2048, 1, None, None, None, false, 249, 2048, covers_running);

    // ---- Running pre-state, buffer bytes. The copy goes to a symbolic offset, which CBMC only handles fast for small buffers:
    //      (a) every stored length with a 32-byte buffer, (b) real capacities with the stored length pinned per instance,
    //      (c) FIR restart (offset 0) at real capacity for every stored length.
    // @harness ids=C08 tier=quick kind=bounded bound="buffer capacity 32, payload 5 (code is capacity-independent); every stored length 0..=32" units=transport::real::assembler::Assembler::assemble,transport::real::assembler::Assembler::append timeout=300 note="Running pre-state: bytes [0,len) unchanged, payload at [len,len+5), nothing else written, for every stored length; plus the state contract"
    asm_step!(vk_c08_asm_running_bytes_p5_c32, 1, None, None, None, true, 5, 32, covers_running);
    // @harness ids=C08 tier=quick kind=bounded bound="non-FIR segments, stored length pinned to 1799 (payload 249 exactly fills the 2048-byte buffer)" units=transport::real::assembler::Assembler::assemble,transport::real::assembler::Assembler::append timeout=400 note="Running pre-state at real capacity: 1799 buffered bytes unchanged, 249 payload bytes at [1799,2048), fragment of 2048 bytes completes"
    asm_step!(vk_c08_asm_running_bytes_l1799_p249_c2048, 1, Some(false), None, Some(1799), true, 249, 2048, covers_running_fits);
    // @harness ids=C08 tier=quick kind=bounded bound="non-FIR segments, stored length pinned to 1800 (payload 249 overflows the 2048-byte buffer by one)" units=transport::real::assembler::Assembler::assemble,transport::real::assembler::Assembler::append timeout=400 note="Running pre-state at real capacity: a continuing segment that would exceed the buffer drops the fragment (state Empty, nothing delivered)"
    asm_step!(vk_c08_asm_running_bytes_l1800_p249_c2048, 1, Some(false), None, Some(1800), true, 249, 2048, covers_running_overflows);
    // @harness ids=C08 tier=quick kind=bounded bound="non-FIR segments, stored length pinned to 248, payload 1, buffer 249" units=transport::real::assembler::Assembler::assemble,transport::real::assembler::Assembler::append timeout=300 note="Running pre-state: last free byte of a minimum-size buffer is filled, bytes before it unchanged"
    asm_step!(vk_c08_asm_running_bytes_l248_p1_c249, 1, Some(false), None, Some(248), true, 1, 249, covers_running_fits);
    // @harness ids=C08,C01 tier=quick kind=proof units=transport::real::assembler::Assembler::assemble,transport::real::assembler::Assembler::append timeout=400 note="Running pre-state, FIR segments, every stored length, payload 249, buffer 2048: the partial fragment is discarded, the payload lands at [0,249) and nothing else is written"
    asm_step!(vk_c08_asm_running_bytes_fir_p249_c2048, 1, Some(true), None, None, true, 249, 2048, covers_running_fir);

    // ---- Complete (fragment not yet taken) pre-state, case split FIR / non-FIR broadcast / non-FIR non-broadcast
    // @harness ids=C08,C01 tier=quick kind=proof units=transport::real::assembler::Assembler::assemble,transport::real::assembler::Assembler::append,transport::real::assembler::Assembler::peek timeout=300 note="Complete pre-state, FIR segments, payload 1, buffer 249: FIR restarts at offset 0 (bytes checked); broadcast FIR without FIN is ignored (waiting fragment kept intact or cleared)"
    asm_step!(vk_c08_asm_complete_fir_p1_c249, 2, Some(true), None, None, true, 1, 249, covers_complete_fir);
    // @harness ids=C08,C01 tier=quick kind=proof units=transport::real::assembler::Assembler::assemble,transport::real::assembler::Assembler::append,transport::real::assembler::Assembler::peek timeout=400 note="Complete pre-state, FIR segments, payload 249, buffer 300: same contract"
    asm_step!(vk_c08_asm_complete_fir_p249_c300, 2, Some(true), None, None, true, 249, 300, covers_complete_fir);
    // @harness ids=C08,C01 tier=quick kind=proof units=transport::real::assembler::Assembler::assemble timeout=300 note="Complete pre-state, non-FIR broadcast segment, payload 1, buffer 249: ignored; the waiting fragment (state, info, bytes [0,n)) is kept intact or cleared"
    asm_step!(vk_c08_asm_complete_nonfir_bc_p1_c249, 2, Some(false), Some(true), None, true, 1, 249, covers_complete_nonfir);
    // CALLER PRECONDITION (not a harness): `assemble` is never called with a non-FIR, non-broadcast segment while a completed
    // fragment is still untaken. The only caller, transport::real::reader::Reader::read, returns early when
    // `assembler.peek().is_some()` and returns as soon as `assemble` reports Complete; that guard sits in an async fn and
    // is listed as an open caller obligation in the C08 evidence. Outside this precondition the Complete arm of
    // `assemble` discards the waiting fragment and starts a new one from a segment without FIR (observed by a harness
    // during development; unreachable through Reader::read, hence not a property violation and not asserted here).

    // @harness ids=C08,C01 tier=quick kind=proof units=transport::real::assembler::Assembler::peek,transport::real::assembler::Assembler::pop,transport::real::assembler::Assembler::reset,transport::real::assembler::Assembler::new timeout=300 note="from any state kind (buffer 300): peek/pop return a fragment iff Complete, exactly buffer[0..n) with the stored info; peek changes nothing, pop empties, neither touches frame_id or the buffer; reset empties; new is Empty with frame_id 0"
    #[kani::proof]
    fn vk_c08_asm_peek_pop_reset() {
        const CAP: usize = 300;
        let kind: u8 = kani::any();
        // @assume: selects one of the three state kinds
        kani::assume(kind <= 2);
        let mut pre = any_assembler::<CAP>(kind, None);
        let i: usize = kani::any();
        // @assume: universally quantified buffer index
        kani::assume(i < CAP);
        match pre.asm.peek() {
            None => assert!(kind != 2),
            Some(f) => {
                assert!(kind == 2 && f.data.len() == pre.st.len);
                assert!(fragment_info_is(&f.info, pre.frag_id, &pre.prim));
                if i < pre.st.len {
                    assert!(f.data[i] == pre.data[i]);
                }
            }
        }
        assert!(view(&pre.asm) == pre.st);
        let popped = match pre.asm.pop() {
            None => false,
            Some(f) => {
                assert!(kind == 2 && f.data.len() == pre.st.len);
                assert!(fragment_info_is(&f.info, pre.frag_id, &pre.prim));
                if i < pre.st.len {
                    assert!(f.data[i] == pre.data[i]);
                }
                true
            }
        };
        assert!(popped == (kind == 2));
        let post = view(&pre.asm);
        if kind == 2 {
            assert!(post == spec::AsmState { kind: 0, len: 0, seq: 0, frame_id: pre.st.frame_id });
            assert!(pre.asm.peek().is_none());
        } else {
            assert!(post == pre.st);
        }
        assert!(pre.asm.buffer.get(CAP).unwrap()[i] == pre.data[i]);
        kani::cover!(popped && pre.st.len == CAP);
        kani::cover!(popped && pre.st.len == 0);
        kani::cover!(!popped && kind == 1);
        pre.asm.reset();
        assert!(view(&pre.asm) == spec::AsmState { kind: 0, len: 0, seq: 0, frame_id: pre.st.frame_id });
        let fresh = Assembler::new(249);
        assert!(view(&fresh) == spec::AsmState { kind: 0, len: 0, seq: 0, frame_id: 0 });
        assert!(fresh.buffer.get(249).is_some() && fresh.buffer.get(250).is_none());
    }

    // @harness ids=C08,C01 tier=quick kind=proof units=verif_spec::assembler_step timeout=120 note="the spec function is total: no overflow or panic for any input, and its result respects the invariant len <= cap when the pre-state does"
    #[kani::proof]
    fn vk_c08_spec_step_total() {
        let s = spec::AsmState { kind: kani::any(), len: kani::any(), seq: kani::any(), frame_id: kani::any() };
        let cap: usize = kani::any();
        let r = spec::assembler_step(s, cap, kani::any(), kani::any(), kani::any(), kani::any(), kani::any(), kani::any());
        if s.len <= cap {
            assert!(r.next.len <= cap);
        }
        assert!(r.outcome <= 3);
        kani::cover!(r.outcome == 3 && r.next.frame_id == 0);
        kani::cover!(r.outcome == 1);
    }
