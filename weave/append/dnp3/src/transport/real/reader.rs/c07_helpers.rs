    pub(crate) fn assembler_mut(r: &mut Reader) -> &mut Assembler { &mut r.assembler }
    pub(crate) fn assembler(r: &Reader) -> &Assembler { &r.assembler }
    pub(crate) fn set_pending(r: &mut Reader, m: Option<LinkLayerMessage>) { r.pending_link_layer_message = m; }
