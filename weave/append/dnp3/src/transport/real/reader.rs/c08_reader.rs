    use crate::link::LinkErrorMode;
    use crate::transport::real::assembler::verif_kani_c08_assembler as asmv;
    use crate::transport::{LinkLayerMessageType, TransportData};

    fn any_reader<const CAP: usize>(kind: u8) -> (Reader, asmv::Pre<CAP>, Option<(u16, bool)>) {
        let master: bool = kani::any();
        let local: u16 = kani::any();
        let mut r = if master {
            Reader::master(LinkModes::stream(LinkErrorMode::Close), EndpointAddress::raw(local), CAP)
        } else {
            Reader::outstation(LinkModes::stream(LinkErrorMode::Close), EndpointAddress::raw(local), if kani::any() { Feature::Enabled } else { Feature::Disabled }, CAP)
        };
        let mut pre = asmv::any_assembler::<CAP>(kind, None);
        // move the arbitrary assembler into the real reader (same capacity)
        std::mem::swap(&mut r.assembler, &mut pre.asm);
        let pending: Option<(u16, bool)> = if kani::any() { Some((kani::any(), kani::any())) } else { None };
        r.pending_link_layer_message = pending.map(|(src, req)| LinkLayerMessage {
            source: EndpointAddress::raw(src),
            message: if req { LinkLayerMessageType::LinkStatusRequest } else { LinkLayerMessageType::LinkStatusResponse },
        });
        (r, pre, pending)
    }

    fn is_msg(d: &TransportData<'_>, p: (u16, bool)) -> bool {
        match d {
            TransportData::LinkLayerMessage(m) => {
                m.source.raw_value() == p.0 && (m.message == LinkLayerMessageType::LinkStatusRequest) == p.1
            }
            _ => false,
        }
    }

    fn is_fragment<const CAP: usize>(d: &TransportData<'_>, pre: &asmv::Pre<CAP>, i: usize) -> bool {
        match d {
            TransportData::Fragment(f) => {
                asmv::fragment_info_is(&f.info, pre.frag_id, &pre.prim) && f.data.len() == pre.st.len && (i >= pre.st.len || f.data[i] == pre.data[i])
            }
            _ => false,
        }
    }

    // @harness ids=C08,C01 tier=quick kind=proof units=transport::real::reader::Reader::peek,transport::real::reader::Reader::pop,transport::real::reader::Reader::reset,transport::real::reader::Reader::master,transport::real::reader::Reader::outstation timeout=400 note="real Reader (buffer 249) with an arbitrary assembler state and an arbitrary pending link message: peek/pop yield the pending link message first (pop clears only it), otherwise exactly the assembler's complete fragment (same bytes, same source, same id) or nothing; a second pop after a message yields the fragment; reset leaves nothing to deliver"
    #[kani::proof]
    fn vk_c08_reader_peek_pop_reset() {
        const CAP: usize = 249;
        let kind: u8 = kani::any();
        // @assume: selects one of the three assembler state kinds
        kani::assume(kind <= 2);
        let (mut r, pre, pending) = any_reader::<CAP>(kind);
        let i: usize = kani::any();
        // @assume: universally quantified buffer index
        kani::assume(i < CAP);
        // peek
        match (r.peek(), pending) {
            (Some(d), Some(p)) => assert!(is_msg(&d, p)),
            (Some(d), None) => assert!(kind == 2 && is_fragment(&d, &pre, i)),
            (None, Some(_)) => assert!(false),
            (None, None) => assert!(kind != 2),
        }
        // pop #1
        match (r.pop(), pending) {
            (Some(d), Some(p)) => assert!(is_msg(&d, p)),
            (Some(d), None) => assert!(kind == 2 && is_fragment(&d, &pre, i)),
            (None, Some(_)) => assert!(false),
            (None, None) => assert!(kind != 2),
        }
        assert!(r.pending_link_layer_message.is_none());
        // pop #2: a fragment that was behind a link message is still there, intact; otherwise nothing is left
        match r.pop() {
            Some(d) => assert!(pending.is_some() && kind == 2 && is_fragment(&d, &pre, i)),
            None => assert!(pending.is_none() || kind != 2),
        }
        assert!(r.pop().is_none() && r.peek().is_none());
        kani::cover!(pending.is_some() && kind == 2 && pre.st.len == CAP);
        kani::cover!(pending.is_none() && kind == 2 && pre.st.len == 0);
        kani::cover!(pending.is_none() && kind == 1);
        std::mem::forget(r);
        std::mem::forget(pre);
    }

    // @harness ids=C08,C01 tier=quick kind=proof units=transport::real::reader::Reader::reset timeout=400 note="reset on a real Reader in any state: no pending link message, no fragment (partial or complete) survives"
    #[kani::proof]
    fn vk_c08_reader_reset() {
        const CAP: usize = 249;
        let kind: u8 = kani::any();
        // @assume: selects one of the three assembler state kinds
        kani::assume(kind <= 2);
        let (mut r, pre, pending) = any_reader::<CAP>(kind);
        r.reset();
        assert!(r.pending_link_layer_message.is_none());
        assert!(r.peek().is_none());
        assert!(r.assembler.peek().is_none());
        assert!(r.pop().is_none());
        assert!(asmv::is_empty(&r.assembler));
        kani::cover!(pending.is_some() && kind == 2);
        kani::cover!(kind == 1);
        std::mem::forget(r);
        std::mem::forget(pre);
    }

    // (An attempt to put the entry guard of the async Reader::read under contract - "with a completed fragment waiting, read
    //  returns at once without reading or assembling" - did not finish in 600 s: CBMC unrolls the read loop behind the guard.
    //  The guard stays a stated caller precondition of Assembler::assemble.)
