    // @cfg not(test)
    use crate::app::parse::parser::verif_kani_helpers as ph;
    use crate::app::parse::parser::ParsedFragment;
    use crate::app::{ControlField, FunctionCode, Iin, Iin1, Iin2, Sequence};
    use crate::link::header::BroadcastConfirmMode;
    use crate::link::LinkErrorMode;
    use crate::transport::real::assembler::verif_kani_c07_helpers as ah;
    use crate::transport::real::reader::verif_kani_c07_helpers as rh;
    use crate::util::phys::PhysAddr;

    // Contract stub for ParsedFragment::parse (the real header parser is verified per leaf under C09/C12; the whole
    // dispatcher does not finish in CBMC): either a header error, or ANY parsed fragment over the given bytes.
    // The stub is a FUNCTION of its input like the real parser: all choices are fixed once per harness run.
    pub(crate) static mut PF_CHOICE: (u8, u8, u8, u8, bool, u8, u8, bool) = (0, 0, 0, 0, false, 0, 0, false);
    pub(crate) fn pf_choose() { unsafe { PF_CHOICE = kani::any(); } }
    impl<'a> ParsedFragment<'a> {
        pub(crate) fn stub_parse(options: ParseOptions, fragment: &'a [u8]) -> Result<ParsedFragment<'a>, crate::app::HeaderParseError> {
            let (kind, seq, fc, ctrl, has_iin, i1, i2, ok_objects) = unsafe { PF_CHOICE };
            match kind % 3 {
                0 => Err(crate::app::HeaderParseError::InsufficientBytes),
                1 => Err(crate::app::HeaderParseError::UnknownFunction(Sequence::new(seq), fc)),
                _ => {
                    let function = match FunctionCode::from(fc) { Some(f) => f, None => FunctionCode::Read };
                    Ok(ParsedFragment {
                        control: ControlField::from(ctrl),
                        function,
                        options,
                        iin: if has_iin { Some(Iin::new(Iin1::new(i1), Iin2::new(i2))) } else { None },
                        objects: if ok_objects { Ok(ph::mk_header_collection(function, fragment)) } else { Err(crate::app::ObjectParseError::InsufficientBytes) },
                        raw_fragment: fragment,
                        raw_objects: fragment,
                    })
                }
            }
        }
    }

    fn any_bcast() -> Option<BroadcastConfirmMode> {
        match kani::any::<u8>() % 4 {
            0 => None,
            1 => Some(BroadcastConfirmMode::Optional),
            2 => Some(BroadcastConfirmMode::Mandatory),
            _ => Some(BroadcastConfirmMode::NotRequired),
        }
    }

    // @harness ids=C07,C01 tier=quick kind=proof stubs=1 units=transport::reader::TransportReader::pop_request,transport::reader::TransportReader::peek_request timeout=600 note="with a required master address m, whatever completed fragment is waiting (any source, unicast or broadcast, well-formed or not): after pop_request(Some(m)) nothing whose source link address differs from m is handed to the session - neither as a request nor as an error to be answered; a fragment from m is handed over untouched; without a required address everything is handed over"
    #[kani::proof]
    #[kani::stub(ParsedFragment::parse, ParsedFragment::stub_parse)]
    fn vk_c07_pop_request_filters_foreign_master() {
        let mut reader = TransportReader::outstation(
            LinkModes::stream(LinkErrorMode::Close),
            ParseOptions::parse_everything(),
            EndpointAddress::raw(1024),
            Feature::Disabled,
            249,
        );
        pf_choose();
        let src: u16 = kani::any();
        let m: u16 = kani::any();
        kani::assume(src < 0xFFF0 && m < 0xFFF0);
        let bcast = any_bcast();
        let info = FragmentInfo::new(kani::any(), FragmentAddr { link: EndpointAddress::raw(src), phys: PhysAddr::None }, bcast);
        let len: usize = kani::any();
        kani::assume(len >= 2 && len <= 8);
        ah::force_complete(rh::assembler_mut(&mut reader.inner), info, len);
        let required: bool = kani::any();
        let master = if required { Some(EndpointAddress::raw(m)) } else { None };
        {
            let mut guard = reader.pop_request(master);
            match guard.get() {
                None => {
                    // only legitimate when a foreign fragment was discarded
                    assert!(required && src != m);
                    kani::cover!(bcast.is_some());
                    kani::cover!(bcast.is_none());
                }
                Some(TransportRequest::LinkLayerMessage) => assert!(false),
                Some(TransportRequest::Request(i, _)) => {
                    assert!(!required || i.addr.link.raw_value() == m);
                    assert!(i.addr.link.raw_value() == src && i.broadcast == bcast);
                    kani::cover!(required);
                    kani::cover!(!required && src != m);
                }
                Some(TransportRequest::Error(from, _)) => {
                    assert!(!required || from.link.raw_value() == m);
                    kani::cover!(required);
                }
            }
            guard.retain();
        }
        std::mem::forget(reader);
    }

    pub(crate) fn inner_mut(r: &mut TransportReader) -> &mut InnerReaderType { &mut r.inner }
