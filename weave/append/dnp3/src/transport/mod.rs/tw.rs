    // Contract stub of TransportWriter::write. The weaver inserts, under cfg(kani), an early
    // `return verif_write(destination, fragment)` at the top of TransportWriter::write (what is dropped: its application-level
    // decode logging and the delegation to the inner writer)
    // (weave/inject/session_io.json). The contract it stands for - the fragment handed over is what is segmented and sent, to
    // `destination` - is what the C08 harnesses prove of the real transport::real::writer::Writer::write.
    pub(crate) const CAP: usize = 256;
    pub(crate) static mut CALLS: usize = 0;
    pub(crate) static mut FAIL: bool = false;
    pub(crate) static mut LAST_LEN: usize = 0;
    pub(crate) static mut LAST_DEST: u16 = 0;
    pub(crate) static mut LAST: [u8; 4] = [0; 4];
    // the harness chooses ONE symbolic offset (PROBE) whose octet is recorded: it stands for every body octet
    pub(crate) static mut PROBE: usize = 4;
    pub(crate) static mut LAST_PROBE: u8 = 0;
    // header octets and length of the FIRST fragment written since arm(): what later re-sends are compared with
    pub(crate) static mut FIRST4: [u8; 4] = [0; 4];
    pub(crate) static mut FIRST_LEN: usize = 0;
    // global event clock shared by the session-level stubs: position of the last write in the harness history
    pub(crate) static mut CLOCK: usize = 0;
    pub(crate) static mut LAST_AT: usize = 0;

    pub(crate) fn tick() -> usize { unsafe { CLOCK += 1; CLOCK } }
    pub(crate) fn arm(fail: bool) { unsafe { CALLS = 0; FAIL = fail; LAST_LEN = 0; CLOCK = 0; LAST_AT = 0; } }

    pub(crate) fn verif_write(destination: FragmentAddr, fragment: &[u8]) -> Result<(), crate::link::error::LinkError> {
        unsafe {
            CALLS += 1;
            LAST_AT = tick();
            LAST_LEN = fragment.len();
            LAST_DEST = destination.link.raw_value();
            if fragment.len() >= 4 { LAST = [fragment[0], fragment[1], fragment[2], fragment[3]]; }
            if PROBE < fragment.len() { LAST_PROBE = fragment[PROBE]; }
            if CALLS == 1 && fragment.len() >= 4 { FIRST4 = [fragment[0], fragment[1], fragment[2], fragment[3]]; FIRST_LEN = fragment.len(); }
            if FAIL { Err(crate::link::error::LinkError::Stdio(std::io::ErrorKind::BrokenPipe)) } else { Ok(()) }
        }
    }

    /// a TransportWriter that is never looked at (the stub returns before touching `self`)
    pub(crate) struct WriterShell { mem: core::mem::MaybeUninit<TransportWriter> }
    impl WriterShell {
        pub(crate) fn new() -> Self { WriterShell { mem: core::mem::MaybeUninit::zeroed() } }
        pub(crate) fn get(&mut self) -> &mut TransportWriter { unsafe { &mut *self.mem.as_mut_ptr() } }
    }
