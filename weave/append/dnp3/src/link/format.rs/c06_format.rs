    use crate::verif_spec as spec;
    use crate::link::crc::verif_kani_c06_crc as crcv;
    use crate::link::header::{AnyAddress, ControlField};

    fn any_header() -> Header {
        Header::new(ControlField::from(kani::any()), AnyAddress::from(kani::any()), AnyAddress::from(kani::any()))
    }

    // @harness ids=C06,C07,C01 tier=quick kind=proof units=link::format::format_header_fixed_size timeout=300 note="10-byte frame = 05 64 05 ctrl dst src + CRC of those 8 bytes (real CRC), every header value"
    #[kani::proof]
    #[kani::unwind(10)]
    fn vk_c06_format_header_fixed() {
        let h = any_header();
        let mut buf: [u8; 10] = kani::any();
        format_header_fixed_size(h, &mut buf);
        assert!(buf[0] == 0x05 && buf[1] == 0x64 && buf[2] == 5);
        assert_eq!(buf[3], h.control.to_u8());
        assert_eq!((buf[4] as u16) | ((buf[5] as u16) << 8), h.destination.value());
        assert_eq!((buf[6] as u16) | ((buf[7] as u16) << 8), h.source.value());
        let crc = crate::link::crc::calc_crc_with_0564(&buf[2..8]);
        assert_eq!((buf[8] as u16) | ((buf[9] as u16) << 8), crc);
        kani::cover!(h.control.master && h.destination.value() == 0xFFFF);
    }

    /// format_data_frame for N application bytes (user data = transport byte + N bytes, U = N+1, T = trailer_len(U)).
    /// FR = 10 + T + 2 (two spare bytes that must stay untouched). CRC of body blocks behind the logged contract stub.
    fn data_frame_contract<const N: usize, const T: usize, const FR: usize>() {
        assert!(T == spec::trailer_len(N + 1) && FR == 10 + T + 2);
        let h = any_header();
        let app: [u8; N] = kani::any();
        let tr: u8 = kani::any();
        let init: [u8; FR] = kani::any();
        let mut out = init;
        crcv::crc_log_reset();
        let mut cursor = WriteCursor::new(&mut out);
        let res = format_data_frame(h, Payload::new(tr, &app), &mut cursor);
        let ok = match &res {
            Ok(fd) => {
                assert_eq!(fd.frame.len(), 10 + T);
                assert_eq!(fd.payload_only.len(), T);
                assert!(fd.header == h);
                true
            }
            Err(_) => false,
        };
        assert!(ok);
        let pos = cursor.position();
        assert_eq!(pos, 10 + T);
        drop(cursor);
        // header
        assert!(out[0] == 0x05 && out[1] == 0x64);
        assert_eq!(out[2] as usize, N + 1 + 5);
        assert_eq!(out[3], h.control.to_u8());
        assert_eq!((out[4] as u16) | ((out[5] as u16) << 8), h.destination.value());
        assert_eq!((out[6] as u16) | ((out[7] as u16) << 8), h.source.value());
        assert_eq!((out[8] as u16) | ((out[9] as u16) << 8), crate::link::crc::calc_crc_with_0564(&out[2..8]));
        // body blocks
        let u = N + 1;
        let nblocks = (u + 15) / 16;
        assert_eq!(crcv::crc_calls(), nblocks);
        let mut k = 0;
        while k < nblocks {
            let dk = if u - 16 * k >= 16 { 16 } else { u - 16 * k };
            let (ptr, len, r) = crcv::crc_log(k);
            assert!(ptr == out[10 + 18 * k..].as_ptr());
            assert_eq!(len, dk);
            assert_eq!((out[10 + 18 * k + dk] as u16) | ((out[10 + 18 * k + dk + 1] as u16) << 8), r);
            k += 1;
        }
        let mut i = 0;
        while i < u {
            let b = out[10 + (i / 16) * 18 + (i % 16)];
            if i == 0 { assert_eq!(b, tr); } else { assert_eq!(b, app[i - 1]); }
            i += 1;
        }
        // frame: nothing written past the frame
        assert!(out[10 + T] == init[10 + T] && out[10 + T + 1] == init[10 + T + 1]);
        kani::cover!(true);
    }

    macro_rules! fmt_harness {
        ($name:ident, $n:expr, $t:expr) => {
            #[kani::proof]
            #[kani::unwind(252)]
            #[kani::stub(crate::link::crc::calc_crc, crate::link::crc::verif_kani_c06_crc::stub_calc_crc)]
            fn $name() {
                data_frame_contract::<$n, $t, { 10 + $t + 2 }>();
            }
        };
    }

    // @harness ids=C06,C01 tier=quick kind=proof stubs=1 units=link::format::format_data_frame,link::format::format_frame timeout=900 note="N=0 app bytes (transport byte only)"
    fmt_harness!(vk_c06_format_n0, 0, 3);
    // @harness ids=C06,C01 tier=quick kind=proof stubs=1 units=link::format::format_data_frame,link::format::format_frame timeout=900 note="N=15 (one full block)"
    fmt_harness!(vk_c06_format_n15, 15, 18);
    // @harness ids=C06,C01 tier=quick kind=proof stubs=1 units=link::format::format_data_frame,link::format::format_frame timeout=900 note="N=16"
    fmt_harness!(vk_c06_format_n16, 16, 21);
    // @harness ids=C06,C01 tier=quick kind=proof stubs=1 units=link::format::format_data_frame,link::format::format_frame timeout=900 note="N=31"
    fmt_harness!(vk_c06_format_n31, 31, 36);
    // @harness ids=C06,C01 tier=quick kind=proof stubs=1 units=link::format::format_data_frame,link::format::format_frame timeout=900 note="N=249 (maximum)"
    fmt_harness!(vk_c06_format_n249, 249, 282);

    // @harness ids=C06,C01 tier=quick kind=bounded bound="payload length 250 and 300; cursor room exact-1 for N=20" units=link::format::format_frame timeout=300 note="BadWrite when payload > 249 bytes or the cursor is too short; never a panic"
    #[kani::proof]
    #[kani::unwind(40)]
    #[kani::stub(crate::link::crc::calc_crc, crate::link::crc::verif_kani_c06_crc::stub_calc_crc)]
    fn vk_c06_format_rejects() {
        let h = any_header();
        let app: [u8; 300] = kani::any();
        let mut out = [0u8; 400];
        {
            let mut c = WriteCursor::new(&mut out);
            assert!(format_data_frame(h, Payload::new(kani::any(), &app[..250]), &mut c).is_err());
            assert_eq!(c.position(), 0);
        }
        {
            let mut c = WriteCursor::new(&mut out);
            assert!(format_data_frame(h, Payload::new(kani::any(), &app), &mut c).is_err());
        }
        {
            // N=20 needs 10 + 21 + 4 = 35 bytes
            let mut c = WriteCursor::new(&mut out[..34]);
            assert!(format_data_frame(h, Payload::new(kani::any(), &app[..20]), &mut c).is_err());
        }
        {
            let mut c = WriteCursor::new(&mut out[..35]);
            assert!(format_data_frame(h, Payload::new(kani::any(), &app[..20]), &mut c).is_ok());
        }
        {
            let mut c = WriteCursor::new(&mut out[..9]);
            assert!(format_header_only(h, &mut c).is_err());
        }
        {
            let mut c = WriteCursor::new(&mut out[..10]);
            assert!(format_header_only(h, &mut c).is_ok());
        }
        kani::cover!(true);
    }

    // @harness ids=C06,C07,C01 tier=quick kind=proof units=link::format::format_header_only,link::format::format_frame timeout=300 note="header-only frame through the cursor equals format_header_fixed_size"
    #[kani::proof]
    #[kani::unwind(12)]
    fn vk_c06_format_header_only() {
        let h = any_header();
        let mut out: [u8; 12] = kani::any();
        let keep = (out[10], out[11]);
        let mut fixed = [0u8; 10];
        format_header_fixed_size(h, &mut fixed);
        let mut c = WriteCursor::new(&mut out);
        let ok = format_header_only(h, &mut c).is_ok();
        assert!(ok && c.position() == 10);
        drop(c);
        let mut i = 0;
        while i < 10 { assert_eq!(out[i], fixed[i]); i += 1; }
        assert!(out[10] == keep.0 && out[11] == keep.1);
        kani::cover!(true);
    }
